package main

// Model of encoding/json.Unmarshal (and the go-jose fork): the target cell is
// overwritten with a value that is a function of the JSON text; everything the
// decoder allocates is fresh; objects that existed before the call are not
// written (except the contents of a map the target already held).

import (
	"fmt"
	"go/types"

	"golang.org/x/tools/go/ssa"
)

var jsonUnmarshalKeys = map[string]bool{
	"encoding/json.Unmarshal":                          true,
	"github.com/go-jose/go-jose/v3/json.Unmarshal": true,
}

// reachableHeaps lists heap arrays of the types a decoder may allocate for T.
func (e *Enc) reachableHeaps(t types.Type, out map[string]string, seen map[string]bool) {
	c := e.ctx
	k := typeKey(t)
	if seen[k] {
		return
	}
	seen[k] = true
	switch u := t.Underlying().(type) {
	case *types.Pointer:
		if arr, ok := u.Elem().Underlying().(*types.Array); ok {
			n, s := c.elemHeap(arr.Elem())
			out[n] = s
			e.reachableHeaps(arr.Elem(), out, seen)
			return
		}
		n, s := c.cellHeap(u.Elem())
		out[n] = s
		e.reachableHeaps(u.Elem(), out, seen)
	case *types.Slice:
		n, s := c.elemHeap(u.Elem())
		out[n] = s
		e.reachableHeaps(u.Elem(), out, seen)
	case *types.Map:
		hn, hs, vn, vs := c.mapHeaps(t)
		out[hn], out[vn] = hs, vs
		e.reachableHeaps(u.Key(), out, seen)
		e.reachableHeaps(u.Elem(), out, seen)
	case *types.Struct:
		for i := 0; i < u.NumFields(); i++ {
			e.reachableHeaps(u.Field(i).Type(), out, seen)
		}
	case *types.Interface:
		// generic JSON values
		anyT := types.NewInterfaceType(nil, nil)
		e.reachableHeaps(types.NewMap(types.Typ[types.String], anyT), out, seen)
		e.reachableHeaps(types.NewSlice(anyT), out, seen)
	case *types.Array:
		e.reachableHeaps(u.Elem(), out, seen)
	}
}

// jsonMapFuns: key set and values of a JSON object decoded into a map type.
func jsonMapFuns(c *Ctx, t types.Type) (keys, vals string) {
	mt := t.Underlying().(*types.Map)
	id := c.typeID(mt)
	keys = c.declFun(fmt.Sprintf("jsonKeys$%d", id), []string{sortStr}, fmt.Sprintf("(Array %s Bool)", c.sortOf(mt.Key())))
	vals = c.declFun(fmt.Sprintf("jsonVals$%d", id), []string{sortStr}, fmt.Sprintf("(Array %s %s)", c.sortOf(mt.Key()), c.sortOf(mt.Elem())))
	return
}

func (f *Frame) jsonUnmarshal(x ssa.Value, cc *ssa.CallCommon, args []*Val, st *State) bool {
	e := f.enc
	c := e.ctx
	mi, ok := cc.Args[1].(*ssa.MakeInterface)
	if !ok {
		return false
	}
	pt, ok := mi.X.Type().Underlying().(*types.Pointer)
	if !ok {
		return false
	}
	ptr := f.val(mi.X)
	if ptr.T == "" {
		return false // address of a field: not modelled
	}
	T := pt.Elem()
	tid := c.typeID(T)
	str := c.define("json.in", sortStr, e.bytesToStr(st, args[0].T))
	errF := c.declFun(fmt.Sprintf("jsonErr$%d", tid), []string{sortStr}, sortIface)
	decF := c.declFun(fmt.Sprintf("jsonDec$%d", tid), []string{sortStr}, c.sortOf(T))
	errT := c.define("json.err", sortIface, "("+errF+" "+str+")")
	decT := "(" + decF + " " + str + ")"
	f.safetyObl("nil", "json.Unmarshal target", not(eq(ptr.T, "nil")))

	// allocation grows; pre-existing objects keep their contents
	pre := e.allocArr(st)
	c.usesQuant = true
	nal := c.freshConst("alloc@json", "(Array Ref Bool)")
	c.assert(fmt.Sprintf("(forall ((r Ref)) (! (=> (select %s r) (select %s r)) :pattern ((select %s r)) :pattern ((select %s r))))", pre, nal, pre, nal))
	e.heapSet(st, "alloc", "(Array Ref Bool)", nal)
	hs := map[string]string{}
	e.reachableHeaps(T, hs, map[string]bool{})
	for _, n := range sortedKeys(hs) {
		old := e.heapGet(st, n, hs[n])
		nh := c.freshConst(n+"@json", hs[n])
		c.assert(fmt.Sprintf("(forall ((r Ref)) (! (=> (select %s r) (= (select %s r) (select %s r))) :pattern ((select %s r))))", pre, nh, old, nh))
		e.heapSet(st, n, hs[n], nh)
	}
	// the target cell
	if m, isMap := T.Underlying().(*types.Map); isMap {
		// a non-nil map held by the target is written in place
		cn, cs := c.cellHeap(T)
		oldRef := sel(e.heapGet(st, cn, cs), ptr.T)
		hn, hsrt, vn, vsrt := c.mapHeaps(T)
		f.frameObl(oldRef, "json.Unmarshal into map", f.curInstr, hn)
		h := e.heapGet(st, hn, hsrt)
		// decoding into an empty map: the contents are a function of the text
		kf, vf := jsonMapFuns(c, T)
		wasEmpty := and(not(eq(oldRef, "nil")), eq(sel(h, oldRef), fmt.Sprintf("((as const (Array %s Bool)) false)", c.sortOf(m.Key()))))
		det := c.define("json.det", "Bool", and(eq(errT, "nilIface"), wasEmpty))
		e.heapSet(st, hn, hsrt, store(h, oldRef, ite(det, "("+kf+" "+str+")", c.freshConst("json.keys", fmt.Sprintf("(Array %s Bool)", c.sortOf(m.Key()))))))
		hv := e.heapGet(st, vn, vsrt)
		e.heapSet(st, vn, vsrt, store(hv, oldRef, ite(det, "("+vf+" "+str+")", c.freshConst("json.vals", fmt.Sprintf("(Array %s %s)", c.sortOf(m.Key()), c.sortOf(m.Elem()))))))
		// the cell afterwards holds the old map, or a newly allocated one if it was nil
		nm := c.freshConst("json.map", sortRef)
		c.assert(or(eq(nm, oldRef), and(eq(oldRef, "nil"), not(sel(pre, nm)))))
		c.assert(implies(eq(errT, "nilIface"), not(eq(nm, "nil"))))
		c.assert(or(eq(nm, "nil"), sel(nal, nm)))
		f.frameObl(ptr.T, "json.Unmarshal target", f.curInstr)
		e.heapSet(st, cn, cs, store(e.heapGet(st, cn, cs), ptr.T, nm))
	} else {
		a := &Addr{Base: ptr.T, CellT: T}
		f.frameObl(ptr.T, "json.Unmarshal target", f.curInstr)
		partial := c.freshConst("json.partial", c.sortOf(T))
		e.storeAddr(st, a, ite(eq(errT, "nilIface"), decT, partial))
	}
	// a target that was allocated here and has not been visible to anyone before this
	// call: only fresh memory is written, earlier pure applications are unaffected
	freshTarget := false
	if r := rootAlloc(mi.X); r != nil && valueParent(r) == f.fn {
		if first, done := f.escaped[r]; !done || first == ssa.Instruction(mi) || first == f.curInstr {
			if _, isMap := T.Underlying().(*types.Map); !isMap {
				freshTarget = true
			}
		}
	}
	if !freshTarget {
		e.bumpTok(st)
	}
	if x != nil {
		f.vals[x] = &Val{T: errT, Typ: x.Type(), ConstLen: -1}
	}
	e.usedTrusted["encoding/json.Unmarshal"] = "the decoded value and the error are functions of the JSON text and the target type only; the decoder writes only the target and objects it allocates itself"
	return true
}
