package main

import (
	"fmt"
	"go/ast"
	"go/parser"
	"go/token"
	"go/types"
	"os"
	"path/filepath"
	"sort"
	"strings"

	"golang.org/x/tools/go/packages"
	"golang.org/x/tools/go/ssa"
	"golang.org/x/tools/go/ssa/ssautil"
)

const repoModule = "github.com/trustbloc/sidetree-go"

type Program struct {
	Bindings  map[string]map[string]*localBinding // function key -> contract name -> recorded local variable
	RepoDir   string
	VerifDir  string
	Fset      *token.FileSet
	Pkgs      []*packages.Package
	ByPath    map[string]*packages.Package
	SSA       *ssa.Program
	Contracts map[string]*FuncContract // key: funcKey
	Specs     map[string]*SpecFunc     // key: name (global namespace), pkgPath.name also registered
	Globals   map[string][]*Clause     // pkgPath -> global invariants
	CFiles    []*ContractFile
	MirrorUse []string // contract files taken from the mirror because /repo lacks them
	ctrOverride map[*ssa.Function]*FuncContract // function literals whose contract follows their variable (rebindClosures)
	Renamed   []string // contracts bound to a renamed function (see rebindRenamed)
	MirrorDiff []string
	fnByKey   map[string]*ssa.Function
	Axioms    []axiomDef
	Guarded   []guardedField
	gfCache   map[*ssa.Global]*ssa.Function
	gfDone    map[*ssa.Global]bool
}

type axiomDef struct {
	cl   *Clause
	file *ContractFile
}

func funcKey(pkgPath, recv, name string) string {
	if recv != "" {
		return pkgPath + ".(" + recv + ")." + name
	}
	return pkgPath + "." + name
}

// keyOfFunction computes the contract key of an SSA function.
func keyOfFunction(fn *ssa.Function) string {
	if fn == nil {
		return ""
	}
	if fn.Parent() != nil {
		// closure: parent key + $n
		return keyOfFunction(fn.Parent()) + strings.TrimPrefix(fn.Name(), fn.Parent().Name())
	}
	pkgPath := ""
	if fn.Pkg != nil {
		pkgPath = fn.Pkg.Pkg.Path()
	} else if fn.Object() != nil && fn.Object().Pkg() != nil {
		pkgPath = fn.Object().Pkg().Path()
	}
	recv := ""
	if sig := fn.Signature; sig != nil && sig.Recv() != nil {
		recv = recvTypeName(sig.Recv().Type())
	}
	return funcKey(pkgPath, recv, fn.Name())
}

func recvTypeName(t types.Type) string {
	if p, ok := t.(*types.Pointer); ok {
		t = p.Elem()
	}
	if n, ok := t.(*types.Named); ok {
		return n.Obj().Name()
	}
	return t.String()
}

func loadProgram(repoDir, verifDir string) (*Program, error) {
	cfg := &packages.Config{
		Mode:       packages.LoadAllSyntax,
		Dir:        repoDir,
		BuildFlags: []string{"-tags=verif", "-mod=mod"},
		Env:        append(os.Environ(), "GOFLAGS=-mod=mod", "GOPROXY=off", "GOSUMDB=off", "GOTOOLCHAIN=local"),
	}
	pkgs, err := packages.Load(cfg, "./...")
	if err != nil {
		return nil, err
	}
	var errs []string
	packages.Visit(pkgs, nil, func(p *packages.Package) {
		if strings.HasPrefix(p.PkgPath, repoModule) {
			for _, e := range p.Errors {
				errs = append(errs, e.Error())
			}
		}
	})
	if len(errs) > 0 {
		return nil, fmt.Errorf("repository does not type-check: %s", strings.Join(errs, "; "))
	}
	prog, _ := ssautil.AllPackages(pkgs, ssa.InstantiateGenerics)
	for _, sp := range prog.AllPackages() {
		if isRepoPkg(sp.Pkg.Path()) || sp.Pkg.Path() == "github.com/evanphx/json-patch" {
			sp.SetDebugMode(true) // source names of locals (for loop invariants)
		}
	}
	prog.Build()
	p := &Program{RepoDir: repoDir, VerifDir: verifDir, Pkgs: pkgs, SSA: prog, ByPath: map[string]*packages.Package{},
		Contracts: map[string]*FuncContract{}, Specs: map[string]*SpecFunc{}, Globals: map[string][]*Clause{}, fnByKey: map[string]*ssa.Function{}}
	packages.Visit(pkgs, nil, func(pk *packages.Package) {
		p.ByPath[pk.PkgPath] = pk
		if p.Fset == nil {
			p.Fset = pk.Fset
		}
	})
	for fn := range ssautil.AllFunctions(prog) {
		if fn.Synthetic != "" && fn.Synthetic != "package initializer" {
			continue
		}
		p.fnByKey[keyOfFunction(fn)] = fn
	}
	p.Bindings = loadBindings(verifDir)
	if err := p.loadContracts(); err != nil {
		return nil, err
	}
	p.rebindRenamed()
	return p, nil
}

// loadContracts reads every contracts_verif.go under the repository (or the
// mirror when the repository copy is missing) and the externals file.
func (p *Program) loadContracts() error {
	mirrorRoot := filepath.Join(p.VerifDir, "contracts", "mirror")
	seen := map[string]bool{}
	var files []struct{ path, rel string }
	filepath.Walk(mirrorRoot, func(path string, info os.FileInfo, err error) error {
		if err == nil && !info.IsDir() && info.Name() == "contracts_verif.go" {
			rel, _ := filepath.Rel(mirrorRoot, path)
			files = append(files, struct{ path, rel string }{path, rel})
		}
		return nil
	})
	for _, f := range files {
		repoCopy := filepath.Join(p.RepoDir, f.rel)
		use := repoCopy
		rb, rerr := os.ReadFile(repoCopy)
		mb, _ := os.ReadFile(f.path)
		if rerr != nil {
			use = f.path
			p.MirrorUse = append(p.MirrorUse, f.rel)
		} else if string(rb) != string(mb) {
			// the mirror is authoritative for what the checks claim; a diverging
			// repository copy is reported and the mirror is used.
			use = f.path
			p.MirrorDiff = append(p.MirrorDiff, f.rel)
		}
		seen[f.rel] = true
		pkgPath := repoModule + "/" + filepath.ToSlash(filepath.Dir(f.rel))
		cf, err := parseContractFile(use, pkgPath)
		if err != nil {
			return err
		}
		p.addContractFile(cf)
	}
	// externals and lemma files
	extra, _ := filepath.Glob(filepath.Join(p.VerifDir, "contracts", "*.spec"))
	sort.Strings(extra)
	for _, path := range extra {
		cf, err := parseContractFile(path, "")
		if err != nil {
			return err
		}
		p.addContractFile(cf)
	}
	return nil
}

func (p *Program) addContractFile(cf *ContractFile) {
	p.CFiles = append(p.CFiles, cf)
	for _, fc := range cf.Funcs {
		if fc.IsLemma {
			p.Contracts["lemma:"+fc.Name] = fc
			continue
		}
		p.Contracts[funcKey(fc.PkgPath, fc.Recv, fc.Name)] = fc
	}
	for _, sf := range cf.Specs {
		p.Specs[sf.Name] = sf
	}
	p.Guarded = append(p.Guarded, cf.Guarded...)
	for _, ax := range cf.Axioms {
		p.Axioms = append(p.Axioms, axiomDef{cl: ax, file: cf})
	}
	if len(cf.Globals) > 0 {
		p.Globals[cf.PkgPath] = append(p.Globals[cf.PkgPath], cf.Globals...)
	}
}

func (p *Program) contractFor(fn *ssa.Function) *FuncContract {
	if fc, ok := p.ctrOverride[fn]; ok {
		return fc
	}
	return p.Contracts[keyOfFunction(fn)]
}

// ifaceContract finds a contract for an interface method: keyed by the named
// interface type and the method name.
func (p *Program) ifaceContract(recv types.Type, method string) *FuncContract {
	if n, ok := recv.(*types.Named); ok && n.Obj().Pkg() != nil {
		if fc := p.Contracts[funcKey(n.Obj().Pkg().Path(), n.Obj().Name(), method)]; fc != nil {
			return fc
		}
	}
	if n, ok := recv.(*types.Named); ok && n.Obj().Pkg() == nil { // error
		if fc := p.Contracts[funcKey("", n.Obj().Name(), method)]; fc != nil {
			return fc
		}
	}
	return nil
}

func (p *Program) findFunc(key string) *ssa.Function { return p.fnByKey[key] }

func isRepoPkg(path string) bool { return strings.HasPrefix(path, repoModule) }

// ---------------------------------------------------------------------------
// type expression resolution for contracts

type typeResolver struct {
	p       *Program
	pkg     *types.Package
	imports map[string]string
}

func (p *Program) resolver(pkgPath string, imports map[string]string) *typeResolver {
	var tp *types.Package
	if pk := p.ByPath[pkgPath]; pk != nil {
		tp = pk.Types
	}
	return &typeResolver{p: p, pkg: tp, imports: imports}
}

func (r *typeResolver) lookupPkg(name string) *types.Package {
	if path, ok := r.imports[name]; ok {
		if pk := r.p.ByPath[path]; pk != nil {
			return pk.Types
		}
	}
	if r.pkg != nil {
		// explicit alias used by one of the package files
		if pk := r.p.ByPath[r.pkg.Path()]; pk != nil {
			for _, f := range pk.Syntax {
				for _, im := range f.Imports {
					path := strings.Trim(im.Path.Value, `"`)
					if im.Name != nil && im.Name.Name == name {
						if q := r.p.ByPath[path]; q != nil {
							return q.Types
						}
					}
				}
			}
		}
		for _, im := range r.pkg.Imports() {
			if im.Name() == name {
				return im
			}
		}
	}
	// unique package name among repository packages, then anywhere
	var found *types.Package
	n := 0
	for path, pk := range r.p.ByPath {
		if pk.Types != nil && pk.Types.Name() == name && isRepoPkg(path) {
			found = pk.Types
			n++
		}
	}
	if n == 1 {
		return found
	}
	n = 0
	for _, pk := range r.p.ByPath {
		if pk.Types != nil && pk.Types.Name() == name {
			found = pk.Types
			n++
		}
	}
	if n == 1 {
		return found
	}
	return nil
}

func (r *typeResolver) lookupObj(name string) types.Object {
	if r.pkg != nil {
		if o := r.pkg.Scope().Lookup(name); o != nil {
			return o
		}
	}
	return types.Universe.Lookup(name)
}

func (r *typeResolver) resolveTypeSrc(src string) (types.Type, error) {
	e, err := parser.ParseExpr(src)
	if err != nil {
		return nil, fmt.Errorf("type %q: %v", src, err)
	}
	return r.resolveTypeExpr(e)
}

func (r *typeResolver) resolveTypeExpr(e ast.Expr) (types.Type, error) {
	switch x := e.(type) {
	case *ast.Ident:
		o := r.lookupObj(x.Name)
		if tn, ok := o.(*types.TypeName); ok {
			return tn.Type(), nil
		}
		return nil, fmt.Errorf("unknown type %s", x.Name)
	case *ast.SelectorExpr:
		id, ok := x.X.(*ast.Ident)
		if !ok {
			return nil, fmt.Errorf("bad qualified type")
		}
		pk := r.lookupPkg(id.Name)
		if pk == nil {
			return nil, fmt.Errorf("unknown package %s", id.Name)
		}
		if tn, ok := pk.Scope().Lookup(x.Sel.Name).(*types.TypeName); ok {
			return tn.Type(), nil
		}
		return nil, fmt.Errorf("unknown type %s.%s", id.Name, x.Sel.Name)
	case *ast.StarExpr:
		t, err := r.resolveTypeExpr(x.X)
		if err != nil {
			return nil, err
		}
		return types.NewPointer(t), nil
	case *ast.ArrayType:
		t, err := r.resolveTypeExpr(x.Elt)
		if err != nil {
			return nil, err
		}
		if x.Len == nil {
			return types.NewSlice(t), nil
		}
		return nil, fmt.Errorf("array types not supported in contracts")
	case *ast.MapType:
		k, err := r.resolveTypeExpr(x.Key)
		if err != nil {
			return nil, err
		}
		v, err := r.resolveTypeExpr(x.Value)
		if err != nil {
			return nil, err
		}
		return types.NewMap(k, v), nil
	case *ast.InterfaceType:
		if x.Methods == nil || len(x.Methods.List) == 0 {
			return types.NewInterfaceType(nil, nil), nil
		}
	case *ast.ParenExpr:
		return r.resolveTypeExpr(x.X)
	}
	return nil, fmt.Errorf("unsupported type expression")
}

// globalFuncInit: if the package-level variable g has function type, is assigned exactly once in the
// whole repository, by its package initialiser, with a function (literal without captured variables),
// return that function.
func (p *Program) globalFuncInit(g *ssa.Global) *ssa.Function {
	if p.gfCache == nil {
		p.gfCache = map[*ssa.Global]*ssa.Function{}
		p.gfDone = map[*ssa.Global]bool{}
	}
	if p.gfDone[g] {
		return p.gfCache[g]
	}
	p.gfDone[g] = true
	var found *ssa.Function
	n := 0
	for _, fn := range p.fnByKey {
		for _, b := range fn.Blocks {
			for _, ins := range b.Instrs {
				st, ok := ins.(*ssa.Store)
				if !ok || st.Addr != ssa.Value(g) {
					continue
				}
				n++
				if fn.Synthetic != "package initializer" {
					return nil
				}
				switch v := st.Val.(type) {
				case *ssa.Function:
					found = v
				case *ssa.MakeClosure:
					if len(v.Bindings) == 0 {
						found, _ = v.Fn.(*ssa.Function)
					}
				}
			}
		}
	}
	if n != 1 {
		return nil
	}
	p.gfCache[g] = found
	return found
}
