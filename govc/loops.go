package main

// Loop cutting: invariants asserted on entry, assumed after havoc, asserted on
// back edges. Also the write/escape bookkeeping used for the heap token and
// the frame obligations.

import (
	"fmt"
	"go/token"
	"go/types"
	"sort"
	"strings"

	"golang.org/x/tools/go/ssa"
)

type modSet struct {
	heaps    map[string]string // name -> sort
	nonLocal map[string]bool   // heaps with a write to an object that may have existed before the loop
	all      bool
	localAll bool // some call writes unknown heaps, but only at objects allocated inside the loop
	tok      bool
	body     map[*ssa.BasicBlock]bool // blocks of the loop
	topFn    *ssa.Function
}

func (m *modSet) add(name, sort string) {
	m.heaps[name] = sort
	m.tok = true
	if m.nonLocal != nil {
		m.nonLocal[name] = true
	}
}

// addAt records a write through base: if base is derived only from allocations made inside the
// loop (or inside a function called from the loop), objects that existed before the loop are untouched.
func (m *modSet) addAt(name, sort string, base ssa.Value) {
	if m.nonLocal != nil && base != nil && m.localRooted(base, map[ssa.Value]bool{}) {
		m.heaps[name] = sort
		m.tok = true
		return
	}
	m.add(name, sort)
}

func (m *modSet) localInstr(i ssa.Instruction) bool {
	if i.Block() == nil {
		return false
	}
	if i.Parent() != m.topFn {
		// instruction of a callee scanned because it is called from the loop
		return m.body != nil
	}
	return m.body[i.Block()]
}

func (m *modSet) localRooted(v ssa.Value, seen map[ssa.Value]bool) bool {
	if seen[v] {
		return true
	}
	seen[v] = true
	switch x := v.(type) {
	case *ssa.Const:
		return x.Value == nil
	case *ssa.Alloc:
		return m.localInstr(x)
	case *ssa.MakeMap:
		return m.localInstr(x)
	case *ssa.MakeSlice:
		return m.localInstr(x)
	case *ssa.FieldAddr:
		return m.localRooted(x.X, seen)
	case *ssa.IndexAddr:
		return m.localRooted(x.X, seen)
	case *ssa.Slice:
		return m.localRooted(x.X, seen)
	case *ssa.ChangeType:
		return m.localRooted(x.X, seen)
	case *ssa.Call:
		if b, ok := x.Call.Value.(*ssa.Builtin); ok && b.Name() == "append" {
			return m.localInstr(x) && m.localRooted(x.Call.Args[0], seen)
		}
		return false
	case *ssa.Phi:
		if !m.localInstr(x) {
			return false
		}
		for _, e := range x.Edges {
			if !m.localRooted(e, seen) {
				return false
			}
		}
		return true
	}
	return false
}

// freshRooted: v is nil or derived only from allocations of the enclosing function (so it did not
// exist when the function was entered). Used for the automatic loop invariant on slice/map variables
// built up inside a loop.
func freshRooted(v ssa.Value, seen map[ssa.Value]bool) bool {
	if seen[v] {
		return true
	}
	seen[v] = true
	switch x := v.(type) {
	case *ssa.Const:
		return x.Value == nil
	case *ssa.Alloc, *ssa.MakeMap, *ssa.MakeSlice:
		return true
	case *ssa.Slice:
		return freshRooted(x.X, seen)
	case *ssa.ChangeType:
		return freshRooted(x.X, seen)
	case *ssa.Call:
		if b, ok := x.Call.Value.(*ssa.Builtin); ok && b.Name() == "append" {
			return freshRooted(x.Call.Args[0], seen)
		}
		return false
	case *ssa.Phi:
		for _, e := range x.Edges {
			if !freshRooted(e, seen) {
				return false
			}
		}
		return true
	}
	return false
}

// refOf gives the heap reference of a pointer-like value (the array of a slice).
func refOf(t string, typ types.Type) string {
	switch typ.Underlying().(type) {
	case *types.Slice:
		return "(s.arr " + t + ")"
	case *types.Pointer, *types.Map:
		return t
	}
	return ""
}

func (f *Frame) loopInvariants(li *loopInfo) []*Clause {
	var out []*Clause
	fc, idx := f.loopBinding(li)
	if fc != nil {
		for _, c := range fc.Invs {
			if c.Loop == idx {
				out = append(out, c)
			}
		}
	}
	return out
}

// loopBinding: the contract and the loop index whose `loop k` clauses speak about loop li of this
// frame. Normally the frame's own contract and the loop's ordinal. When the verified function has
// handed loops to helpers that carry no contract of their own (extract-method), the clauses are
// counted over the function's loops and those helpers' loops in source order (flatSlots).
func (f *Frame) loopBinding(li *loopInfo) (*FuncContract, int) {
	fc := f.contract
	if fc == nil {
		fc = f.enc.prog.contractFor(f.fn)
	}
	if fc != nil {
		if f.parent == nil {
			if m := f.enc.flatSlots(); m != nil {
				return fc, m.own[li.ordinal]
			}
		}
		return fc, li.ordinal
	}
	if f.parent != nil && f.parent.parent == nil && f.callSite != nil {
		if m := f.enc.flatSlots(); m != nil {
			if idx, ok := m.callee[flatKey{f.callSite, li.ordinal}]; ok {
				return f.enc.topFC, idx
			}
		}
	}
	return nil, 0
}

type flatKey struct {
	call ssa.Instruction
	sub  int
}

type flatMap struct {
	own    map[int]int
	callee map[flatKey]int
}

func countLoops(fn *ssa.Function) int {
	heads := map[*ssa.BasicBlock]bool{}
	for _, b := range fn.Blocks {
		for _, s := range b.Succs {
			if s.Dominates(b) {
				heads[s] = true
			}
		}
	}
	return len(heads)
}

func loopPos(li *loopInfo) token.Pos {
	var min token.Pos
	for b := range li.body {
		for _, ins := range b.Instrs {
			if p := ins.Pos(); p.IsValid() && (min == 0 || p < min) {
				min = p
			}
		}
	}
	return min
}

func (e *Enc) flatSlots() *flatMap {
	if e.flatDone {
		return e.flat
	}
	e.flatDone = true
	top, fc := e.topFrame, e.topFC
	if top == nil || fc == nil {
		return nil
	}
	max := -1
	for _, c := range fc.Invs {
		if c.Loop > max {
			max = c.Loop
		}
	}
	for _, c := range fc.Decs {
		if c.Loop > max {
			max = c.Loop
		}
	}
	if max < 0 || max+1 == len(top.loops) {
		return nil
	}
	type slot struct {
		pos  token.Pos
		sub  int
		own  int
		call ssa.Instruction
	}
	var slots []slot
	for _, li := range top.loops {
		slots = append(slots, slot{pos: loopPos(li), own: li.ordinal})
	}
	helpers := 0
	for _, b := range top.fn.Blocks {
		for _, ins := range b.Instrs {
			ci, ok := ins.(*ssa.Call)
			if !ok {
				continue
			}
			callee := ci.Call.StaticCallee()
			if callee == nil || len(callee.Blocks) == 0 || !isRepoPkg(pkgPathOf(callee)) || e.prog.contractFor(callee) != nil {
				continue
			}
			for j := 0; j < countLoops(callee); j++ {
				slots = append(slots, slot{pos: ci.Pos(), sub: j, own: -1, call: ci})
				helpers++
			}
		}
	}
	if helpers == 0 || len(slots) != max+1 {
		return nil
	}
	sort.SliceStable(slots, func(i, j int) bool {
		if slots[i].pos != slots[j].pos {
			return slots[i].pos < slots[j].pos
		}
		return slots[i].sub < slots[j].sub
	})
	m := &flatMap{own: map[int]int{}, callee: map[flatKey]int{}}
	for i, s := range slots {
		if s.own >= 0 {
			m.own[s.own] = i
		} else {
			m.callee[flatKey{s.call, s.sub}] = i
		}
	}
	e.flat = m
	return m
}

// rangeLenOf finds the length operand of a range-over-slice loop.
func rangeLenOf(li *loopInfo) ssa.Value {
	if li.rangeIdx == nil {
		return nil
	}
	for _, ins := range li.header.Instrs {
		if b, ok := ins.(*ssa.BinOp); ok && b.Op == token.LSS {
			if add, ok := b.X.(*ssa.BinOp); ok && add.Op == token.ADD && add.X == ssa.Value(li.rangeIdx) {
				return b.Y
			}
		}
	}
	return nil
}

func (li *loopInfo) visitedAtHeader(f *Frame) string {
	return f.rangeSt[li.mapRange].visited
}

func (f *Frame) enterLoop(li *loopInfo, cur *State) {
	e := f.enc
	c := e.ctx
	h := li.header
	invs := f.loopInvariants(li)
	li.rangeLen = rangeLenOf(li)

	// entry values of the header phis
	entryVals := map[*ssa.Phi]*Val{}
	for _, ins := range h.Instrs {
		phi, ok := ins.(*ssa.Phi)
		if !ok {
			continue
		}
		var term string
		first := true
		for i := len(h.Preds) - 1; i >= 0; i-- {
			p := h.Preds[i]
			if isBackEdge(p, h) {
				continue
			}
			if _, ok := f.exit[p]; !ok {
				continue
			}
			ev := f.val(phi.Edges[i])
			if ev.T == "" {
				panic("loop phi of address value is outside the subset: " + phi.String())
			}
			if first {
				term, first = ev.T, false
			} else {
				term = ite(f.edgeCond(p, h), ev.T, term)
			}
		}
		entryVals[phi] = &Val{T: term, Typ: phi.Type(), ConstLen: -1}
	}
	guard := f.reach[h]

	// 1. invariants hold on entry
	li.phiVal = entryVals
	for _, cl := range invs {
		env := f.loopEnv(li, cur)
		g, err := env.evalBool(cl.E)
		if err != nil {
			e.errorf("%s: loop %d invariant %q: %v", f.prefix, li.ordinal, cl.Text, err)
			continue
		}
		e.addObl(&Obligation{Name: fmt.Sprintf("%s#inv[loop %d].entry[%s]", f.prefix, li.ordinal, clauseLabel(cl)), Kind: "inv.entry", Func: f.prefix,
			Label: clauseLabel(cl), Text: cl.Text, Guard: guard, Goal: g, Pos: f.posOfBlock(h)})
	}
	if li.rangeIdx != nil && li.rangeLen != nil {
		x := entryVals[li.rangeIdx].T
		ln := f.val(li.rangeLen).T
		e.addObl(&Obligation{Name: fmt.Sprintf("%s#inv[loop %d].entry[auto.range]", f.prefix, li.ordinal), Kind: "inv.entry", Func: f.prefix,
			Label: "auto.range", Text: "-1 <= rangeindex < len", Guard: guard, Goal: and("(bvsle #xffffffffffffffff "+x+")", or("(bvslt "+x+" "+ln+")", eq(x, "#xffffffffffffffff"))), Pos: f.posOfBlock(h)})
	}

	if bt, ok := f.idxBoundTerm(li); ok {
		x := entryVals[li.idxPhi].T
		e.addObl(&Obligation{Name: fmt.Sprintf("%s#inv[loop %d].entry[auto.index]", f.prefix, li.ordinal), Kind: "inv.entry", Func: f.prefix,
			Label: "auto.index", Text: "0 <= i <= bound", Guard: guard, Goal: idxInv(x, bt), Pos: f.posOfBlock(h)})
	}

	// slice / map / pointer variables built up by the loop from allocations of this function stay
	// fresh (not among the objects that existed at entry) -- needed by frame obligations only
	var autoFresh []*ssa.Phi
	if e.frameOn {
		for _, ins := range h.Instrs {
			phi, ok := ins.(*ssa.Phi)
			if !ok || entryVals[phi] == nil || refOf("x", phi.Type()) == "" {
				continue
			}
			if freshRooted(phi, map[ssa.Value]bool{}) {
				autoFresh = append(autoFresh, phi)
			}
		}
		e.heapInit("alloc", "(Array Ref Bool)", 0)
		for _, phi := range autoFresh {
			r := refOf(entryVals[phi].T, phi.Type())
			e.addObl(&Obligation{Name: fmt.Sprintf("%s#inv[loop %d].entry[auto.fresh %s]", f.prefix, li.ordinal, phi.Comment), Kind: "inv.entry", Func: f.prefix,
				Label: "auto.fresh", Text: phi.Comment + " is nil or was allocated by this call", Guard: guard, Goal: or(eq(r, "nil"), not(sel("alloc!0", r))), Pos: f.posOfBlock(h)})
			if e.memoUsed {
				e.addObl(&Obligation{Name: fmt.Sprintf("%s#inv[loop %d].entry[auto.unshared %s]", f.prefix, li.ordinal, phi.Comment), Kind: "inv.entry", Func: f.prefix,
					Label: "auto.unshared", Text: phi.Comment + " is not storage returned by a pure function", Guard: guard, Goal: or(eq(r, "nil"), not(c.memoBorn(r))), Pos: f.posOfBlock(h)})
			}
		}
	}
	li.autoFresh = autoFresh

	// 2. havoc what the loop modifies
	ms := f.loopModSet(li)
	preAlloc := e.allocArr(cur)
	if ms.all {
		e.havocAll(cur)
	} else {
		if ms.localAll {
			ms.heaps["alloc"] = "(Array Ref Bool)"
			for _, name := range e.heapOrd {
				if _, ok := ms.heaps[name]; !ok {
					ms.heaps[name] = e.heapSrt[name]
				}
			}
		}
		for _, name := range sortedKeys(ms.heaps) {
			if name == "alloc" {
				// allocation only grows
				pre := e.allocArr(cur)
				na := c.freshConst("alloc@loop", ms.heaps[name])
				c.usesQuant = true
				c.assert(fmt.Sprintf("(forall ((r Ref)) (! (=> (select %s r) (select %s r)) :pattern ((select %s r)) :pattern ((select %s r))))", pre, na, pre, na))
				cur.heaps[name] = na
				continue
			}
			preH := ""
			local := !ms.nonLocal[name] && strings.HasPrefix(ms.heaps[name], "(Array Ref ")
			if local {
				preH = e.heapGet(cur, name, ms.heaps[name])
			}
			cur.heaps[name] = c.freshConst(name+"@loop", ms.heaps[name])
			if local {
				// every write to this heap inside the loop goes to an object allocated inside the
				// loop: what existed before the loop keeps its contents
				if preH != "" {
					pa := preAlloc
					c.usesQuant = true
					c.assert(fmt.Sprintf("(forall ((r Ref)) (! (=> (select %s r) (= (select %s r) (select %s r))) :pattern ((select %s r))))", pa, cur.heaps[name], preH, cur.heaps[name]))
				}
			}
			if _, ok := e.heapSrt[name]; !ok {
				e.heapSrt[name] = ms.heaps[name]
				e.heapOrd = append(e.heapOrd, name)
			}
		}
		if ms.tok {
			e.bumpTok(cur)
		}
	}
	li.phiVal = map[*ssa.Phi]*Val{}
	// in instruction order: the numbering of the constants must not depend on map iteration (solver
	// run times vary by an order of magnitude with the names)
	for _, ins := range h.Instrs {
		phi, ok := ins.(*ssa.Phi)
		if !ok || entryVals[phi] == nil {
			continue
		}
		nv := &Val{T: c.freshConst(sanitize(f.prefix)+"."+phi.Name()+"@loop", c.sortOf(phi.Type())), Typ: phi.Type(), ConstLen: -1}
		li.phiVal[phi] = nv
		e.assumeTypeInv(cur, nv.T, phi.Type(), guard)
	}
	if li.mapRange != nil {
		rs := f.rangeSt[li.mapRange]
		if rs != nil && rs.isMap {
			rs.visited = c.freshConst("visited@loop", fmt.Sprintf("(Array %s Bool)", rs.keySort))
			// visited keys are keys of the map
		}
	}

	// 3. assume the invariants for the havocked state
	for _, cl := range invs {
		env := f.loopEnv(li, cur)
		g, err := env.evalBool(cl.E)
		if err != nil {
			continue
		}
		c.assertTagged(implies(guard, g), f.invTag(li, cl))
	}
	if li.rangeIdx != nil && li.rangeLen != nil {
		x := li.phiVal[li.rangeIdx].T
		ln := f.val(li.rangeLen).T
		c.assert(implies(guard, and("(bvsle #xffffffffffffffff "+x+")", or("(bvslt "+x+" "+ln+")", eq(x, "#xffffffffffffffff")))))
	}
	for _, phi := range autoFresh {
		r := refOf(li.phiVal[phi].T, phi.Type())
		c.assert(implies(guard, or(eq(r, "nil"), not(sel("alloc!0", r)))))
		if e.memoUsed {
			c.assert(implies(guard, or(eq(r, "nil"), not(c.memoBorn(r)))))
		}
	}
	if bt, ok := f.idxBoundTerm(li); ok {
		c.assert(implies(guard, idxInv(li.phiVal[li.idxPhi].T, bt)))
	}
	li.headSt = cur.clone()
}

func (f *Frame) posOfBlock(b *ssa.BasicBlock) string {
	for _, ins := range b.Instrs {
		if p := f.posOf(ins); p != "" {
			return p
		}
	}
	return ""
}

func clauseLabel(cl *Clause) string {
	if cl.Label != "" {
		return cl.Label
	}
	return shortHash(cl.Text)
}

func (f *Frame) backEdge(li *loopInfo, from *ssa.BasicBlock, cur *State) {
	e := f.enc
	h := li.header
	invs := f.loopInvariants(li)
	guard := f.edgeCond(from, h)
	saved := li.phiVal
	back := map[*ssa.Phi]*Val{}
	pi := -1
	for i, p := range h.Preds {
		if p == from {
			pi = i
		}
	}
	for phi := range saved {
		back[phi] = f.val(phi.Edges[pi])
	}
	li.phiVal = back
	for _, cl := range invs {
		env := f.loopEnv(li, cur)
		g, err := env.evalBool(cl.E)
		if err != nil {
			e.errorf("%s: loop %d invariant %q at back edge: %v", f.prefix, li.ordinal, cl.Text, err)
			continue
		}
		e.addObl(&Obligation{Name: fmt.Sprintf("%s#inv[loop %d].preserve[%s]", f.prefix, li.ordinal, clauseLabel(cl)), Kind: "inv.preserve", Func: f.prefix,
			Label: clauseLabel(cl), Text: cl.Text, Guard: guard, Goal: g, Pos: f.posOfBlock(h), SkipTags: f.skipTagsFor(cl, clauseLabel(cl))})
	}
	if li.rangeIdx != nil && li.rangeLen != nil {
		x := back[li.rangeIdx].T
		ln := f.val(li.rangeLen).T
		e.addObl(&Obligation{Name: fmt.Sprintf("%s#inv[loop %d].preserve[auto.range]", f.prefix, li.ordinal), Kind: "inv.preserve", Func: f.prefix,
			Label: "auto.range", Text: "-1 <= rangeindex < len", Guard: guard, Goal: and("(bvsle #xffffffffffffffff "+x+")", "(bvslt "+x+" "+ln+")"), Pos: f.posOfBlock(h)})
	}
	if bt, ok := f.idxBoundTerm(li); ok {
		e.addObl(&Obligation{Name: fmt.Sprintf("%s#inv[loop %d].preserve[auto.index]", f.prefix, li.ordinal), Kind: "inv.preserve", Func: f.prefix,
			Label: "auto.index", Text: "0 <= i <= bound", Guard: guard, Goal: idxInv(back[li.idxPhi].T, bt), Pos: f.posOfBlock(h)})
	}
	for _, phi := range li.autoFresh {
		r := refOf(back[phi].T, phi.Type())
		e.addObl(&Obligation{Name: fmt.Sprintf("%s#inv[loop %d].preserve[auto.fresh %s]", f.prefix, li.ordinal, phi.Comment), Kind: "inv.preserve", Func: f.prefix,
			Label: "auto.fresh", Text: phi.Comment + " is nil or was allocated by this call", Guard: guard, Goal: or(eq(r, "nil"), not(sel("alloc!0", r))), Pos: f.posOfBlock(h)})
		if e.memoUsed {
			e.addObl(&Obligation{Name: fmt.Sprintf("%s#inv[loop %d].preserve[auto.unshared %s]", f.prefix, li.ordinal, phi.Comment), Kind: "inv.preserve", Func: f.prefix,
				Label: "auto.unshared", Text: phi.Comment + " is not storage returned by a pure function", Guard: guard, Goal: or(eq(r, "nil"), not(e.ctx.memoBorn(r))), Pos: f.posOfBlock(h)})
		}
	}
	// decreases
	fc, bidx := f.loopBinding(li)
	if fc != nil {
		for _, d := range fc.Decs {
			if d.Loop != bidx {
				continue
			}
			li.phiVal = saved
			envH := f.loopEnv(li, li.headSt)
			vh, err1 := envH.eval(d.E)
			li.phiVal = back
			envB := f.loopEnv(li, cur)
			vb, err2 := envB.eval(d.E)
			if err1 != nil || err2 != nil {
				e.errorf("%s: loop %d decreases: %v %v", f.prefix, li.ordinal, err1, err2)
				continue
			}
			e.addObl(&Obligation{Name: fmt.Sprintf("%s#decreases[loop %d]", f.prefix, li.ordinal), Kind: "decreases", Func: f.prefix,
				Text: d.Text, Guard: guard, Goal: and("(bvsle #x0000000000000000 "+vh.T+")", "(bvslt "+vb.T+" "+vh.T+")"), Pos: f.posOfBlock(h)})
		}
	}
	li.phiVal = saved
}

// loopModSet over-approximates the heap arrays written inside a loop.
func (f *Frame) loopModSet(li *loopInfo) *modSet {
	ms := &modSet{heaps: map[string]string{}, nonLocal: map[string]bool{}, body: li.body, topFn: f.fn}
	seen := map[*ssa.Function]bool{}
	for _, b := range f.fn.Blocks { // block order, not map order: heap and type numbering follow first use
		if !li.body[b] {
			continue
		}
		for _, ins := range b.Instrs {
			f.scanMods(ins, ms, seen, f.depth)
		}
	}
	return ms
}

func rootOfAddr(v ssa.Value) ssa.Value {
	for {
		switch x := v.(type) {
		case *ssa.FieldAddr:
			v = x.X
		case *ssa.IndexAddr:
			return x
		default:
			return v
		}
	}
}

func (f *Frame) scanMods(ins ssa.Instruction, ms *modSet, seen map[*ssa.Function]bool, depth int) {
	e := f.enc
	c := e.ctx
	switch x := ins.(type) {
	case *ssa.Store:
		root := rootOfAddr(x.Addr)
		if ia, ok := root.(*ssa.IndexAddr); ok {
			var et types.Type
			switch t := ia.X.Type().Underlying().(type) {
			case *types.Slice:
				et = t.Elem()
			case *types.Pointer:
				et = t.Elem().Underlying().(*types.Array).Elem()
			}
			n, s := c.elemHeap(et)
			ms.addAt(n, s, ia.X)
			return
		}
		pt, ok := root.Type().Underlying().(*types.Pointer)
		if !ok {
			ms.all = true
			return
		}
		if arr, ok := pt.Elem().Underlying().(*types.Array); ok {
			n, s := c.elemHeap(arr.Elem())
			ms.addAt(n, s, root)
			return
		}
		n, s := c.cellHeap(pt.Elem())
		ms.addAt(n, s, root)
	case *ssa.MapUpdate:
		hn, hs, vn, vs := c.mapHeaps(x.Map.Type())
		ms.addAt(hn, hs, x.Map)
		ms.addAt(vn, vs, x.Map)
	case *ssa.Alloc, *ssa.MakeMap, *ssa.MakeSlice:
		// allocation writes the zero value into the (fresh) cell
		switch y := x.(type) {
		case *ssa.Alloc:
			elem := y.Type().Underlying().(*types.Pointer).Elem()
			if arr, ok := elem.Underlying().(*types.Array); ok {
				n, s := c.elemHeap(arr.Elem())
				ms.heaps[n] = s
			} else {
				n, s := c.cellHeap(elem)
				ms.heaps[n] = s
			}
		case *ssa.MakeMap:
			hn, hs, vn, vs := c.mapHeaps(y.Type())
			ms.heaps[hn] = hs
			ms.heaps[vn] = vs
		case *ssa.MakeSlice:
			n, s := c.elemHeap(y.Type().Underlying().(*types.Slice).Elem())
			ms.heaps[n] = s
		}
		ms.heaps["alloc"] = "(Array Ref Bool)"
	case *ssa.Convert:
		if isByteSlice(x.Type()) && isString(x.X.Type()) {
			ms.heaps["alloc"] = "(Array Ref Bool)"
		}
	case ssa.CallInstruction:
		f.scanCallMods(x.Common(), ms, seen, depth)
	}
}

func (f *Frame) scanCallMods(cc *ssa.CallCommon, ms *modSet, seen map[*ssa.Function]bool, depth int) {
	e := f.enc
	c := e.ctx
	ms.heaps["alloc"] = "(Array Ref Bool)"
	if b, ok := cc.Value.(*ssa.Builtin); ok {
		switch b.Name() {
		case "append":
			et := cc.Args[0].Type().Underlying().(*types.Slice).Elem()
			n, s := c.elemHeap(et)
			ms.addAt(n, s, cc.Args[0])
		case "copy":
			et := cc.Args[0].Type().Underlying().(*types.Slice).Elem()
			n, s := c.elemHeap(et)
			ms.add(n, s)
		case "delete":
			hn, hs, vn, vs := c.mapHeaps(cc.Args[0].Type())
			ms.add(hn, hs)
			ms.add(vn, vs)
		}
		return
	}
	var fc *FuncContract
	var fn *ssa.Function
	if cc.IsInvoke() {
		fc = e.prog.ifaceContract(cc.Value.Type(), cc.Method.Name())
		if fc == nil {
			ms.all = true
			return
		}
	} else {
		fn = cc.StaticCallee()
		if fn == nil {
			// closure value defined in this function?
			if mc, ok := cc.Value.(*ssa.MakeClosure); ok {
				fn = mc.Fn.(*ssa.Function)
			} else if n, ok := cc.Value.Type().(*types.Named); ok && n.Obj().Pkg() != nil && e.prog.Contracts[funcKey(n.Obj().Pkg().Path(), n.Obj().Name(), "call")] != nil {
				fc = e.prog.Contracts[funcKey(n.Obj().Pkg().Path(), n.Obj().Name(), "call")]
			} else {
				ms.all = true
				return
			}
		}
		if fn != nil {
			fc = e.prog.contractFor(fn)
		}
	}
	if fc != nil && !fc.inlineOnly() {
		if fc.Pure {
			if fc.freshResults() != nil {
				// memoising call: the ghost sets grow (by objects that did not exist before the loop)
				mk := memoKeyOf(fc)
				ms.heaps["ponce$"+mk] = "(Array Ref Bool)"
				ms.heaps["pshared"] = "(Array Ref Bool)"
				ms.heaps["pbt$"+mk] = "(Array Ref " + sortTok + ")"
				for j, a := range cc.Args {
					ms.heaps[fmt.Sprintf("pba$%s$%d", mk, j)] = "(Array Ref " + c.sortOf(a.Type()) + ")"
				}
			}
			return
		}
		if fc.NoFrame || !f.enc.modGiven(fc) {
			ms.all = true
			return
		}
		if fc.ModGhost {
			ms.tok = true
		}
		for _, m := range fc.Modifies {
			hs, err := f.modifiesHeaps(m, fc, fn, cc)
			if err != nil {
				ms.all = true
				return
			}
			for n, s := range hs {
				ms.add(n, s)
			}
		}
		return
	}
	if fn != nil && jsonUnmarshalKeys[keyOfFunction(fn)] {
		// decoding into an object created inside the loop writes that object and what the decoder
		// allocates -- nothing that existed before the loop
		if len(cc.Args) == 2 && ms.nonLocal != nil {
			tgt := cc.Args[1]
			if mi, ok := tgt.(*ssa.MakeInterface); ok {
				tgt = mi.X
			}
			if ms.localRooted(tgt, map[ssa.Value]bool{}) {
				if _, isConst := tgt.(*ssa.Const); !isConst {
					ms.localAll = true
					ms.tok = true
					return
				}
			}
		}
		ms.all = true
		return
	}
	if fn != nil && e.isPurePkg(fn) {
		return
	}
	if fn != nil && len(fn.Blocks) > 0 && (isRepoPkg(pkgPathOf(fn)) || fn.Parent() != nil) && depth < e.inlineDepthMax+2 && !e.sweep {
		if seen[fn] {
			return
		}
		seen[fn] = true
		for _, b := range fn.Blocks {
			for _, ins := range b.Instrs {
				f.scanMods(ins, ms, seen, depth+1)
			}
		}
		return
	}
	ms.all = true
}

func pkgPathOf(fn *ssa.Function) string {
	if fn.Pkg != nil {
		return fn.Pkg.Pkg.Path()
	}
	if fn.Parent() != nil {
		return pkgPathOf(fn.Parent())
	}
	if fn.Object() != nil && fn.Object().Pkg() != nil {
		return fn.Object().Pkg().Path()
	}
	return ""
}

// modifiesHeaps maps a modifies expression (mapcontent(x), deref(p), elems(s))
// to the heap arrays it covers, from the static type of the named parameter.
func (f *Frame) modifiesHeaps(m *Expr, fc *FuncContract, fn *ssa.Function, cc *ssa.CallCommon) (map[string]string, error) {
	c := f.enc.ctx
	if m.Op != "call" || m.Args[0].Op != "id" || len(m.Args) != 2 {
		return nil, fmt.Errorf("unsupported modifies form %s", m)
	}
	if m.Args[0].Name == "global" {
		g := f.enc.globalNamed(fc.PkgPath, m.Args[1])
		if g == nil {
			return nil, fmt.Errorf("modifies global(%s): no such package-level variable", m.Args[1])
		}
		n, s := c.cellHeap(g.Type().Underlying().(*types.Pointer).Elem())
		return map[string]string{n: s}, nil
	}
	t, err := f.enc.staticTypeOfParamExpr(m.Args[1], fc, fn, cc)
	if err != nil {
		return nil, err
	}
	out := map[string]string{}
	switch m.Args[0].Name {
	case "mapcontent":
		if _, ok := t.Underlying().(*types.Map); !ok {
			return nil, fmt.Errorf("mapcontent of non-map")
		}
		hn, hs, vn, vs := c.mapHeaps(t)
		out[hn], out[vn] = hs, vs
	case "deref":
		pt, ok := t.Underlying().(*types.Pointer)
		if !ok {
			return nil, fmt.Errorf("deref of non-pointer")
		}
		n, s := c.cellHeap(pt.Elem())
		out[n] = s
	case "elems":
		sl, ok := t.Underlying().(*types.Slice)
		if !ok {
			return nil, fmt.Errorf("elems of non-slice")
		}
		n, s := c.elemHeap(sl.Elem())
		out[n] = s
	default:
		return nil, fmt.Errorf("unsupported modifies form %s", m)
	}
	return out, nil
}

// staticTypeOfParamExpr types `param` or `param.field...` against the callee signature.
func (e *Enc) staticTypeOfParamExpr(x *Expr, fc *FuncContract, fn *ssa.Function, cc *ssa.CallCommon) (types.Type, error) {
	switch x.Op {
	case "id":
		var sig *types.Signature
		if fn != nil {
			sig = fn.Signature
		} else if cc != nil {
			sig = cc.Signature()
		}
		if sig == nil {
			return nil, fmt.Errorf("no signature")
		}
		names := fc.Params
		for i := 0; i < sig.Params().Len(); i++ {
			n := sig.Params().At(i).Name()
			if i < len(names) {
				n = names[i]
			}
			if n == x.Name {
				return sig.Params().At(i).Type(), nil
			}
		}
		if sig.Recv() != nil && (fc.RecvName == x.Name || sig.Recv().Name() == x.Name) {
			return sig.Recv().Type(), nil
		}
		if fn != nil {
			for _, fv := range fn.FreeVars {
				if fv.Name() == x.Name {
					return fv.Type(), nil
				}
			}
		}
		return nil, fmt.Errorf("unknown parameter %s", x.Name)
	case "sel":
		bt, err := e.staticTypeOfParamExpr(x.Args[0], fc, fn, cc)
		if err != nil {
			return nil, err
		}
		obj, _, _ := types.LookupFieldOrMethod(bt, true, nil, x.Name)
		if v, ok := obj.(*types.Var); ok {
			return v.Type(), nil
		}
		// unexported field: search manually
		if st, ok := derefType(bt).Underlying().(*types.Struct); ok {
			for i := 0; i < st.NumFields(); i++ {
				if st.Field(i).Name() == x.Name {
					return st.Field(i).Type(), nil
				}
			}
		}
		return nil, fmt.Errorf("unknown field %s", x.Name)
	}
	return nil, fmt.Errorf("unsupported expression in modifies")
}

func derefType(t types.Type) types.Type {
	if p, ok := t.Underlying().(*types.Pointer); ok {
		return p.Elem()
	}
	return t
}

func (fc *FuncContract) inlineOnly() bool {
	return fc != nil && !fc.Pure && fc.Trusted == "" && !fc.ModGiven && len(fc.Ensures) == 0 && len(fc.Requires) == 0 && !fc.IsLemma
}

// ---------------------------------------------------------------------------
// writes, escapes, frame obligations

// rootAlloc returns the allocation a pointer value is derived from, if the
// derivation is purely syntactic (field / element addresses, slices of it).
func rootAlloc(v ssa.Value) ssa.Value {
	return rootAllocRec(v, map[ssa.Value]bool{})
}

func rootAllocRec(v ssa.Value, seen map[ssa.Value]bool) ssa.Value {
	for {
		if seen[v] {
			return nil
		}
		seen[v] = true
		switch x := v.(type) {
		case *ssa.FieldAddr:
			v = x.X
		case *ssa.IndexAddr:
			v = x.X
		case *ssa.Slice:
			v = x.X
		case *ssa.ChangeType:
			v = x.X
		case *ssa.Alloc, *ssa.MakeSlice, *ssa.MakeMap:
			return x
		case *ssa.Extract:
			if c, ok := x.Tuple.(*ssa.Call); ok && freshCalls[c] != nil && freshCalls[c][x.Index] {
				return x
			}
			return nil
		case *ssa.Call:
			if b, ok := x.Call.Value.(*ssa.Builtin); ok && b.Name() == "append" {
				// the result is the first argument's array, or a new one
				v = x.Call.Args[0]
				continue
			}
			if freshCalls[x] != nil && freshCalls[x][0] {
				return x
			}
			return nil
		case *ssa.Phi:
			// a phi of fresh results (or nil) is itself a fresh root
			for _, e := range x.Edges {
				if c, isC := e.(*ssa.Const); isC && c.Value == nil {
					continue
				}
				r := rootAllocRec(e, seen)
				if r == nil || r == ssa.Value(x) {
					return nil
				}
				if _, isAlloc := r.(*ssa.Alloc); isAlloc {
					return nil
				}
			}
			return x
		default:
			return nil
		}
	}
}

// freshCalls records, per call instruction, which results the callee's
// contract promises to be freshly allocated.
var freshCalls = map[*ssa.Call]map[int]bool{}

func (f *Frame) markEscape(v ssa.Value) {
	if r := rootAlloc(v); r != nil {
		if _, done := f.escaped[r]; !done {
			f.escaped[r] = f.curInstr
		}
		if phi, ok := r.(*ssa.Phi); ok {
			for _, e := range phi.Edges {
				f.markEscape(e)
			}
		}
	}
}

func (f *Frame) hasEscaped(r ssa.Value) bool {
	_, done := f.escaped[r]
	return done
}

// noteWrite is called for every store through an address.
func (f *Frame) noteWrite(st *State, a *Addr, ins ssa.Instruction) {
	var target ssa.Value
	switch x := ins.(type) {
	case *ssa.Store:
		target = x.Addr
		// storing a pointer-like value makes it escape
		f.markEscape(x.Val)
	}
	fresh := false
	if target != nil {
		if r := rootAlloc(target); r != nil && !f.hasEscaped(r) && valueParent(r) == f.fn {
			fresh = true
		}
	}
	if !fresh {
		f.enc.bumpTok(st)
	}
	f.frameObl(a.Base, instrSrc(f.enc.prog, ins), ins, f.enc.ctx.addrHeap(a))
	f.ownObl(a.Base, instrSrc(f.enc.prog, ins), ins, false)
}

func (f *Frame) noteMapWrite(st *State, m *Val, ins ssa.Instruction) {
	var target ssa.Value
	if x, ok := ins.(*ssa.MapUpdate); ok {
		target = x.Map
		f.markEscape(x.Value)
	}
	fresh := false
	if target != nil {
		if r := rootAlloc(target); r != nil && !f.hasEscaped(r) && valueParent(r) == f.fn {
			fresh = true
		}
	}
	if !fresh {
		f.enc.bumpTok(st)
	}
	f.frameObl(m.T, instrSrc(f.enc.prog, ins), ins, f.enc.ctx.refHeap(m.Typ))
	f.ownObl(m.T, instrSrc(f.enc.prog, ins), ins, true)
}

// frameObl: a write target must be fresh in the verified call, or be listed
// in the function's modifies clause.
func (f *Frame) frameObl(base, what string, ins ssa.Instruction, heap ...string) {
	e := f.enc
	framed := e.frameOn && e.topFC != nil && e.modGiven(e.topFC) && !e.topFC.NoFrame
	// the objects the verified function may write according to its modifies clause (they existed at entry)
	var allowed []string
	if framed || (e.memoUsed && e.topFC != nil) {
		top := e.topFrame
		for _, m := range e.topFC.Modifies {
			if m.Op == "call" && len(m.Args) == 2 && m.Args[0].Op == "id" && m.Args[0].Name == "global" {
				if g := e.globalNamed(e.topFC.PkgPath, m.Args[1]); g != nil {
					allowed = append(allowed, eq(base, top.val(g).T))
				}
				continue
			}
			if m.Op == "call" && len(m.Args) == 2 {
				env := top.funcEnv(top.entrySt, top.entrySt)
				v, err := env.eval(m.Args[1])
				if err == nil {
					switch m.Args[0].Name {
					case "mapcontent", "deref":
						allowed = append(allowed, eq(base, v.T))
					case "elems":
						allowed = append(allowed, eq(base, "(s.arr "+v.T+")"))
					}
				}
			}
		}
	}
	if e.memoUsed && f.curSt != nil {
		// storage a memoising call has handed out twice stands for two objects: never written.
		// Not such storage: what existed at entry (the modifies targets), what an ordinary
		// allocation made, and objects of another kind (kept in another heap).
		goal := or(not(e.ctx.memoBorn(base)), not(sel(e.memoHeap(f.curSt, "pshared"), base)))
		if len(heap) == 1 {
			goal = or(goal, not(eq("(rtag "+base+")", e.ctx.rtagID(heap[0]))))
		}
		goal = or(append([]string{goal}, allowed...)...)
		e.addObl(&Obligation{Name: fmt.Sprintf("%s#memo[%s]", e.unit, frameSite(f, what)), Kind: "frame", Func: f.prefix, Label: what,
			Text: "write target is not storage that a pure function returned more than once: " + what,
			Guard: f.guard(), Goal: goal, Pos: f.posOf(ins)})
	}
	if !framed {
		return
	}
	e.heapInit("alloc", "(Array Ref Bool)", 0)
	goal := or(append([]string{not(sel("alloc!0", base))}, allowed...)...)
	e.addObl(&Obligation{Name: fmt.Sprintf("%s#frame[%s]", e.unit, frameSite(f, what)), Kind: "frame", Func: f.prefix, Label: what, Text: "write target is fresh or in modifies: " + what,
		Guard: f.guard(), Goal: goal, Pos: f.posOf(ins)})
}

func frameSite(f *Frame, what string) string {
	if f.parent == nil {
		return what
	}
	// inlined callee: name by callee function
	return shortFunc(f.fn) + ":" + what
}

func shortFunc(fn *ssa.Function) string {
	k := keyOfFunction(fn)
	return strings.TrimPrefix(k, repoModule+"/pkg/")
}

func (f *Frame) noteRead(st *State, a *Addr, ins ssa.Instruction) {
	f.lockReadObl(a, ins)
}
func (f *Frame) noteMapRead(st *State, m *Val, ins ssa.Instruction) {
	f.lockMapObl(m, ins, false)
}
func (f *Frame) noteGlobalRead(g *ssa.Global, ins ssa.Instruction) {}

func valueParent(v ssa.Value) *ssa.Function {
	if ins, ok := v.(ssa.Instruction); ok {
		return ins.Parent()
	}
	return v.Parent()
}

func (f *Frame) invTag(li *loopInfo, cl *Clause) string {
	fc, idx := f.loopBinding(li)
	return invTagOf(fc, idx, cl)
}

func invTagOf(fc *FuncContract, idx int, cl *Clause) string {
	if fc == nil {
		return "inv:?"
	}
	return fmt.Sprintf("inv:%s:%d:%d:%s", fc.Name, fc.Line, idx, clauseLabel(cl))
}

// skipTagsFor: the loop invariants of this function a clause with `uses [...]` does not assume
// (all loops; the clause's own label is always kept).
func (f *Frame) skipTagsFor(cl *Clause, self string) map[string]bool {
	if cl == nil || cl.Using == nil {
		return nil
	}
	fc := f.contract
	if fc == nil {
		fc = f.enc.prog.contractFor(f.fn)
	}
	if fc == nil && f.parent != nil {
		fc = f.enc.topFC // clauses borrowed from the verified function (see loopBinding)
	}
	if fc == nil {
		return nil
	}
	keep := map[string]bool{self: true}
	for _, l := range cl.Using {
		keep[l] = true
	}
	skip := map[string]bool{}
	for _, inv := range fc.Invs {
		if l := clauseLabel(inv); !keep[l] {
			skip[invTagOf(fc, inv.Loop, inv)] = true
		}
	}
	return skip
}

// idxBoundTerm: the bound of a recognised index loop as a term (nil when the loop is not one).
func (f *Frame) idxBoundTerm(li *loopInfo) (string, bool) {
	if li.idxPhi == nil {
		return "", false
	}
	if w, _, ok := intInfo(li.idxPhi.Type()); !ok || w != 64 {
		return "", false
	}
	if li.idxLenOf != nil {
		v := f.val(li.idxLenOf)
		switch v.Typ.Underlying().(type) {
		case *types.Slice:
			return "(s.len " + v.T + ")", true
		case *types.Basic:
			if isString(v.Typ) {
				return "(slen " + v.T + ")", true
			}
		}
		return "", false
	}
	if li.idxBound != nil {
		v := f.val(li.idxBound)
		if w, _, ok := intInfo(v.Typ); ok && w == 64 {
			return v.T, true
		}
		return "", false
	}
	return "", true // no loop-invariant bound: lower bound only
}

func idxInv(i, bound string) string {
	if bound == "" {
		return "(bvsle #x0000000000000000 " + i + ")"
	}
	return and("(bvsle #x0000000000000000 "+i+")", or("(bvsle "+i+" "+bound+")", "(bvslt "+bound+" #x0000000000000000)"))
}
