package main

// Rename tolerance for the local-variable names that contracts mention (loop invariants, lets).
//
// A contract refers to a local variable of the function by its source name. Renaming a local is a
// harmless edit, but it would leave the contract unable to bind. `govc bindings` records, on the tree
// the contracts were written for, what each such name denotes: the type of the variable and its
// position among the function's local variables of that type (in source order). When a name no longer
// exists in the function, the variable with the recorded type and position is used instead. This only
// chooses which variable an invariant talks about: every invariant is still proved (on entry and
// preserved), so a wrong choice cannot make a check pass that should fail - it can only make it fail.

import (
	"encoding/json"
	"fmt"
	"go/types"
	"os"
	"path/filepath"
	"sort"

	"golang.org/x/tools/go/ssa"
)

type localBinding struct {
	Type    string `json:"type"`
	Ordinal int    `json:"ordinal"` // index among the function's locals of this type, in source order
}

// localObjects lists the local variables (not parameters) of fn that debug references mention, in
// source order.
func localObjects(fn *ssa.Function) []*types.Var {
	seen := map[*types.Var]bool{}
	params := map[types.Object]bool{}
	for _, p := range fn.Params {
		if p.Object() != nil {
			params[p.Object()] = true
		}
	}
	var out []*types.Var
	for _, b := range fn.Blocks {
		for _, ins := range b.Instrs {
			d, ok := ins.(*ssa.DebugRef)
			if !ok {
				continue
			}
			v, ok := d.Object().(*types.Var)
			if !ok || v == nil || seen[v] || params[v] || v.IsField() {
				continue
			}
			seen[v] = true
			out = append(out, v)
		}
	}
	sort.Slice(out, func(i, j int) bool { return out[i].Pos() < out[j].Pos() })
	return out
}

func bindingOf(fn *ssa.Function, name string) *localBinding {
	objs := localObjects(fn)
	for _, v := range objs {
		if v.Name() != name {
			continue
		}
		ts := types.TypeString(v.Type(), nil)
		ord := 0
		for _, w := range objs {
			if w == v {
				break
			}
			if types.TypeString(w.Type(), nil) == ts {
				ord++
			}
		}
		return &localBinding{Type: ts, Ordinal: ord}
	}
	return nil
}

// renamedLocal: the current name of the variable that `name` denoted when the bindings were recorded.
func (p *Program) renamedLocal(fn *ssa.Function, name string) string {
	b := p.Bindings[keyOfFunction(fn)][name]
	if b == nil {
		return ""
	}
	objs := localObjects(fn)
	for _, v := range objs {
		if v.Name() == name {
			return "" // the name still exists: nothing to do
		}
	}
	ord := 0
	for _, v := range objs {
		if types.TypeString(v.Type(), nil) != b.Type {
			continue
		}
		if ord == b.Ordinal {
			return v.Name()
		}
		ord++
	}
	return ""
}

func loadBindings(verif string) map[string]map[string]*localBinding {
	out := map[string]map[string]*localBinding{}
	data, err := os.ReadFile(filepath.Join(verif, "contracts", "bindings.json"))
	if err != nil {
		return out
	}
	_ = json.Unmarshal(data, &out)
	return out
}

// writeBindings records the binding of every identifier that occurs in the loop clauses, lets and
// postconditions of a contract and names a local variable of the function.
func (p *Program) writeBindings(verif string) error {
	out := map[string]map[string]*localBinding{}
	for key, fc := range p.Contracts {
		fn := p.findFunc(key)
		if fn == nil || len(fn.Blocks) == 0 {
			continue
		}
		names := map[string]bool{}
		var walk func(e *Expr)
		walk = func(e *Expr) {
			if e == nil {
				return
			}
			if e.Op == "id" {
				names[e.Name] = true
			}
			for _, a := range e.Args {
				walk(a)
			}
		}
		for _, c := range fc.Invs {
			walk(c.E)
		}
		for _, c := range fc.Decs {
			walk(c.E)
		}
		for _, c := range fc.Ensures {
			walk(c.E)
		}
		for _, l := range fc.Lets {
			walk(l.E)
		}
		for n := range names {
			if b := bindingOf(fn, n); b != nil {
				if out[key] == nil {
					out[key] = map[string]*localBinding{}
				}
				out[key][n] = b
			}
		}
	}
	data, _ := json.MarshalIndent(out, "", " ")
	n := 0
	for _, m := range out {
		n += len(m)
	}
	fmt.Printf("bindings: %d names in %d functions\n", n, len(out))
	return os.WriteFile(filepath.Join(verif, "contracts", "bindings.json"), append(data, '\n'), 0o644)
}
