package main

// Rename tolerance for the local-variable names that contracts mention (loop invariants, lets).
//
// A contract refers to a local variable of the function by its source name. Renaming a local is a
// harmless edit, but it would leave the contract unable to bind. `govc bindings` records, on the tree
// the contracts were written for, what each such name denotes: the type of the variable and its
// position among the function's local variables of that type (in source order). When a name no longer
// exists in the function, the variable with the recorded type and position is used instead. This only
// chooses which variable an invariant talks about: every invariant is still proved (on entry and
// preserved), so a wrong choice cannot make a check pass that should fail - it can only make it fail.

import (
	"encoding/json"
	"fmt"
	"go/ast"
	"go/types"
	"os"
	"path/filepath"
	"sort"
	"strings"

	"golang.org/x/tools/go/ssa"
)

type localBinding struct {
	Type    string `json:"type"`
	Ordinal int    `json:"ordinal"` // index among the function's locals of this type, in source order
}

// localObjects lists the local variables (not parameters) of fn that debug references mention, in
// source order.
func localObjects(fn *ssa.Function) []*types.Var {
	seen := map[*types.Var]bool{}
	params := map[types.Object]bool{}
	for _, p := range fn.Params {
		if p.Object() != nil {
			params[p.Object()] = true
		}
	}
	var out []*types.Var
	for _, b := range fn.Blocks {
		for _, ins := range b.Instrs {
			d, ok := ins.(*ssa.DebugRef)
			if !ok {
				continue
			}
			v, ok := d.Object().(*types.Var)
			if !ok || v == nil || seen[v] || params[v] || v.IsField() {
				continue
			}
			seen[v] = true
			out = append(out, v)
		}
	}
	sort.Slice(out, func(i, j int) bool { return out[i].Pos() < out[j].Pos() })
	return out
}

func bindingOf(fn *ssa.Function, name string) *localBinding {
	objs := localObjects(fn)
	for _, v := range objs {
		if v.Name() != name {
			continue
		}
		ts := types.TypeString(v.Type(), nil)
		ord := 0
		for _, w := range objs {
			if w == v {
				break
			}
			if types.TypeString(w.Type(), nil) == ts {
				ord++
			}
		}
		return &localBinding{Type: ts, Ordinal: ord}
	}
	return nil
}

// renamedLocal: the current name of the variable that `name` denoted when the bindings were recorded.
func (p *Program) renamedLocal(fn *ssa.Function, name string) string {
	b := p.Bindings[keyOfFunction(fn)][name]
	if b == nil {
		return ""
	}
	objs := localObjects(fn)
	for _, v := range objs {
		if v.Name() == name {
			return "" // the name still exists: nothing to do
		}
	}
	ord := 0
	for _, v := range objs {
		if types.TypeString(v.Type(), nil) != b.Type {
			continue
		}
		if ord == b.Ordinal {
			return v.Name()
		}
		ord++
	}
	return ""
}

func loadBindings(verif string) map[string]map[string]*localBinding {
	out := map[string]map[string]*localBinding{}
	data, err := os.ReadFile(filepath.Join(verif, "contracts", "bindings.json"))
	if err != nil {
		return out
	}
	_ = json.Unmarshal(data, &out)
	return out
}

// writeBindings records the binding of every identifier that occurs in the loop clauses, lets and
// postconditions of a contract and names a local variable of the function.
func (p *Program) writeBindings(verif string) error {
	out := map[string]map[string]*localBinding{}
	for key, fc := range p.Contracts {
		fn := p.findFunc(key)
		if fn == nil || len(fn.Blocks) == 0 {
			continue
		}
		names := map[string]bool{}
		var walk func(e *Expr)
		walk = func(e *Expr) {
			if e == nil {
				return
			}
			if e.Op == "id" {
				names[e.Name] = true
			}
			for _, a := range e.Args {
				walk(a)
			}
		}
		for _, c := range fc.Invs {
			walk(c.E)
		}
		for _, c := range fc.Decs {
			walk(c.E)
		}
		for _, c := range fc.Ensures {
			walk(c.E)
		}
		for _, l := range fc.Lets {
			walk(l.E)
		}
		if isRepoPkg(pkgPathOf(fn)) && fn.Parent() == nil {
			out[key] = map[string]*localBinding{"$sig": {Type: sigTypes(fn)}}
		}
		if isRepoPkg(pkgPathOf(fn)) && fn.Parent() != nil {
			if v := closureVar(fn); v != "" {
				out[key] = map[string]*localBinding{"$sig": {Type: sigTypes(fn)}, "$var": {Type: v}}
			}
		}
		for n := range names {
			if b := bindingOf(fn, n); b != nil {
				if out[key] == nil {
					out[key] = map[string]*localBinding{}
				}
				out[key][n] = b
			}
		}
	}
	data, _ := json.MarshalIndent(out, "", " ")
	n := 0
	for _, m := range out {
		n += len(m)
	}
	fmt.Printf("bindings: %d names in %d functions\n", n, len(out))
	return os.WriteFile(filepath.Join(verif, "contracts", "bindings.json"), append(data, '\n'), 0o644)
}

// sigTypes: receiver, parameter and result types of fn (no names).
func sigTypes(fn *ssa.Function) string {
	sig := fn.Signature
	q := func(p *types.Package) string { return p.Path() }
	str := ""
	if sig.Recv() != nil {
		str += "(" + types.TypeString(sig.Recv().Type(), q) + ") "
	}
	str += "("
	for i := 0; i < sig.Params().Len(); i++ {
		if i > 0 {
			str += ", "
		}
		str += types.TypeString(sig.Params().At(i).Type(), q)
	}
	if sig.Variadic() {
		str += "..."
	}
	str += ") ("
	for i := 0; i < sig.Results().Len(); i++ {
		if i > 0 {
			str += ", "
		}
		str += types.TypeString(sig.Results().At(i).Type(), q)
	}
	return str + ")"
}

// rebindRenamed: a contract whose function is gone is bound to the one function of the same package
// that has the recorded signature and no contract of its own (a renamed helper). Like the binding
// of renamed locals this only chooses what the contract talks about; everything is still proved.
func (p *Program) rebindRenamed() {
	p.rebindClosures()
	for key, fc := range p.Contracts {
		if p.fnByKey[key] != nil || fc.IsLemma || p.Bindings[key] == nil || p.Bindings[key]["$sig"] == nil || p.Bindings[key]["$var"] != nil {
			continue
		}
		want := p.Bindings[key]["$sig"].Type
		var cands []*ssa.Function
		for k2, fn := range p.fnByKey {
			if fn.Parent() != nil || fn.Synthetic != "" || len(fn.Blocks) == 0 || pkgPathOf(fn) != fc.PkgPath || p.Contracts[k2] != nil {
				continue
			}
			if sigTypes(fn) == want {
				cands = append(cands, fn)
			}
		}
		if len(cands) != 1 {
			continue
		}
		fn := cands[0]
		p.fnByKey[key] = fn
		p.Contracts[keyOfFunction(fn)] = fc
		p.Renamed = append(p.Renamed, fmt.Sprintf("%s is now %s", shortKey(key), fn.Name()))
	}
	sort.Strings(p.Renamed)
}

// closureVar: the variable a function literal is assigned to (`name := func...`, `name = func...`,
// `var name = func...`), or "".
func closureVar(fn *ssa.Function) string {
	lit, ok := fn.Syntax().(*ast.FuncLit)
	if !ok || fn.Parent() == nil || fn.Parent().Syntax() == nil {
		return ""
	}
	name := ""
	ast.Inspect(fn.Parent().Syntax(), func(n ast.Node) bool {
		switch x := n.(type) {
		case *ast.AssignStmt:
			for i, r := range x.Rhs {
				if r == ast.Expr(lit) && i < len(x.Lhs) {
					if id, ok := x.Lhs[i].(*ast.Ident); ok {
						name = id.Name
					}
				}
			}
		case *ast.ValueSpec:
			for i, r := range x.Values {
				if r == ast.Expr(lit) && i < len(x.Names) {
					name = x.Names[i].Name
				}
			}
		}
		return name == ""
	})
	return name
}

// rebindClosures: a contract on a function literal is keyed by the literal's ordinal (Transform$14);
// adding or removing another literal shifts the ordinals. bindings.json records the variable the
// literal is assigned to; when the literal at the ordinal is not that one any more, the contract
// follows the variable.
func (p *Program) rebindClosures() {
	p.ctrOverride = map[*ssa.Function]*FuncContract{}
	for key, fc := range p.Contracts {
		b := p.Bindings[key]
		if b == nil || b["$var"] == nil || b["$sig"] == nil {
			continue
		}
		cur := p.fnByKey[key]
		if cur != nil && closureVar(cur) == b["$var"].Type {
			continue
		}
		i := strings.LastIndex(key, "$")
		if i < 0 {
			continue
		}
		parent := p.fnByKey[key[:i]]
		if parent == nil {
			continue
		}
		var cands []*ssa.Function
		for _, an := range parent.AnonFuncs {
			if closureVar(an) == b["$var"].Type && sigTypes(an) == b["$sig"].Type {
				cands = append(cands, an)
			}
		}
		if len(cands) != 1 {
			continue
		}
		if cur != nil {
			if _, taken := p.ctrOverride[cur]; !taken {
				p.ctrOverride[cur] = nil // the literal that now sits at this ordinal has no contract
			}
		}
		p.fnByKey[key] = cands[0]
		p.ctrOverride[cands[0]] = fc
		p.Renamed = append(p.Renamed, fmt.Sprintf("%s is now the function literal %s (%s)", shortKey(key), cands[0].Name(), b["$var"].Type))
	}
}
