package main

// Verification-condition generator: symbolic encoding of one SSA function
// (loops cut at their headers) into SMT assertions plus a list of obligations.

import (
	"fmt"
	"go/constant"
	"go/token"
	"go/types"
	"os"
	"sort"
	"strings"

	"golang.org/x/tools/go/ssa"
)

type Val struct {
	T        string // SMT term ("" for addresses / tuples)
	Typ      types.Type
	Addr     *Addr
	Tup      []*Val
	TupNames []string
	Clo      *closureVal
	Fn       *ssa.Function
	ConstLen int64 // known constant length of a slice built from an array (-1 = unknown)
	IsSet    bool  // spec-level key set (Array K Bool)
	Untyped  bool  // untyped numeric literal in a spec expression
	IntVal   int64
}

type closureVal struct {
	fn       *ssa.Function
	bindings []*Val
}

// Addr is a generation-time address: a heap cell (pointer target) or a
// backing-array element, plus a path of struct fields inside it.
type Addr struct {
	Elem  bool
	Base  string // Ref term
	Idx   string // element index (absolute in backing array)
	CellT types.Type
	Path  []int
	PathT []types.Type // struct type at each step of Path
}

type State struct {
	epoch int
	heaps map[string]string // heap name -> current term
	tok   string
	locks map[string]int // ghost lock set (C20): mutex identity -> none / read / write
}

func (s *State) clone() *State {
	n := &State{epoch: s.epoch, heaps: map[string]string{}, tok: s.tok}
	for k, v := range s.heaps {
		n.heaps[k] = v
	}
	if s.locks != nil {
		n.locks = map[string]int{}
		for k, v := range s.locks {
			n.locks[k] = v
		}
	}
	return n
}

type Obligation struct {
	Known    bool            // listed in known_findings.txt for the property being checked
	SkipTags map[string]bool // tagged assumptions this obligation leaves out (clause `uses [...]`)
	Name     string
	Kind     string // ensures requires inv.entry inv.preserve safe.* frame lemma cover decreases
	Func     string
	Label    string
	Text     string
	Pos      string
	Guard    string
	Goal     string
	Extra    []string
	Contract *FuncContract
	IsCover  bool // expected sat (reachability)
	// filled by the solver driver
	Result    string
	Solver    string
	Seconds   float64
	Model     string
	Output    string
	File      string
	PerSolver []string
	Relaxed   bool
	Raw       string // complete SMT-LIB text (hand-posed lemma)
	NAsserts  int    // number of assumptions visible to this obligation
}

type Enc struct {
	prog           *Program
	ctx            *Ctx
	obls           []*Obligation
	heapSrt        map[string]string // heap name -> sort
	heapOrd        []string
	unit           string // name of the unit (function key)
	errs           []string
	safety         bool // generate safety obligations
	frameOn        bool // generate frame obligations for the top-level function
	topFC          *FuncContract
	topFrame       *Frame
	pureDecl       map[string]bool
	inlineDepthMax int
	usedTrusted    map[string]string // key -> reason, for evidence
	usedPurePkg    map[string]bool
	oblSeq         map[string]int
	noInline       map[string]bool
	sweep          bool // zero-annotation sweep mode: un-contracted callees are havocked, not inlined
	lockset        bool
	extraInline    map[string]bool
	usedContracts  map[string]bool
	inlined        map[string]bool
	inlineSeq      int
	unknownCalls   map[string]int
	usedGlobals    []string
	instDone       map[string]bool
	flat           *flatMap
	flatDone       bool
	memoCount      map[string]int // call sites per memoising function (see memoSites)
	memoUsed       bool           // a memoising (pure, fresh-result) call has been encoded
	lockAcq        map[string]int
	inPureInst     map[string]bool
	renamed        map[string]bool // contract names bound through the recorded bindings (reported in the evidence)
}

type Frame struct {
	enc         *Enc
	fn          *ssa.Function
	vals        map[ssa.Value]*Val
	prefix      string
	depth       int
	reach       map[*ssa.BasicBlock]string
	exit        map[*ssa.BasicBlock]*State
	entrySt     *State // state at function entry (for old())
	rets        []retSite
	loops       []*loopInfo
	loopOf      map[*ssa.BasicBlock]*loopInfo // header -> loop
	contract    *FuncContract
	parent      *Frame
	params      map[string]*Val
	curBlock    *ssa.BasicBlock
	curInstr    ssa.Instruction
	rangeSt     map[*ssa.Range]*rangeState
	escaped     map[ssa.Value]ssa.Instruction         // first escaping use
	held        map[*ssa.BasicBlock]map[string]string // lockset per block (C20)
	defers      []*ssa.Defer
	lets        map[string]*Val // pre-state lets of the contract (usable in loop invariants)
	curSt       *State
	guardedVals map[ssa.Value][2]string
	callSite    ssa.Instruction // inlined frame: the call it stands for
}

type retSite struct {
	reach string
	vals  []*Val
	st    *State
	pos   token.Pos
}

type loopInfo struct {
	ordinal   int
	header    *ssa.BasicBlock
	body      map[*ssa.BasicBlock]bool
	backs     []*ssa.BasicBlock
	phiVal    map[*ssa.Phi]*Val
	headSt    *State
	rangeIdx  *ssa.Phi
	idxPhi    *ssa.Phi  // for i := 0; i < bound; i++ : the counter (when the loop is not a range loop)
	idxLenOf  ssa.Value // bound is len(idxLenOf), a value defined outside the loop
	idxBound  ssa.Value // or the bound itself, defined outside the loop
	rangeLen  ssa.Value
	mapRange  *ssa.Range
	autoFresh []*ssa.Phi
}

type rangeState struct {
	mapVal  *Val
	visited string // current visited-set term (Array K Bool)
	keySort string
	isMap   bool
}

func newEnc(p *Program, unit string) *Enc {
	return &Enc{prog: p, ctx: newCtx(p), heapSrt: map[string]string{}, unit: unit, safety: true,
		pureDecl: map[string]bool{}, inlineDepthMax: 6, usedTrusted: map[string]string{}, usedPurePkg: map[string]bool{}, oblSeq: map[string]int{}, noInline: map[string]bool{}, renamed: map[string]bool{}}
}

func (e *Enc) errorf(format string, a ...interface{}) {
	e.errs = append(e.errs, fmt.Sprintf(format, a...))
}

// ---------------------------------------------------------------------------
// state / heap access

func (e *Enc) heapInit(name, sort string, epoch int) string {
	if _, ok := e.heapSrt[name]; !ok {
		e.heapSrt[name] = sort
		e.heapOrd = append(e.heapOrd, name)
	}
	return e.ctx.declConst(fmt.Sprintf("%s!%d", name, epoch), sort)
}

func (e *Enc) heapGet(st *State, name, sort string) string {
	if t, ok := st.heaps[name]; ok {
		return t
	}
	if strings.HasPrefix(name, "ponce$") || name == "pshared" {
		return e.memoHeap(st, name)
	}
	return e.heapInit(name, sort, st.epoch)
}

func (e *Enc) heapSet(st *State, name, sort, term string) {
	if _, ok := e.heapSrt[name]; !ok {
		e.heapSrt[name] = sort
		e.heapOrd = append(e.heapOrd, name)
	}
	st.heaps[name] = e.ctx.define(name, sort, term)
}

func (e *Enc) newState() *State {
	e.heapInit("alloc", "(Array Ref Bool)", 0)
	if !e.ctx.declared["ax:allocnil"] {
		e.ctx.declared["ax:allocnil"] = true
		e.ctx.assert("(not (select alloc!0 nil))")
	}
	return &State{epoch: 0, heaps: map[string]string{}, tok: e.ctx.declConst("tok!0", sortTok)}
}

func (e *Enc) bumpTok(st *State) { st.tok = e.ctx.freshConst("tok", sortTok) }

func (e *Enc) havocAll(st *State) {
	e.ctx.fresh++
	st.epoch = e.ctx.fresh
	// alloc is monotone: keep it
	al, hasAl := st.heaps["alloc"]
	old := st.heaps
	st.heaps = map[string]string{}
	if hasAl {
		st.heaps["alloc"] = al
	}
	// the memoisation ghost sets are the verifier's own: no callee changes them
	for n, t := range old {
		if n == "pshared" || strings.HasPrefix(n, "ponce$") || strings.HasPrefix(n, "pbt$") || strings.HasPrefix(n, "pba$") {
			st.heaps[n] = t
		}
	}
	e.bumpTok(st)
}

// memoHeap: the ghost sets ponce / pshared (see applyContract); empty at function entry.
func (e *Enc) memoHeap(st *State, name string) string {
	if t, ok := st.heaps[name]; ok {
		return t
	}
	t := e.heapInit(name, "(Array Ref Bool)", st.epoch)
	if !e.ctx.declared["ax:"+t] {
		e.ctx.declared["ax:"+t] = true
		e.ctx.assert("(= " + t + " ((as const (Array Ref Bool)) false))")
	}
	return t
}

// notShared: a new object is not among the memoised results handed out twice (those exist already).
func (e *Enc) notShared(st *State, r string) {
	if e.memoUsed {
		if t := e.memoHeap(st, "pshared"); t != "pshared!0" {
			e.ctx.assert(not(sel(t, r)))
		}
		e.ctx.assert(not(e.ctx.memoBorn(r)))
	}
}

func (e *Enc) allocArr(st *State) string { return e.heapGet(st, "alloc", "(Array Ref Bool)") }

// mergeStates joins predecessor states under their edge conditions.
func (e *Enc) mergeStates(conds []string, sts []*State) *State {
	if len(sts) == 1 {
		return sts[0].clone()
	}
	out := &State{heaps: map[string]string{}}
	sameEpoch := true
	for _, s := range sts[1:] {
		if s.epoch != sts[0].epoch {
			sameEpoch = false
		}
	}
	names := map[string]bool{}
	if sameEpoch {
		out.epoch = sts[0].epoch
		for _, s := range sts {
			for k := range s.heaps {
				names[k] = true
			}
		}
	} else {
		e.ctx.fresh++
		out.epoch = e.ctx.fresh
		for _, k := range e.heapOrd {
			names[k] = true
		}
	}
	for _, k := range sortedKeys(names) {
		srt := e.heapSrt[k]
		term := e.heapGet(sts[len(sts)-1], k, srt)
		same := true
		for i := len(sts) - 2; i >= 0; i-- {
			ti := e.heapGet(sts[i], k, srt)
			if ti != term {
				same = false
			}
			term = ite(conds[i], ti, term)
		}
		if same {
			term = e.heapGet(sts[0], k, srt)
			if sameEpoch {
				if _, ok := sts[0].heaps[k]; !ok {
					continue
				}
			}
			out.heaps[k] = term
			continue
		}
		out.heaps[k] = e.ctx.define(k+"@m", srt, term)
	}
	// a lock is held after a join only if it is held on every incoming path
	for _, s := range sts {
		for k := range s.locks {
			m := s.locks[k]
			for _, s2 := range sts {
				if s2.locks[k] < m {
					m = s2.locks[k]
				}
			}
			if out.locks == nil {
				out.locks = map[string]int{}
			}
			out.locks[k] = m
		}
	}
	tok := sts[len(sts)-1].tok
	for i := len(sts) - 2; i >= 0; i-- {
		tok = ite(conds[i], sts[i].tok, tok)
	}
	out.tok = e.ctx.define("tok@m", sortTok, tok)
	return out
}

// ---------------------------------------------------------------------------
// addresses: load / store

func (e *Enc) addrOfPointer(v *Val) *Addr {
	if v.Addr != nil {
		return v.Addr
	}
	pt, ok := v.Typ.Underlying().(*types.Pointer)
	if !ok {
		panic(fmt.Sprintf("addrOfPointer: not a pointer: %s", v.Typ))
	}
	return &Addr{Base: v.T, CellT: pt.Elem()}
}

func (e *Enc) cellTerm(st *State, a *Addr) string {
	if a.Elem {
		n, s := e.ctx.elemHeap(a.CellT)
		return sel(sel(e.heapGet(st, n, s), a.Base), a.Idx)
	}
	if arr, ok := a.CellT.Underlying().(*types.Array); ok && len(a.Path) == 0 {
		// a cell holding an array value: represented by its backing store
		n, s := e.ctx.elemHeap(arr.Elem())
		return sel(e.heapGet(st, n, s), a.Base)
	}
	n, s := e.ctx.cellHeap(a.CellT)
	return sel(e.heapGet(st, n, s), a.Base)
}

func (e *Enc) load(st *State, a *Addr) string {
	t := e.cellTerm(st, a)
	for i, f := range a.Path {
		t = e.ctx.structField(a.PathT[i], t, f)
	}
	return t
}

func (e *Enc) storeAddr(st *State, a *Addr, v string) {
	cell := e.cellTerm(st, a)
	// rebuild nested struct value
	var build func(term string, i int) string
	build = func(term string, i int) string {
		if i == len(a.Path) {
			return v
		}
		inner := e.ctx.structField(a.PathT[i], term, a.Path[i])
		return e.ctx.structUpdate(a.PathT[i], term, a.Path[i], build(inner, i+1))
	}
	nv := build(cell, 0)
	if a.Elem {
		n, s := e.ctx.elemHeap(a.CellT)
		h := e.heapGet(st, n, s)
		e.heapSet(st, n, s, store(h, a.Base, store(sel(h, a.Base), a.Idx, nv)))
		return
	}
	if arr, ok := a.CellT.Underlying().(*types.Array); ok && len(a.Path) == 0 {
		n, s := e.ctx.elemHeap(arr.Elem())
		e.heapSet(st, n, s, store(e.heapGet(st, n, s), a.Base, nv))
		return
	}
	n, s := e.ctx.cellHeap(a.CellT)
	e.heapSet(st, n, s, store(e.heapGet(st, n, s), a.Base, nv))
}

func (a *Addr) typ() types.Type {
	t := a.CellT
	for i, f := range a.Path {
		t = a.PathT[i].Underlying().(*types.Struct).Field(f).Type()
	}
	return t
}

func (a *Addr) field(i int) *Addr {
	st := a.typ()
	n := &Addr{Elem: a.Elem, Base: a.Base, Idx: a.Idx, CellT: a.CellT}
	n.Path = append(append([]int{}, a.Path...), i)
	n.PathT = append(append([]types.Type{}, a.PathT...), st)
	return n
}

// assumeTypeInv adds the facts every well-typed Go value satisfies.
func (e *Enc) assumeTypeInv(st *State, term string, t types.Type, guard string) {
	switch t.Underlying().(type) {
	case *types.Slice:
		e.ctx.assert(implies(guard, fmt.Sprintf("(and (bvsle #x0000000000000000 (s.off %s)) (bvsle #x0000000000000000 (s.len %s)) (bvsle (s.len %s) (s.cap %s)) (bvslt (s.cap %s) #x0000100000000000) (bvslt (s.off %s) #x0000100000000000) (=> (= (s.arr %s) nil) (and (= (s.cap %s) #x0000000000000000) (= (s.off %s) #x0000000000000000))))",
			term, term, term, term, term, term, term, term, term)))
		e.ctx.assert(implies(guard, fmt.Sprintf("(or (= (s.arr %s) nil) (select %s (s.arr %s)))", term, e.allocArr(st), term)))
	case *types.Pointer, *types.Map:
		e.ctx.assert(implies(guard, fmt.Sprintf("(or (= %s nil) (select %s %s))", term, e.allocArr(st), term)))
	case *types.Struct:
		// fields of a struct value are well-typed values too (one level)
		st2 := t.Underlying().(*types.Struct)
		for i := 0; i < st2.NumFields(); i++ {
			switch st2.Field(i).Type().Underlying().(type) {
			case *types.Slice, *types.Pointer, *types.Map:
				e.assumeTypeInv(st, e.ctx.structField(t, term, i), st2.Field(i).Type(), guard)
			}
		}
	}
}

// ---------------------------------------------------------------------------
// obligations

func (f *Frame) posOf(instr ssa.Instruction) string {
	pos := token.NoPos
	if instr != nil {
		pos = instr.Pos()
		if pos == token.NoPos {
			// search operands
			for _, op := range instr.Operands(nil) {
				if *op != nil && (*op).Pos() != token.NoPos {
					pos = (*op).Pos()
					break
				}
			}
		}
	}
	if pos == token.NoPos {
		return ""
	}
	p := f.enc.prog.Fset.Position(pos)
	return fmt.Sprintf("%s:%d", strings.TrimPrefix(p.Filename, f.enc.prog.RepoDir+"/"), p.Line)
}

func (f *Frame) srcText(instr ssa.Instruction) string {
	return instrSrc(f.enc.prog, instr)
}

func (e *Enc) addObl(o *Obligation) {
	// an obligation may use the facts established before its program point, never the
	// assumption that it itself (or a later check) holds
	if o.NAsserts == 0 {
		o.NAsserts = len(e.ctx.asserts)
	}
	// stable unique names: function + kind + label, with an ordinal for repeats
	base := o.Name
	e.oblSeq[base]++
	if n := e.oblSeq[base]; n > 1 {
		o.Name = fmt.Sprintf("%s#%d", base, n)
	}
	e.obls = append(e.obls, o)
}

func (f *Frame) safetyObl(kind, what, goal string) {
	if goal == "true" {
		return
	}
	guard := f.reach[f.curBlock]
	if !f.enc.safety {
		// absence of panics is decided under C19; here it is an assumption
		f.enc.ctx.assert(implies(guard, goal))
		return
	}
	f.enc.addObl(&Obligation{
		Name:  fmt.Sprintf("%s#safe.%s[%s]", f.prefix, kind, what),
		Kind:  "safe." + kind,
		Func:  f.prefix,
		Label: what,
		Text:  what,
		Pos:   f.posOf(f.curInstr),
		Guard: guard,
		Goal:  goal,
	})
	// after the check the property holds on this path
	f.enc.ctx.assert(implies(guard, goal))
}

// ---------------------------------------------------------------------------
// function encoding

func (e *Enc) newFrame(fn *ssa.Function, parent *Frame, prefix string) *Frame {
	f := &Frame{enc: e, fn: fn, vals: map[ssa.Value]*Val{}, prefix: prefix, parent: parent,
		reach: map[*ssa.BasicBlock]string{}, exit: map[*ssa.BasicBlock]*State{}, loopOf: map[*ssa.BasicBlock]*loopInfo{},
		params: map[string]*Val{}, rangeSt: map[*ssa.Range]*rangeState{}, escaped: map[ssa.Value]ssa.Instruction{}}
	if parent != nil {
		f.depth = parent.depth + 1
	}
	return f
}

// rpo computes a reverse post-order of the CFG ignoring back edges.
func rpo(fn *ssa.Function) []*ssa.BasicBlock {
	seen := map[*ssa.BasicBlock]bool{}
	var order []*ssa.BasicBlock
	var dfs func(b *ssa.BasicBlock)
	dfs = func(b *ssa.BasicBlock) {
		seen[b] = true
		for _, s := range b.Succs {
			if s.Dominates(b) { // back edge
				continue
			}
			if !seen[s] {
				dfs(s)
			}
		}
		order = append(order, b)
	}
	if len(fn.Blocks) > 0 {
		dfs(fn.Blocks[0])
	}
	for i, j := 0, len(order)-1; i < j; i, j = i+1, j-1 {
		order[i], order[j] = order[j], order[i]
	}
	return order
}

func (f *Frame) findLoops() {
	heads := map[*ssa.BasicBlock][]*ssa.BasicBlock{}
	for _, b := range f.fn.Blocks {
		for _, s := range b.Succs {
			if s.Dominates(b) {
				heads[s] = append(heads[s], b)
			}
		}
	}
	var hs []*ssa.BasicBlock
	for h := range heads {
		hs = append(hs, h)
	}
	sort.Slice(hs, func(i, j int) bool { return hs[i].Index < hs[j].Index })
	for i, h := range hs {
		li := &loopInfo{ordinal: i, header: h, body: map[*ssa.BasicBlock]bool{h: true}, backs: heads[h], phiVal: map[*ssa.Phi]*Val{}}
		// natural loop: blocks that reach a back-edge source without passing the header
		var stack []*ssa.BasicBlock
		for _, b := range heads[h] {
			if !li.body[b] {
				li.body[b] = true
				stack = append(stack, b)
			}
		}
		for len(stack) > 0 {
			b := stack[len(stack)-1]
			stack = stack[:len(stack)-1]
			for _, p := range b.Preds {
				if !li.body[p] {
					li.body[p] = true
					stack = append(stack, p)
				}
			}
		}
		// recognise range-over-slice / range-over-map shape
		for _, ins := range h.Instrs {
			if phi, ok := ins.(*ssa.Phi); ok && phi.Comment == "rangeindex" {
				li.rangeIdx = phi
			}
		}
		if li.rangeIdx == nil {
			recogniseIndexLoop(li)
		}
		for b := range li.body {
			for _, ins := range b.Instrs {
				if nx, ok := ins.(*ssa.Next); ok && b == h {
					if r, ok := nx.Iter.(*ssa.Range); ok {
						li.mapRange = r
					}
				}
			}
		}
		f.loops = append(f.loops, li)
		f.loopOf[h] = li
	}
}

func isBackEdge(from, to *ssa.BasicBlock) bool { return to.Dominates(from) }

// edgeCond returns the condition under which control flows from p to b.
func (f *Frame) edgeCond(p, b *ssa.BasicBlock) string {
	r := f.reach[p]
	last := p.Instrs[len(p.Instrs)-1]
	if iff, ok := last.(*ssa.If); ok {
		c := f.val(iff.Cond).T
		if p.Succs[0] == b && p.Succs[1] == b {
			return r
		}
		if p.Succs[0] == b {
			return and(r, c)
		}
		return and(r, not(c))
	}
	return r
}

// encodeBody encodes the function body starting from the given state and
// reach condition; returns the merged return values and exit state.
func (f *Frame) encodeBody(entryReach string, st *State) (results []*Val, exitSt *State, exitReach string) {
	e := f.enc
	f.entrySt = st.clone()
	f.findLoops()
	order := rpo(f.fn)
	for _, b := range order {
		var cur *State
		if b == f.fn.Blocks[0] {
			f.reach[b] = entryReach
			cur = st.clone()
		} else {
			var conds []string
			var sts []*State
			for _, p := range b.Preds {
				if isBackEdge(p, b) {
					continue
				}
				if _, ok := f.exit[p]; !ok {
					continue // unreachable predecessor (e.g. after panic)
				}
				conds = append(conds, f.edgeCond(p, b))
				sts = append(sts, f.exit[p])
			}
			if len(sts) == 0 {
				f.reach[b] = "false"
				continue
			}
			r := or(conds...)
			f.reach[b] = e.ctx.define(fmt.Sprintf("reach.%s.b%d", sanitize(f.prefix), b.Index), "Bool", r)
			cur = e.mergeStates(conds, sts)
		}
		f.curBlock = b
		if li := f.loopOf[b]; li != nil {
			f.enterLoop(li, cur)
		}
		if f.reach[b] == "false" {
			continue // statically dead block: no state, no values
		}
		f.encodeBlock(b, cur)
		if f.reach[b] == "false" {
			continue // control never leaves this block (panic / callee that never returns)
		}
		f.exit[b] = cur
		// back edges leaving this block: invariant preservation
		for _, s := range b.Succs {
			if isBackEdge(b, s) {
				if li := f.loopOf[s]; li != nil {
					f.backEdge(li, b, cur)
				}
			}
		}
	}
	// merge returns
	if len(f.rets) == 0 {
		return nil, st.clone(), "false"
	}
	var conds []string
	var sts []*State
	for _, r := range f.rets {
		conds = append(conds, r.reach)
		sts = append(sts, r.st)
	}
	exitReach = e.ctx.define("reach."+sanitize(f.prefix)+".exit", "Bool", or(conds...))
	exitSt = e.mergeStates(conds, sts)
	nres := len(f.rets[0].vals)
	for i := 0; i < nres; i++ {
		last := f.rets[len(f.rets)-1].vals[i]
		term := last.T
		for k := len(f.rets) - 2; k >= 0; k-- {
			term = ite(conds[k], f.rets[k].vals[i].T, term)
		}
		t := last.Typ
		results = append(results, &Val{T: e.ctx.define("ret."+sanitize(f.prefix), e.ctx.sortOf(t), term), Typ: t, ConstLen: -1})
	}
	return results, exitSt, exitReach
}

func sanitize(s string) string {
	s = strings.ReplaceAll(s, repoModule+"/pkg/", "")
	r := strings.NewReplacer("/", "_", "(", "", ")", "", "*", "", " ", "_", "|", "_", "\\", "_")
	return r.Replace(s)
}

// val returns the encoding of an SSA value.
func (f *Frame) val(v ssa.Value) *Val {
	if x, ok := f.vals[v]; ok {
		return x
	}
	e := f.enc
	switch c := v.(type) {
	case *ssa.Const:
		x := f.constVal(c)
		return x
	case *ssa.Global:
		name := "g$" + c.Pkg.Pkg.Path() + "." + c.Name()
		t := e.ctx.declConst(name, sortRef)
		if !e.ctx.declared["ginit:"+name] {
			e.ctx.declared["ginit:"+name] = true
			e.ctx.assert(fmt.Sprintf("(not (= %s nil))", t))
			e.ctx.assert(fmt.Sprintf("(select alloc!0 %s)", t))
			e.heapInit("alloc", "(Array Ref Bool)", 0)
			e.ctx.lateDecls = append(e.ctx.lateDecls, t)
		}
		x := &Val{T: t, Typ: c.Type(), ConstLen: -1}
		f.vals[v] = x
		return x
	case *ssa.Function:
		name := "fn$" + keyOfFunction(c)
		t := e.ctx.declConst(name, sortRef)
		if !e.ctx.declared["fninit:"+name] {
			e.ctx.declared["fninit:"+name] = true
			e.ctx.assert(fmt.Sprintf("(not (= %s nil))", t))
		}
		x := &Val{T: t, Typ: c.Type(), Fn: c, ConstLen: -1}
		f.vals[v] = x
		return x
	case *ssa.Builtin:
		return &Val{T: "nil", Typ: c.Type(), ConstLen: -1}
	case *ssa.FreeVar:
		panic(fmt.Sprintf("unbound free variable %s in %s", c.Name(), f.fn))
	case *ssa.Parameter:
		panic(fmt.Sprintf("unbound parameter %s in %s", c.Name(), f.fn))
	}
	panic(fmt.Sprintf("value %s (%T) used before definition in %s", v.Name(), v, f.fn))
}

func (f *Frame) constVal(c *ssa.Const) *Val {
	e := f.enc
	t := c.Type()
	out := &Val{Typ: t, ConstLen: -1}
	if c.Value == nil {
		out.T = e.ctx.zero(t)
		return out
	}
	switch {
	case isBool(t):
		out.T = fmt.Sprint(constant.BoolVal(c.Value))
	case isString(t):
		out.T = e.ctx.strLit(constant.StringVal(c.Value))
	case isFloat(t):
		fv, _ := constant.Float64Val(c.Value)
		out.T = fpLit(e.ctx, fv)
	default:
		if w, _, ok := intInfo(t); ok {
			if iv, exact := constant.Int64Val(constant.ToInt(c.Value)); exact {
				out.T = bvLit(uint64(iv), w)
			} else if uv, exact := constant.Uint64Val(constant.ToInt(c.Value)); exact {
				out.T = bvLit(uv, w)
			} else {
				panic("constant out of range: " + c.String())
			}
		} else {
			panic("unsupported constant " + c.String())
		}
	}
	return out
}

func fpLit(c *Ctx, v float64) string {
	c.usesFP = true
	return fmt.Sprintf("((_ to_fp 11 53) RNE %s)", realLit(v))
}

func realLit(v float64) string {
	s := fmt.Sprintf("%.400f", v)
	if v < 0 {
		return "(- " + strings.TrimRight(strings.TrimRight(s[1:], "0"), ".") + ".0)"
	}
	s = strings.TrimRight(s, "0")
	if strings.HasSuffix(s, ".") {
		s += "0"
	}
	return s
}

func (f *Frame) setVal(v ssa.Value, x *Val) {
	if x.Typ == nil {
		x.Typ = v.Type()
	}
	f.vals[v] = x
}

// defVal binds an SSA value to a (possibly named) term.
func (f *Frame) defVal(v ssa.Value, term string) *Val {
	e := f.enc
	t := v.Type()
	x := &Val{T: e.ctx.define(fmt.Sprintf("%s.%s", sanitize(f.prefix), v.Name()), e.ctx.sortOf(t), term), Typ: t, ConstLen: -1}
	f.vals[v] = x
	return x
}

// exitStateForInv is the state used for "allocated" facts of values that are
// produced without a heap access (type assertions): the current block state.
func (f *Frame) exitStateForInv() *State { return f.curSt }

func (f *Frame) encodeBlock(b *ssa.BasicBlock, st *State) {
	f.curSt = st
	if os.Getenv("GOVC_AUDIT") != "" && f.reach[b] != "false" && len(b.Instrs) > 0 {
		// audit (not part of any check): every block should be reachable under the assumptions
		f.curInstr = b.Instrs[0]
		f.enc.addObl(&Obligation{Name: fmt.Sprintf("%s#cover.soft[block %d reachable]", f.prefix, b.Index), Kind: "cover.soft", Func: f.prefix,
			Guard: f.reach[b], Goal: "false", IsCover: true, Text: "block reachable", Pos: f.posOfBlock(b)})
	}
	for _, ins := range b.Instrs {
		f.curInstr = ins
		if f.reach[b] == "false" {
			return
		}
		f.encodeInstr(ins, st)
	}
}

func (f *Frame) guard() string { return f.reach[f.curBlock] }

func (f *Frame) encodeInstr(ins ssa.Instruction, st *State) {
	e := f.enc
	c := e.ctx
	switch x := ins.(type) {
	case *ssa.DebugRef:
	case *ssa.Phi:
		if li := f.loopOf[x.Block()]; li != nil {
			if pv, ok := li.phiVal[x]; ok {
				f.vals[x] = pv
				return
			}
		}
		b := x.Block()
		var term string
		first := true
		for i := len(b.Preds) - 1; i >= 0; i-- {
			p := b.Preds[i]
			if isBackEdge(p, b) {
				continue
			}
			if _, ok := f.exit[p]; !ok {
				continue
			}
			ev := f.val(x.Edges[i])
			if ev.T == "" {
				panic("phi of address/tuple values is outside the subset: " + x.String())
			}
			if first {
				term = ev.T
				first = false
			} else {
				term = ite(f.edgeCond(p, b), ev.T, term)
			}
		}
		if first {
			term = c.zero(x.Type())
		}
		f.defVal(x, term)
	case *ssa.Alloc:
		f.encodeAlloc(x, st)
	case *ssa.FieldAddr:
		base := f.val(x.X)
		a := e.addrOfPointer(base)
		if base.Addr == nil {
			f.safetyObl("nil", f.srcText(x), not(eq(base.T, "nil")))
		}
		f.vals[x] = &Val{Addr: a.field(x.Field), Typ: x.Type(), ConstLen: -1}
	case *ssa.Field:
		base := f.val(x.X)
		f.defVal(x, c.structField(x.X.Type(), base.T, x.Field))
	case *ssa.IndexAddr:
		f.encodeIndexAddr(x, st)
	case *ssa.Index:
		base := f.val(x.X)
		idx := f.val(x.Index)
		if isString(x.X.Type()) {
			c.declFun("charAt", []string{sortStr, sortBV64}, "(_ BitVec 8)")
			i64 := f.toBV64(idx)
			f.safetyObl("index", f.srcText(x), and("(bvsle #x0000000000000000 "+i64+")", "(bvslt "+i64+" (slen "+base.T+"))"))
			f.defVal(x, fmt.Sprintf("(charAt %s %s)", base.T, i64))
		} else {
			arr := x.X.Type().Underlying().(*types.Array)
			i64 := f.toBV64(idx)
			f.safetyObl("index", f.srcText(x), and("(bvsle #x0000000000000000 "+i64+")", "(bvslt "+i64+" "+bv64(arr.Len())+")"))
			f.defVal(x, sel(base.T, i64))
		}
	case *ssa.UnOp:
		f.encodeUnOp(x, st)
	case *ssa.BinOp:
		f.encodeBinOp(x)
	case *ssa.Store:
		addrV := f.val(x.Addr)
		a := e.addrOfPointer(addrV)
		if addrV.Addr == nil {
			f.safetyObl("nil", "*"+x.Addr.Name(), not(eq(addrV.T, "nil")))
		}
		v := f.val(x.Val)
		if v.T == "" {
			if v.Clo != nil || v.Fn != nil {
				v = &Val{T: c.freshConst("fnval", sortRef), Typ: v.Typ}
			} else {
				panic("store of an address value is outside the subset: " + x.String())
			}
		}
		f.noteWrite(st, a, x)
		e.storeAddr(st, a, v.T)
	case *ssa.MakeInterface:
		v := f.val(x.X)
		f.markEscape(x.X)
		if v.T == "" {
			if v.Clo != nil || v.Fn != nil {
				f.defVal(x, c.box(x.X.Type(), c.freshConst("fnval", sortRef)))
				return
			}
			panic("make interface of address is outside the subset")
		}
		f.defVal(x, c.box(x.X.Type(), v.T))
	case *ssa.ChangeInterface:
		f.setVal(x, &Val{T: f.val(x.X).T, Typ: x.Type(), ConstLen: -1})
	case *ssa.ChangeType:
		v := f.val(x.X)
		nv := *v
		nv.Typ = x.Type()
		f.vals[x] = &nv
	case *ssa.Convert:
		f.encodeConvert(x, st)
	case *ssa.TypeAssert:
		f.encodeTypeAssert(x)
	case *ssa.Extract:
		tup := f.val(x.Tuple)
		if tup.Tup == nil {
			panic("extract from non-tuple " + x.String())
		}
		f.vals[x] = tup.Tup[x.Index]
	case *ssa.MakeMap:
		r := c.freshConst("map", sortRef)
		f.freshRef(st, r)
		hn, hs, vn, vs := c.mapHeaps(x.Type())
		m := x.Type().Underlying().(*types.Map)
		e.heapSet(st, hn, hs, store(e.heapGet(st, hn, hs), r, fmt.Sprintf("((as const (Array %s Bool)) false)", c.sortOf(m.Key()))))
		{
			card := c.declFun(fmt.Sprintf("card$%d", c.typeID(m)), []string{fmt.Sprintf("(Array %s Bool)", c.sortOf(m.Key()))}, sortBV64)
			c.assert(eq(fmt.Sprintf("(%s ((as const (Array %s Bool)) false))", card, c.sortOf(m.Key())), "#x0000000000000000"))
		}
		e.heapSet(st, vn, vs, store(e.heapGet(st, vn, vs), r, fmt.Sprintf("((as const (Array %s %s)) %s)", c.sortOf(m.Key()), c.sortOf(m.Elem()), c.zero(m.Elem()))))
		f.vals[x] = &Val{T: r, Typ: x.Type(), ConstLen: -1}
	case *ssa.MakeSlice:
		f.encodeMakeSlice(x, st)
	case *ssa.MakeClosure:
		fn := x.Fn.(*ssa.Function)
		var bs []*Val
		for _, b := range x.Bindings {
			bs = append(bs, f.val(b))
			f.markEscape(b)
		}
		f.vals[x] = &Val{Clo: &closureVal{fn: fn, bindings: bs}, Typ: x.Type(), ConstLen: -1}
	case *ssa.Slice:
		f.encodeSlice(x, st)
	case *ssa.Lookup:
		f.encodeLookup(x, st)
	case *ssa.MapUpdate:
		f.encodeMapUpdate(x, st)
	case *ssa.Range:
		f.encodeRange(x, st)
	case *ssa.Next:
		f.encodeNext(x, st)
	case *ssa.Call:
		f.encodeCall(x, x.Common(), st)
	case *ssa.Defer:
		f.encodeDefer(x, st)
	case *ssa.RunDefers:
		f.runDefers(st)
	case *ssa.Go, *ssa.Send, *ssa.Select:
		panic("goroutines and channels are outside the subset: " + ins.String())
	case *ssa.Panic:
		if f.topContract() == nil || !f.topContract().Panics {
			f.safetyObl("panic", "panic("+f.srcText(x)+")", "false")
		}
		f.reach[f.curBlock] = "false"
	case *ssa.Return:
		var vs []*Val
		for _, r := range x.Results {
			rv := f.val(r)
			if rv.T == "" {
				if rv.Clo != nil || rv.Fn != nil {
					rv = &Val{T: c.freshConst("fnval", sortRef), Typ: r.Type(), ConstLen: -1}
					c.assert(not(eq(rv.T, "nil")))
				} else {
					panic("return of address value is outside the subset: " + x.String())
				}
			}
			vs = append(vs, rv)
		}
		f.rets = append(f.rets, retSite{reach: f.guard(), vals: vs, st: st.clone(), pos: x.Pos()})
	case *ssa.If, *ssa.Jump:
	default:
		panic(fmt.Sprintf("unsupported instruction %T: %s", ins, ins))
	}
}

func (f *Frame) topContract() *FuncContract {
	fr := f
	for fr.parent != nil {
		fr = fr.parent
	}
	return fr.contract
}

func (f *Frame) freshRef(st *State, r string) {
	e := f.enc
	e.notShared(st, r)
	al := e.allocArr(st)
	e.ctx.assert(fmt.Sprintf("(and (not (= %s nil)) (not (select %s %s)))", r, al, r))
	// allocation only grows: what is new now did not exist at entry either (stated directly, so
	// that frame obligations need no chain of monotonicity steps)
	e.heapInit("alloc", "(Array Ref Bool)", 0)
	if al != "alloc!0" {
		e.ctx.assert(fmt.Sprintf("(not (select alloc!0 %s))", r))
	}
	e.heapSet(st, "alloc", "(Array Ref Bool)", store(al, r, "true"))
}

func (f *Frame) encodeAlloc(x *ssa.Alloc, st *State) {
	e := f.enc
	c := e.ctx
	r := c.freshConst("new."+x.Name(), sortRef)
	f.freshRef(st, r)
	elem := x.Type().Underlying().(*types.Pointer).Elem()
	if arr, ok := elem.Underlying().(*types.Array); ok {
		n, s := c.elemHeap(arr.Elem())
		e.heapSet(st, n, s, store(e.heapGet(st, n, s), r, fmt.Sprintf("((as const (Array (_ BitVec 64) %s)) %s)", c.sortOf(arr.Elem()), c.zero(arr.Elem()))))
	} else {
		n, s := c.cellHeap(elem)
		e.heapSet(st, n, s, store(e.heapGet(st, n, s), r, c.zero(elem)))
	}
	f.vals[x] = &Val{T: r, Typ: x.Type(), ConstLen: -1}
}

func (f *Frame) toBV64(v *Val) string {
	w, signed, ok := intInfo(v.Typ)
	if !ok {
		panic("toBV64: not an integer: " + v.Typ.String())
	}
	if w == 64 {
		return v.T
	}
	if signed {
		return fmt.Sprintf("((_ sign_extend %d) %s)", 64-w, v.T)
	}
	return fmt.Sprintf("((_ zero_extend %d) %s)", 64-w, v.T)
}

func (f *Frame) encodeIndexAddr(x *ssa.IndexAddr, st *State) {
	e := f.enc
	base := f.val(x.X)
	idx := f.toBV64(f.val(x.Index))
	switch t := x.X.Type().Underlying().(type) {
	case *types.Slice:
		f.safetyObl("index", f.srcText(x), and("(bvsle #x0000000000000000 "+idx+")", "(bvslt "+idx+" (s.len "+base.T+"))"))
		f.vals[x] = &Val{Addr: &Addr{Elem: true, Base: "(s.arr " + base.T + ")", Idx: "(bvadd (s.off " + base.T + ") " + idx + ")", CellT: t.Elem()}, Typ: x.Type(), ConstLen: -1}
	case *types.Pointer:
		arr := t.Elem().Underlying().(*types.Array)
		if base.Addr != nil {
			panic("index into array field is outside the subset: " + x.String())
		}
		f.safetyObl("nil", f.srcText(x), not(eq(base.T, "nil")))
		f.safetyObl("index", f.srcText(x), and("(bvsle #x0000000000000000 "+idx+")", "(bvslt "+idx+" "+bv64(arr.Len())+")"))
		f.vals[x] = &Val{Addr: &Addr{Elem: true, Base: base.T, Idx: idx, CellT: arr.Elem()}, Typ: x.Type(), ConstLen: -1}
	default:
		panic("IndexAddr on " + x.X.Type().String())
	}
	_ = e
}

func (f *Frame) encodeUnOp(x *ssa.UnOp, st *State) {
	e := f.enc
	v := f.val(x.X)
	switch x.Op {
	case token.MUL: // load
		a := e.addrOfPointer(v)
		if v.Addr == nil {
			f.safetyObl("nil", "*"+f.srcText(x), not(eq(v.T, "nil")))
		}
		if g, isG := x.X.(*ssa.Global); isG {
			f.noteGlobalRead(g, x)
			// a package-level function variable that only the initialiser assigns, with a function
			// literal: calls through it are calls of that function
			if _, isSig := x.Type().Underlying().(*types.Signature); isSig && f.fn.Synthetic != "package initializer" {
				if fn := e.prog.globalFuncInit(g); fn != nil {
					name := "fn$" + keyOfFunction(fn)
					t := e.ctx.declConst(name, sortRef)
					if !e.ctx.declared["fninit:"+name] {
						e.ctx.declared["fninit:"+name] = true
						e.ctx.assert(fmt.Sprintf("(not (= %s nil))", t))
					}
					f.vals[x] = &Val{T: t, Typ: x.Type(), Fn: fn, ConstLen: -1}
					return
				}
			}
		}
		f.noteRead(st, a, x)
		term := e.load(st, a)
		nv := f.defVal(x, term)
		e.assumeTypeInv(st, nv.T, x.Type(), f.guard())
	case token.NOT:
		f.defVal(x, not(v.T))
	case token.SUB:
		if isFloat(x.Type()) {
			f.defVal(x, "(fp.neg "+v.T+")")
		} else {
			f.defVal(x, "(bvneg "+v.T+")")
		}
	case token.XOR:
		f.defVal(x, "(bvnot "+v.T+")")
	case token.ARROW:
		panic("channel receive is outside the subset")
	default:
		panic("unsupported unary op " + x.Op.String())
	}
}

func (f *Frame) encodeBinOp(x *ssa.BinOp) {
	c := f.enc.ctx
	a, b := f.val(x.X), f.val(x.Y)
	t := x.X.Type()
	if a.T == "" || b.T == "" {
		// comparison of a function value with nil
		if x.Op == token.EQL || x.Op == token.NEQ {
			if (a.Clo != nil || a.Fn != nil) && b.T == "nil" || (b.Clo != nil || b.Fn != nil) && a.T == "nil" {
				f.defVal(x, fmt.Sprint(x.Op == token.NEQ))
				return
			}
		}
		panic("binary operation on address values is outside the subset: " + x.String())
	}
	switch x.Op {
	case token.EQL:
		if isFloat(t) {
			f.defVal(x, "(fp.eq "+a.T+" "+b.T+")")
		} else {
			f.defVal(x, eq(a.T, b.T))
		}
		return
	case token.NEQ:
		if isFloat(t) {
			f.defVal(x, not("(fp.eq "+a.T+" "+b.T+")"))
		} else {
			f.defVal(x, not(eq(a.T, b.T)))
		}
		return
	}
	if isString(t) {
		switch x.Op {
		case token.ADD:
			f.defVal(x, "(scat "+a.T+" "+b.T+")")
		case token.LSS, token.LEQ, token.GTR, token.GEQ:
			c.declFun("strlt", []string{sortStr, sortStr}, "Bool")
			switch x.Op {
			case token.LSS:
				f.defVal(x, "(strlt "+a.T+" "+b.T+")")
			case token.GTR:
				f.defVal(x, "(strlt "+b.T+" "+a.T+")")
			case token.LEQ:
				f.defVal(x, not("(strlt "+b.T+" "+a.T+")"))
			case token.GEQ:
				f.defVal(x, not("(strlt "+a.T+" "+b.T+")"))
			}
		default:
			panic("unsupported string op " + x.Op.String())
		}
		return
	}
	if isBool(t) {
		switch x.Op {
		case token.LAND, token.AND:
			f.defVal(x, and(a.T, b.T))
		case token.LOR, token.OR:
			f.defVal(x, or(a.T, b.T))
		default:
			panic("unsupported bool op " + x.Op.String())
		}
		return
	}
	if isFloat(t) {
		ops := map[token.Token]string{token.LSS: "fp.lt", token.LEQ: "fp.leq", token.GTR: "fp.gt", token.GEQ: "fp.geq"}
		if op, ok := ops[x.Op]; ok {
			f.defVal(x, "("+op+" "+a.T+" "+b.T+")")
			return
		}
		ar := map[token.Token]string{token.ADD: "fp.add RNE", token.SUB: "fp.sub RNE", token.MUL: "fp.mul RNE", token.QUO: "fp.div RNE"}
		if op, ok := ar[x.Op]; ok {
			f.defVal(x, "("+op+" "+a.T+" "+b.T+")")
			return
		}
		panic("unsupported float op " + x.Op.String())
	}
	w, signed, ok := intInfo(t)
	if !ok {
		panic("unsupported operand type for binop: " + t.String())
	}
	term := intBinOp(x.Op, a.T, b.T, w, signed, func(y string) string {
		// shift amount may have a different width
		wy, _, _ := intInfo(x.Y.Type())
		if wy == w {
			return y
		}
		if wy < w {
			return fmt.Sprintf("((_ zero_extend %d) %s)", w-wy, y)
		}
		// clamp
		return fmt.Sprintf("(ite (bvuge %s %s) %s ((_ extract %d 0) %s))", y, bvLit(uint64(w), wy), bvLit(uint64(w), w), w-1, y)
	})
	if x.Op == token.QUO || x.Op == token.REM {
		f.safetyObl("div", f.srcText(x), not(eq(b.T, bvLit(0, w))))
	}
	f.defVal(x, term)
}

func intBinOp(op token.Token, a, b string, w int, signed bool, shiftAmt func(string) string) string {
	pick := func(s, u string) string {
		if signed {
			return s
		}
		return u
	}
	switch op {
	case token.ADD:
		return "(bvadd " + a + " " + b + ")"
	case token.SUB:
		return "(bvsub " + a + " " + b + ")"
	case token.MUL:
		return "(bvmul " + a + " " + b + ")"
	case token.QUO:
		return "(" + pick("bvsdiv", "bvudiv") + " " + a + " " + b + ")"
	case token.REM:
		return "(" + pick("bvsrem", "bvurem") + " " + a + " " + b + ")"
	case token.AND:
		return "(bvand " + a + " " + b + ")"
	case token.OR:
		return "(bvor " + a + " " + b + ")"
	case token.XOR:
		return "(bvxor " + a + " " + b + ")"
	case token.AND_NOT:
		return "(bvand " + a + " (bvnot " + b + "))"
	case token.SHL:
		return "(bvshl " + a + " " + shiftAmt(b) + ")"
	case token.SHR:
		return "(" + pick("bvashr", "bvlshr") + " " + a + " " + shiftAmt(b) + ")"
	case token.LSS:
		return "(" + pick("bvslt", "bvult") + " " + a + " " + b + ")"
	case token.LEQ:
		return "(" + pick("bvsle", "bvule") + " " + a + " " + b + ")"
	case token.GTR:
		return "(" + pick("bvsgt", "bvugt") + " " + a + " " + b + ")"
	case token.GEQ:
		return "(" + pick("bvsge", "bvuge") + " " + a + " " + b + ")"
	}
	panic("unsupported integer op " + op.String())
}

func convertInt(term string, fromW int, fromSigned bool, toW int) string {
	switch {
	case fromW == toW:
		return term
	case fromW > toW:
		return fmt.Sprintf("((_ extract %d 0) %s)", toW-1, term)
	case fromSigned:
		return fmt.Sprintf("((_ sign_extend %d) %s)", toW-fromW, term)
	default:
		return fmt.Sprintf("((_ zero_extend %d) %s)", toW-fromW, term)
	}
}

func (f *Frame) encodeConvert(x *ssa.Convert, st *State) {
	e := f.enc
	c := e.ctx
	v := f.val(x.X)
	from, to := x.X.Type(), x.Type()
	fw, fs, fok := intInfo(from)
	tw, ts, tok := intInfo(to)
	switch {
	case fok && tok:
		f.defVal(x, convertInt(v.T, fw, fs, tw))
	case isString(from) && isString(to):
		f.setVal(x, &Val{T: v.T, Typ: to, ConstLen: -1})
	case isString(to) && isByteSlice(from):
		f.defVal(x, e.bytesToStr(st, v.T))
	case isByteSlice(to) && isString(from):
		// fresh backing array holding the bytes of the string
		r := c.freshConst("bytes", sortRef)
		f.freshRef(st, r)
		sl := fmt.Sprintf("(mk-slice %s #x0000000000000000 (slen %s) (slen %s))", r, v.T, v.T)
		nv := f.defVal(x, sl)
		c.assert(eq(e.bytesToStr(st, nv.T), v.T))
	case isString(to) && fok:
		c.declFun("runeToStr", []string{bvSort(fw)}, sortStr)
		f.defVal(x, "(runeToStr "+v.T+")")
	case isFloat(to) && fok:
		c.usesFP = true
		if fs {
			f.defVal(x, "((_ to_fp 11 53) RNE "+v.T+")")
		} else {
			f.defVal(x, "((_ to_fp_unsigned 11 53) RNE "+v.T+")")
		}
	case isFloat(from) && tok:
		c.usesFP = true
		if ts {
			f.defVal(x, fmt.Sprintf("((_ fp.to_sbv %d) RTZ %s)", tw, v.T))
		} else {
			f.defVal(x, fmt.Sprintf("((_ fp.to_ubv %d) RTZ %s)", tw, v.T))
		}
	case isFloat(from) && isFloat(to):
		f.setVal(x, &Val{T: v.T, Typ: to, ConstLen: -1})
	case isRefLike(from) && isRefLike(to):
		f.setVal(x, &Val{T: v.T, Typ: to, ConstLen: -1})
	case isString(to) && isRuneSlice(from), isRuneSlice(to) && isString(from):
		f.defVal(x, c.freshConst("conv", c.sortOf(to)))
	default:
		panic(fmt.Sprintf("unsupported conversion %s -> %s", from, to))
	}
}

func isByteSlice(t types.Type) bool {
	s, ok := t.Underlying().(*types.Slice)
	if !ok {
		return false
	}
	b, ok := s.Elem().Underlying().(*types.Basic)
	return ok && b.Kind() == types.Uint8
}

func isRuneSlice(t types.Type) bool {
	s, ok := t.Underlying().(*types.Slice)
	if !ok {
		return false
	}
	b, ok := s.Elem().Underlying().(*types.Basic)
	return ok && b.Kind() == types.Int32
}

// bytesToStr is the abstract string denoted by a byte slice in the current heap.
func (e *Enc) bytesToStr(st *State, sl string) string {
	c := e.ctx
	n, s := c.elemHeap(types.Typ[types.Uint8])
	h := e.heapGet(st, n, s)
	c.declFun("bstr", []string{"(Array (_ BitVec 64) (_ BitVec 8))", sortBV64, sortBV64}, sortStr)
	if !c.declared["ax:bstr"] {
		c.declared["ax:bstr"] = true
		c.assert("(forall ((a (Array (_ BitVec 64) (_ BitVec 8))) (o (_ BitVec 64)) (n (_ BitVec 64))) (! (=> (bvsge n #x0000000000000000) (= (slen (bstr a o n)) n)) :pattern ((bstr a o n))))")
	}
	return fmt.Sprintf("(bstr (select %s (s.arr %s)) (s.off %s) (s.len %s))", h, sl, sl, sl)
}

func (f *Frame) encodeTypeAssert(x *ssa.TypeAssert) {
	c := f.enc.ctx
	v := f.val(x.X)
	at := x.AssertedType
	var ok, res string
	if isIface(at) {
		// assertion to an interface type: succeeds for some non-nil values
		c.declFun(fmt.Sprintf("impl$%d", c.typeID(at)), []string{"Int"}, "Bool")
		ok = and(not(eq(v.T, "nilIface")), fmt.Sprintf("(impl$%d (itype %s))", c.typeID(at), v.T))
		if it := at.Underlying().(*types.Interface); it.NumMethods() == 0 {
			ok = not(eq(v.T, "nilIface"))
		}
		res = v.T
	} else {
		ok = c.isType(at, v.T)
		res = c.unbox(at, v.T)
	}
	if x.CommaOk {
		okV := &Val{T: c.define(sanitize(f.prefix)+"."+x.Name()+".ok", "Bool", ok), Typ: types.Typ[types.Bool], ConstLen: -1}
		zero := c.zero(at)
		rv := &Val{T: c.define(sanitize(f.prefix)+"."+x.Name()+".v", c.sortOf(at), ite(okV.T, res, zero)), Typ: at, ConstLen: -1}
		f.enc.assumeTypeInv(f.exitStateForInv(), rv.T, at, f.guard())
		f.vals[x] = &Val{Tup: []*Val{rv, okV}, Typ: x.Type(), ConstLen: -1}
		return
	}
	f.safetyObl("assert", f.srcText(x), ok)
	nv := f.defVal(x, res)
	f.enc.assumeTypeInv(f.exitStateForInv(), nv.T, at, f.guard())
}

func (f *Frame) encodeMakeSlice(x *ssa.MakeSlice, st *State) {
	e := f.enc
	c := e.ctx
	ln := f.toBV64(f.val(x.Len))
	cp := f.toBV64(f.val(x.Cap))
	f.safetyObl("makeslice", f.srcText(x), and("(bvsle #x0000000000000000 "+ln+")", "(bvsle "+ln+" "+cp+")", "(bvslt "+cp+" #x0000100000000000)"))
	r := c.freshConst("arr", sortRef)
	f.freshRef(st, r)
	et := x.Type().Underlying().(*types.Slice).Elem()
	n, s := c.elemHeap(et)
	e.heapSet(st, n, s, store(e.heapGet(st, n, s), r, fmt.Sprintf("((as const (Array (_ BitVec 64) %s)) %s)", c.sortOf(et), c.zero(et))))
	f.defVal(x, fmt.Sprintf("(mk-slice %s #x0000000000000000 %s %s)", r, ln, cp))
}

func (f *Frame) encodeSlice(x *ssa.Slice, st *State) {
	c := f.enc.ctx
	base := f.val(x.X)
	zero := "#x0000000000000000"
	lo := zero
	if x.Low != nil {
		lo = f.toBV64(f.val(x.Low))
	}
	switch t := x.X.Type().Underlying().(type) {
	case *types.Basic: // string
		hi := "(slen " + base.T + ")"
		if x.High != nil {
			hi = f.toBV64(f.val(x.High))
		}
		f.safetyObl("slice", f.srcText(x), and("(bvsle "+zero+" "+lo+")", "(bvsle "+lo+" "+hi+")", "(bvsle "+hi+" (slen "+base.T+"))"))
		c.declSubstr()
		f.defVal(x, fmt.Sprintf("(substr %s %s %s)", base.T, lo, hi))
	case *types.Slice:
		hi := "(s.len " + base.T + ")"
		if x.High != nil {
			hi = f.toBV64(f.val(x.High))
		}
		mx := "(s.cap " + base.T + ")"
		if x.Max != nil {
			mx = f.toBV64(f.val(x.Max))
		}
		f.safetyObl("slice", f.srcText(x), and("(bvsle "+zero+" "+lo+")", "(bvsle "+lo+" "+hi+")", "(bvsle "+hi+" "+mx+")", "(bvsle "+mx+" (s.cap "+base.T+"))"))
		nv := f.defVal(x, fmt.Sprintf("(mk-slice (s.arr %s) (bvadd (s.off %s) %s) (bvsub %s %s) (bvsub %s %s))", base.T, base.T, lo, hi, lo, mx, lo))
		nv.ConstLen = -1
	case *types.Pointer: // *[N]T
		arr := t.Elem().Underlying().(*types.Array)
		n := bv64(arr.Len())
		hi := n
		if x.High != nil {
			hi = f.toBV64(f.val(x.High))
		}
		f.markEscape(x.X)
		f.safetyObl("slice", f.srcText(x), and("(bvsle "+zero+" "+lo+")", "(bvsle "+lo+" "+hi+")", "(bvsle "+hi+" "+n+")"))
		nv := f.defVal(x, fmt.Sprintf("(mk-slice %s %s (bvsub %s %s) (bvsub %s %s))", base.T, lo, hi, lo, n, lo))
		if x.Low == nil && x.High == nil {
			nv.ConstLen = arr.Len()
		}
	default:
		panic("slice of " + x.X.Type().String())
	}
}

func (f *Frame) encodeLookup(x *ssa.Lookup, st *State) {
	e := f.enc
	c := e.ctx
	base := f.val(x.X)
	idx := f.val(x.Index)
	if isString(x.X.Type()) {
		c.declFun("charAt", []string{sortStr, sortBV64}, "(_ BitVec 8)")
		i64 := f.toBV64(idx)
		f.safetyObl("index", f.srcText(x), and("(bvsle #x0000000000000000 "+i64+")", "(bvslt "+i64+" (slen "+base.T+"))"))
		f.defVal(x, fmt.Sprintf("(charAt %s %s)", base.T, i64))
		return
	}
	m := x.X.Type().Underlying().(*types.Map)
	hn, hs, vn, vs := c.mapHeaps(x.X.Type())
	has := and(not(eq(base.T, "nil")), sel(sel(e.heapGet(st, hn, hs), base.T), idx.T))
	f.noteMapRead(st, base, x)
	hasT := c.define(sanitize(f.prefix)+"."+x.Name()+".has", "Bool", has)
	val := ite(hasT, sel(sel(e.heapGet(st, vn, vs), base.T), idx.T), c.zero(m.Elem()))
	if x.CommaOk {
		rv := &Val{T: c.define(sanitize(f.prefix)+"."+x.Name()+".v", c.sortOf(m.Elem()), val), Typ: m.Elem(), ConstLen: -1}
		e.assumeTypeInv(st, rv.T, m.Elem(), f.guard())
		f.vals[x] = &Val{Tup: []*Val{rv, {T: hasT, Typ: types.Typ[types.Bool], ConstLen: -1}}, Typ: x.Type(), ConstLen: -1}
		return
	}
	nv := f.defVal(x, val)
	e.assumeTypeInv(st, nv.T, m.Elem(), f.guard())
}

func (f *Frame) encodeMapUpdate(x *ssa.MapUpdate, st *State) {
	e := f.enc
	c := e.ctx
	m := f.val(x.Map)
	k := f.val(x.Key)
	v := f.val(x.Value)
	if v.T == "" {
		if v.Clo != nil || v.Fn != nil {
			v = &Val{T: c.freshConst("fnval", sortRef), Typ: v.Typ}
		} else {
			panic("map update with address value is outside the subset")
		}
	}
	f.safetyObl("nilmap", f.srcText(x), not(eq(m.T, "nil")))
	f.noteMapWrite(st, m, x)
	hn, hs, vn, vs := c.mapHeaps(x.Map.Type())
	h := e.heapGet(st, hn, hs)
	{
		mt := x.Map.Type().Underlying().(*types.Map)
		card := c.declFun(fmt.Sprintf("card$%d", c.typeID(mt)), []string{fmt.Sprintf("(Array %s Bool)", c.sortOf(mt.Key()))}, sortBV64)
		oldK := sel(h, m.T)
		newK := store(oldK, k.T, "true")
		c.assert(implies(f.guard(), eq("("+card+" "+newK+")", ite(sel(oldK, k.T), "("+card+" "+oldK+")", "(bvadd ("+card+" "+oldK+") #x0000000000000001)"))))
	}
	e.heapSet(st, hn, hs, store(h, m.T, store(sel(h, m.T), k.T, "true")))
	hv := e.heapGet(st, vn, vs)
	e.heapSet(st, vn, vs, store(hv, m.T, store(sel(hv, m.T), k.T, v.T)))
}

func (f *Frame) encodeRange(x *ssa.Range, st *State) {
	c := f.enc.ctx
	v := f.val(x.X)
	rs := &rangeState{mapVal: v}
	if m, ok := x.X.Type().Underlying().(*types.Map); ok {
		rs.isMap = true
		rs.keySort = c.sortOf(m.Key())
		rs.visited = fmt.Sprintf("((as const (Array %s Bool)) false)", rs.keySort)
	}
	f.rangeSt[x] = rs
	f.lockMapObl(v, x, false)
	f.vals[x] = &Val{T: "nil", Typ: x.Type(), ConstLen: -1}
}

// encodeNext models one step of a map (or string) iteration: the key is any
// key of the map not yet visited; ok is false exactly when none is left.
func (f *Frame) encodeNext(x *ssa.Next, st *State) {
	e := f.enc
	c := e.ctx
	r, isRange := x.Iter.(*ssa.Range)
	tup := x.Type().(*types.Tuple)
	okC := c.freshConst(sanitize(f.prefix)+"."+x.Name()+".ok", "Bool")
	kT, vT := tup.At(1).Type(), tup.At(2).Type()
	kC := &Val{T: c.freshConst(sanitize(f.prefix)+"."+x.Name()+".k", sortOrBool(c, kT)), Typ: kT, ConstLen: -1}
	vC := &Val{T: c.freshConst(sanitize(f.prefix)+"."+x.Name()+".v", sortOrBool(c, vT)), Typ: vT, ConstLen: -1}
	f.vals[x] = &Val{Tup: []*Val{{T: okC, Typ: types.Typ[types.Bool], ConstLen: -1}, kC, vC}, Typ: x.Type(), ConstLen: -1}
	if !isRange || !f.rangeSt[r].isMap {
		if isRange && isString(r.X.Type()) {
			s := f.val(r.X)
			c.assert(implies(okC, and("(bvsle #x0000000000000000 "+kC.T+")", "(bvslt "+kC.T+" (slen "+s.T+"))")))
		}
		return
	}
	rs := f.rangeSt[r]
	m := rs.mapVal
	hn, hs, vn, vs := c.mapHeaps(r.X.Type())
	keys := sel(e.heapGet(st, hn, hs), m.T)
	vals := sel(e.heapGet(st, vn, vs), m.T)
	visited := rs.visited
	if li := f.loopOf[x.Block()]; li != nil && li.mapRange == r {
		visited = li.visitedAtHeader(f)
	}
	g := f.guard()
	// ok => key is in the map and not visited, value is the stored one
	valEq := "true"
	if vT != nil && vT != types.Typ[types.Invalid] {
		valEq = eq(vC.T, sel(vals, kC.T))
	}
	c.assert(implies(and(g, okC), and(not(eq(m.T, "nil")), sel(keys, kC.T), not(sel(visited, kC.T)), valEq)))
	// !ok => every key has been visited
	c.usesQuant = true
	c.assert(implies(and(g, not(okC)), fmt.Sprintf("(forall ((k %s)) (! (=> (and (not (= %s nil)) (select %s k)) (select %s k)) :pattern ((select %s k))))", rs.keySort, m.T, keys, visited, keys)))
	if vT != nil && vT != types.Typ[types.Invalid] {
		e.assumeTypeInv(st, vC.T, vT, and(g, okC))
	}
	rs.visited = c.define("visited", fmt.Sprintf("(Array %s Bool)", rs.keySort), ite(okC, store(visited, kC.T, "true"), visited))
}

func sortOrBool(c *Ctx, t types.Type) string {
	if t == nil || t == types.Typ[types.Invalid] {
		return "Bool"
	}
	return c.sortOf(t)
}

// instrSrc returns a short source text for an instruction (for obligation names).
func instrSrc(p *Program, instr ssa.Instruction) string {
	if v, ok := instr.(ssa.Value); ok {
		return describeValue(v, 0)
	}
	switch x := instr.(type) {
	case *ssa.MapUpdate:
		return describeValue(x.Map, 0) + "[" + describeValue(x.Key, 0) + "]="
	case *ssa.Store:
		return "*" + describeValue(x.Addr, 0) + "="
	case *ssa.Panic:
		return describeValue(x.X, 0)
	}
	return instr.String()
}

// describeValue renders an SSA value as a source-like expression; it is used
// only for naming obligations and is kept independent of temporary names.
func describeValue(v ssa.Value, depth int) string {
	if depth > 6 {
		return "…"
	}
	switch x := v.(type) {
	case *ssa.Parameter:
		return x.Name()
	case *ssa.FreeVar:
		return x.Name()
	case *ssa.Global:
		return x.Name()
	case *ssa.Const:
		if x.Value == nil {
			return "nil"
		}
		s := x.Value.String()
		return trunc(s, 24)
	case *ssa.Function:
		return x.Name()
	case *ssa.FieldAddr:
		st := x.X.Type().Underlying().(*types.Pointer).Elem().Underlying().(*types.Struct)
		return describeValue(x.X, depth+1) + "." + st.Field(x.Field).Name()
	case *ssa.Field:
		st := x.X.Type().Underlying().(*types.Struct)
		return describeValue(x.X, depth+1) + "." + st.Field(x.Field).Name()
	case *ssa.IndexAddr:
		return describeValue(x.X, depth+1) + "[" + describeValue(x.Index, depth+1) + "]"
	case *ssa.Index:
		return describeValue(x.X, depth+1) + "[" + describeValue(x.Index, depth+1) + "]"
	case *ssa.Lookup:
		return describeValue(x.X, depth+1) + "[" + describeValue(x.Index, depth+1) + "]"
	case *ssa.UnOp:
		if x.Op == token.MUL {
			return describeValue(x.X, depth+1)
		}
		return x.Op.String() + describeValue(x.X, depth+1)
	case *ssa.BinOp:
		return describeValue(x.X, depth+1) + x.Op.String() + describeValue(x.Y, depth+1)
	case *ssa.Extract:
		return describeValue(x.Tuple, depth+1) + fmt.Sprintf(".%d", x.Index)
	case *ssa.Call:
		return callName(x.Common()) + "()"
	case *ssa.TypeAssert:
		return describeValue(x.X, depth+1) + ".(" + shortType(x.AssertedType.String()) + ")"
	case *ssa.MakeInterface:
		return describeValue(x.X, depth+1)
	case *ssa.ChangeType:
		return describeValue(x.X, depth+1)
	case *ssa.ChangeInterface:
		return describeValue(x.X, depth+1)
	case *ssa.Convert:
		return shortType(x.Type().String()) + "(" + describeValue(x.X, depth+1) + ")"
	case *ssa.Slice:
		return describeValue(x.X, depth+1) + "[:]"
	case *ssa.Phi:
		if x.Comment != "" {
			return x.Comment
		}
		return "phi"
	case *ssa.Alloc:
		if x.Comment != "" {
			return x.Comment
		}
		return "new"
	case *ssa.Next:
		return "range"
	case *ssa.MakeMap:
		return "make(map)"
	case *ssa.MakeSlice:
		return "make([])"
	case *ssa.MakeClosure:
		return "func"
	}
	return v.Name()
}

func callName(cc *ssa.CallCommon) string {
	if cc.IsInvoke() {
		return cc.Method.Name()
	}
	if fn := cc.StaticCallee(); fn != nil {
		return fn.Name()
	}
	if b, ok := cc.Value.(*ssa.Builtin); ok {
		return b.Name()
	}
	return "call"
}

func (c *Ctx) declSubstr() {
	c.declFun("substr", []string{sortStr, sortBV64, sortBV64}, sortStr)
	if !c.declared["ax:substr"] {
		c.declared["ax:substr"] = true
		c.assert("(forall ((s Str) (a (_ BitVec 64)) (b (_ BitVec 64))) (! (=> (and (bvsle #x0000000000000000 a) (bvsle a b) (bvsle b (slen s))) (= (slen (substr s a b)) (bvsub b a))) :pattern ((substr s a b))))")
		c.assert("(forall ((s Str)) (! (= (substr s #x0000000000000000 (slen s)) s) :pattern ((substr s #x0000000000000000 (slen s)))))")
	}
}

// recogniseIndexLoop: `for i := 0; i < bound; i++` where bound is len(x) of a value defined outside
// the loop, or a value defined outside the loop. Such a loop gets what a range loop gets: $k (the
// number of completed iterations, here i itself) and the checked invariant 0 <= i <= bound.
func recogniseIndexLoop(li *loopInfo) {
	h := li.header
	for _, ins := range h.Instrs {
		phi, ok := ins.(*ssa.Phi)
		if !ok || len(phi.Edges) != 2 {
			continue
		}
		if _, _, isInt := intInfo(phi.Type()); !isInt {
			continue
		}
		zero, step := false, false
		for _, e := range phi.Edges {
			switch x := e.(type) {
			case *ssa.Const:
				if x.Value != nil && x.Int64() == 0 {
					zero = true
				}
			case *ssa.BinOp:
				if x.Op == token.ADD && x.X == ssa.Value(phi) {
					if c, ok := x.Y.(*ssa.Const); ok && c.Value != nil && c.Int64() == 1 {
						step = true
					}
				}
			}
		}
		if !zero || !step {
			continue
		}
		// the loop condition: phi < bound, tested in the header
		for _, ins2 := range h.Instrs {
			b, ok := ins2.(*ssa.BinOp)
			if !ok || b.Op != token.LSS || b.X != ssa.Value(phi) {
				continue
			}
			outside := func(v ssa.Value) bool {
				vi, isInstr := v.(ssa.Instruction)
				return !isInstr || !li.body[vi.Block()]
			}
			if call, ok := b.Y.(*ssa.Call); ok {
				if bi, ok := call.Call.Value.(*ssa.Builtin); ok && bi.Name() == "len" && len(call.Call.Args) == 1 && outside(call.Call.Args[0]) {
					li.idxPhi, li.idxLenOf = phi, call.Call.Args[0]
					return
				}
			}
			if outside(b.Y) {
				li.idxPhi, li.idxBound = phi, b.Y
				return
			}
			// bound re-read on every iteration (len(x.f), a call): $k is still i, the checked invariant is 0 <= i only
			li.idxPhi = phi
			return
		}
	}
}
