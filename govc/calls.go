package main

// Calls: builtins, modular application of contracts, pure functions as
// uninterpreted functions, inlining of un-contracted repository helpers and
// havoc for unknown externals.

import (
	"fmt"
	"go/types"
	"os"
	"strings"

	"golang.org/x/tools/go/ssa"
)

func (e *Enc) isPurePkg(fn *ssa.Function) bool {
	p := pkgPathOf(fn)
	if r, ok := purePackages[p]; ok {
		e.usedPurePkg[p+": "+r] = true
		return true
	}
	if p == "bytes" && fn.Signature.Recv() == nil {
		// comparison / search functions of package bytes (not the Buffer / Reader methods)
		switch fn.Name() {
		case "Equal", "Compare", "Contains", "HasPrefix", "HasSuffix", "Index", "IndexByte", "LastIndex", "Count", "EqualFold", "ContainsAny", "ContainsRune":
			e.usedPurePkg["bytes: comparison and search functions read their arguments only"] = true
			return true
		}
	}
	return false
}

// purePackages: every function of these packages that has no explicit entry in
// externals.spec is treated as a deterministic function of its arguments (and
// of the heap reachable from them) that writes nothing the caller can observe.
// This is an assumption about dependencies and is listed in every evidence file.
var purePackages = map[string]string{
	"strings":                              "stdlib string functions are side-effect free",
	"strconv":                              "stdlib conversions are side-effect free",
	"unicode":                              "pure",
	"unicode/utf8":                         "pure",
	"unicode/utf16":                        "pure",
	"log/slog":                             "logging does not change program-visible state",
	"fmt":                                  "formatting reads its arguments only",
	"errors":                               "error construction is side-effect free",
	"github.com/pkg/errors":                "error construction is side-effect free",
	"math":                                 "pure",
	"time":                                 "time formatting/reading does not write program-visible state (results depending on the clock are unconstrained)",
	"reflect":                              "reflection reads only (TypeOf)",
	"net/url":                              "URL parsing is side-effect free",
	"regexp":                               "matching is side-effect free",
	"encoding/base64":                      "side-effect free",
	"github.com/evanphx/json-patch":        "DecodePatch / Patch.Apply read their inputs and return new values",
	"encoding/json":                        "Marshal reads its argument only (Unmarshal is modelled separately)",
	"github.com/go-jose/go-jose/v3/json":   "Marshal reads its argument only (Unmarshal is modelled separately)",
	"github.com/btcsuite/btcutil/base58":   "side-effect free",
	"github.com/multiformats/go-multibase": "side-effect free",
	"github.com/multiformats/go-multihash": "side-effect free",
	"crypto/elliptic":                      "curve parameter accessors are side-effect free",
	"crypto/ecdsa":                         "verification is side-effect free",
	"crypto/ed25519":                       "verification is side-effect free",
	"golang.org/x/crypto/ed25519":          "verification is side-effect free",
	"crypto":                               "hash selection is side-effect free",
	"github.com/btcsuite/btcd/btcec/v2":    "curve accessors are side-effect free",
	"github.com/decred/dcrd/dcrec/secp256k1/v4": "curve arithmetic is side-effect free",
	"math/big":                       "big.Int constructors used here return fresh values",
	repoModule + "/pkg/internal/log": "log field constructors only build slog attributes",
	repoModule + "/pkg/log":          "logger construction / level checks do not change program-visible state",
}

func (f *Frame) setResult(x ssa.Value, vals []*Val, names []string) {
	if x == nil {
		return
	}
	tup, isTup := x.Type().(*types.Tuple)
	if isTup {
		if tup.Len() == 0 {
			f.vals[x] = &Val{T: "nil", Typ: x.Type(), ConstLen: -1}
			return
		}
		f.vals[x] = &Val{Tup: vals, TupNames: names, Typ: x.Type(), ConstLen: -1}
		return
	}
	if len(vals) == 1 {
		f.vals[x] = vals[0]
	}
}

func resultTypes(sig *types.Signature) []types.Type {
	var out []types.Type
	for i := 0; i < sig.Results().Len(); i++ {
		out = append(out, sig.Results().At(i).Type())
	}
	return out
}

func (f *Frame) encodeCall(x ssa.Value, cc *ssa.CallCommon, st *State) {
	e := f.enc
	if b, ok := cc.Value.(*ssa.Builtin); ok {
		// builtins keep no reference to their arguments (what append stores was stored into the
		// variadic array before, and counted there)
		f.encodeBuiltin(x, b, cc, st)
		return
	}
	// escaping arguments
	for _, a := range cc.Args {
		f.markEscape(a)
	}
	sig := cc.Signature()
	var args []*Val
	if cc.IsInvoke() {
		recv := f.val(cc.Value)
		f.safetyObl("nil", f.srcText(f.curInstr)+" (nil interface)", not(eq(recv.T, "nilIface")))
		args = append(args, recv)
		for _, a := range cc.Args {
			args = append(args, f.argVal(a))
		}
		if f.lockCall(cc, recv) {
			f.setResult(x, nil, nil)
			return
		}
		fc := e.prog.ifaceContract(cc.Value.Type(), cc.Method.Name())
		key := ifaceKey(cc.Value.Type(), cc.Method.Name())
		if fc != nil {
			f.applyContract(x, fc, nil, key, args, resultTypes(sig), st, cc)
			return
		}
		f.unknownCall(x, key, args, resultTypes(sig), st, false)
		return
	}
	for _, a := range cc.Args {
		args = append(args, f.argVal(a))
	}
	fn := cc.StaticCallee()
	var bindings []*Val
	if fn == nil {
		cv := f.val(cc.Value)
		switch {
		case cv.Clo != nil:
			fn, bindings = cv.Clo.fn, cv.Clo.bindings
		case cv.Fn != nil:
			fn = cv.Fn
		default:
			f.safetyObl("nil", f.srcText(f.curInstr)+" (nil func)", not(eq(cv.T, "nil")))
			// a named function type may carry a contract for "calling a value of this type"
			if n, ok := cc.Value.Type().(*types.Named); ok && n.Obj().Pkg() != nil {
				k := funcKey(n.Obj().Pkg().Path(), n.Obj().Name(), "call")
				if fc := e.prog.Contracts[k]; fc != nil {
					f.applyContract(x, fc, nil, k, append([]*Val{cv}, args...), resultTypes(sig), st, cc)
					return
				}
			}
			f.unknownCall(x, "dynamic call", args, resultTypes(sig), st, false)
			return
		}
	} else if mc, ok := cc.Value.(*ssa.MakeClosure); ok {
		cv := f.val(mc)
		bindings = cv.Clo.bindings
	}
	if f.lockCallStatic(fn, cc, args) {
		f.setResult(x, nil, nil)
		return
	}
	key := keyOfFunction(fn)
	if fn.Synthetic == "package initializer" && f.fn.Synthetic == "package initializer" {
		// initialisers of imported packages cannot reference this package's
		// variables (imports are acyclic): no effect on what is verified here
		f.setResult(x, nil, nil)
		return
	}
	if jsonUnmarshalKeys[key] && f.jsonUnmarshal(x, cc, args, st) {
		return
	}
	fc := e.prog.contractFor(fn)
	if fc != nil && !fc.inlineOnly() {
		f.applyContract(x, fc, fn, key, args, resultTypes(sig), st, cc)
		return
	}
	if e.isPurePkg(fn) {
		f.pureDefault(x, fn, key, args, resultTypes(sig), st)
		return
	}
	inRepo := isRepoPkg(pkgPathOf(fn)) || (fn.Parent() != nil && isRepoPkg(pkgPathOf(fn)))
	if e.extraInline[pkgPathOf(fn)] {
		inRepo = true
	}
	if len(fn.Blocks) > 0 && inRepo && !e.sweep && f.depth < e.inlineDepthMax && !f.onStack(fn) && !e.noInline[key] {
		f.inlineCall(x, fn, args, bindings, st)
		return
	}
	if len(fn.Blocks) > 0 && bindings != nil && f.depth < e.inlineDepthMax && !f.onStack(fn) {
		f.inlineCall(x, fn, args, bindings, st)
		return
	}
	f.unknownCall(x, key, args, resultTypes(sig), st, inRepo)
}

func ifaceKey(t types.Type, method string) string {
	if n, ok := t.(*types.Named); ok {
		if n.Obj().Pkg() != nil {
			return funcKey(n.Obj().Pkg().Path(), n.Obj().Name(), method)
		}
		return funcKey("", n.Obj().Name(), method)
	}
	return "(" + t.String() + ")." + method
}

func (f *Frame) argVal(a ssa.Value) *Val {
	v := f.val(a)
	if v.T == "" && v.Addr != nil {
		// pointer to a field / element passed to a callee: represent it by an
		// opaque reference; writes through it are not tracked (callee without
		// contract havocs, callee with contract must not rely on it)
		r := f.enc.ctx.freshConst("addr", sortRef)
		f.enc.ctx.assert(not(eq(r, "nil")))
		return &Val{T: r, Typ: a.Type(), Addr: v.Addr, ConstLen: -1}
	}
	if v.T == "" && (v.Clo != nil || v.Fn != nil) {
		r := f.enc.ctx.freshConst("fnval", sortRef)
		f.enc.ctx.assert(not(eq(r, "nil")))
		nv := *v
		nv.T = r
		return &nv
	}
	return v
}

func (f *Frame) onStack(fn *ssa.Function) bool {
	for fr := f; fr != nil; fr = fr.parent {
		if fr.fn == fn {
			return true
		}
	}
	return false
}

// unknownCall: no contract and not inlined: results unconstrained, all heaps havocked.
func (f *Frame) unknownCall(x ssa.Value, key string, args []*Val, rts []types.Type, st *State, inRepo bool) {
	e := f.enc
	c := e.ctx
	e.havocAll(st)
	var vals []*Val
	for i, t := range rts {
		v := &Val{T: c.freshConst(fmt.Sprintf("unk.%s.%d", sanitize(key), i), c.sortOf(t)), Typ: t, ConstLen: -1}
		f.allocResult(st, v)
		e.assumeTypeInv(st, v.T, t, f.guard())
		vals = append(vals, v)
	}
	e.noteUnknown(key)
	if e.frameOn && e.topFC != nil && e.modGiven(e.topFC) && !e.topFC.NoFrame {
		// a call without contract may write anything: the frame cannot be established
		e.addObl(&Obligation{Name: fmt.Sprintf("%s#frame[call without contract: %s]", e.unit, shortKey(key)), Kind: "frame", Func: f.prefix, Label: "unknown-call",
			Text: "callee has no contract: its writes are unknown", Guard: f.guard(), Goal: "false", Pos: f.posOf(f.curInstr)})
	}
	f.setResult(x, vals, nil)
}

func (e *Enc) noteUnknown(key string) {
	if e.unknownCalls == nil {
		e.unknownCalls = map[string]int{}
	}
	e.unknownCalls[key]++
}

func (f *Frame) allocResult(st *State, v *Val) {
	e := f.enc
	switch v.Typ.Underlying().(type) {
	case *types.Pointer, *types.Map:
		e.heapSet(st, "alloc", "(Array Ref Bool)", store(e.allocArr(st), v.T, "true"))
	case *types.Slice:
		e.heapSet(st, "alloc", "(Array Ref Bool)", store(e.allocArr(st), "(s.arr "+v.T+")", "true"))
	}
}

// pureUF returns the i-th result of a pure function as an uninterpreted
// function of its argument values and the heap token.
func (e *Enc) pureUF(key string, i int, args []*Val, rt types.Type, tok string) string {
	c := e.ctx
	name := fmt.Sprintf("pf$%s$%d", sanitize(key), i)
	var sorts, terms []string
	heapDep := false
	for _, a := range args {
		sorts = append(sorts, c.sortOf(a.Typ))
		terms = append(terms, a.T)
		if !isValueOnly(a.Typ) {
			heapDep = true
		}
	}
	// a function of plain values (integers, strings, booleans) cannot depend on the heap
	if fc := e.prog.Contracts[key]; fc != nil && fc.Const {
		heapDep = false
	}
	if heapDep {
		sorts = append(sorts, sortTok)
		terms = append(terms, tok)
	}
	c.declFun(name, sorts, c.sortOf(rt))
	if len(terms) == 0 {
		return quoteSym(name)
	}
	return "(" + quoteSym(name) + " " + strings.Join(terms, " ") + ")"
}

// isValueOnly: values of this type carry no references into the heap.
func isValueOnly(t types.Type) bool {
	switch u := t.Underlying().(type) {
	case *types.Basic:
		return u.Kind() != types.UnsafePointer
	case *types.Struct:
		for i := 0; i < u.NumFields(); i++ {
			if !isValueOnly(u.Field(i).Type()) {
				return false
			}
		}
		return true
	case *types.Array:
		return isValueOnly(u.Elem())
	}
	return false
}

func (f *Frame) pureDefault(x ssa.Value, fn *ssa.Function, key string, args []*Val, rts []types.Type, st *State) {
	e := f.enc
	var vals []*Val
	for i, t := range rts {
		term := e.pureUF(key, i, args, t, st.tok)
		v := &Val{T: e.ctx.define("r."+sanitize(key), e.ctx.sortOf(t), term), Typ: t, ConstLen: -1}
		e.assumeTypeInv(st, v.T, t, f.guard())
		vals = append(vals, v)
	}
	f.setResult(x, vals, nil)
}

// bindParams builds the name -> value map for a callee contract.
func bindParams(fc *FuncContract, fn *ssa.Function, sig *types.Signature, args []*Val, hasRecv bool) map[string]*Val {
	vars := map[string]*Val{}
	i := 0
	if hasRecv {
		name := fc.RecvName
		if name == "" && sig != nil && sig.Recv() != nil {
			name = sig.Recv().Name()
		}
		if name != "" && len(args) > 0 {
			vars[name] = args[0]
		}
		i = 1
	}
	n := 0
	if sig != nil {
		n = sig.Params().Len()
	}
	for k := 0; k < n && i+k < len(args); k++ {
		name := sig.Params().At(k).Name()
		if k < len(fc.Params) {
			name = fc.Params[k]
		}
		if name != "" && name != "_" {
			vars[name] = args[i+k]
		}
	}
	return vars
}

func (f *Frame) applyContract(x ssa.Value, fc *FuncContract, fn *ssa.Function, key string, args []*Val, rts []types.Type, st *State, cc *ssa.CallCommon) {
	e := f.enc
	c := e.ctx
	var sig *types.Signature
	if fn != nil {
		sig = fn.Signature
	} else {
		sig = cc.Signature()
	}
	hasRecv := cc.IsInvoke() || (fn != nil && fn.Signature.Recv() != nil) || (fn == nil && !cc.IsInvoke() && len(args) == sig.Params().Len()+1)
	vars := bindParams(fc, fn, sig, args, hasRecv)
	if fn != nil {
		for i, fv := range fn.FreeVars {
			if cv := f.val(cc.Value); cv.Clo != nil && i < len(cv.Clo.bindings) {
				vars[fv.Name()] = cv.Clo.bindings[i]
			}
		}
	}
	if fc.Trusted != "" {
		e.usedTrusted[key] = fc.Trusted
	}
	e.usedContracts[key] = true
	pre := st.clone()
	env := &Env{enc: e, frame: f, vars: vars, st: pre, old: pre, res: e.prog.resolver(fc.PkgPath, e.importsFor(fc)), fc: fc}
	// lets over the pre-state, then requires
	for _, l := range fc.Lets {
		if letUsesResults(l, fc) {
			continue
		}
		if err := env.bindLet(l); err != nil {
			e.errorf("%s: let in contract of %s: %v", f.prefix, key, err)
		}
	}
	var reqs []string
	for _, r := range fc.Requires {
		g, err := env.evalBool(r.E)
		if err != nil {
			e.errorf("%s: requires of %s: %v", f.prefix, key, err)
			continue
		}
		reqs = append(reqs, g)
		e.addObl(&Obligation{Name: fmt.Sprintf("%s#requires@call[%s][%s]", f.prefix, shortKey(key), clauseLabel(r)), Kind: "requires", Func: f.prefix,
			Label: clauseLabel(r), Text: r.Text, Guard: f.guard(), Goal: g, Pos: f.posOf(f.curInstr)})
	}
	reqAll := and(reqs...)
	// results
	names := fc.Results
	var vals []*Val
	for i, t := range rts {
		var term string
		if fc.Pure {
			term = e.pureUF(key, i, args, t, st.tok)
			term = c.define("r."+sanitize(shortKey(key)), c.sortOf(t), term)
		} else {
			term = c.freshConst("r."+sanitize(shortKey(key)), c.sortOf(t))
		}
		vals = append(vals, &Val{T: term, Typ: t, ConstLen: -1})
	}
	// frame of the callee
	if !fc.Pure {
		if fc.NoFrame || !f.enc.modGiven(fc) {
			e.havocAll(st)
		} else if len(fc.Modifies) > 0 {
			for _, m := range fc.Modifies {
				if err := f.havocModifies(m, env, st); err != nil {
					e.errorf("%s: modifies of %s: %v", f.prefix, key, err)
					e.havocAll(st)
				}
			}
			e.bumpTok(st)
		} else if fc.ModGhost {
			e.bumpTok(st)
		}
	}
	post := &Env{enc: e, frame: f, vars: map[string]*Val{}, st: st, old: pre, res: env.res, fc: fc}
	for k, v := range env.vars {
		post.vars[k] = v
	}
	for i, v := range vals {
		if i < len(names) {
			post.vars[names[i]] = v
		}
	}
	for _, l := range fc.Lets {
		if !letUsesResults(l, fc) {
			continue
		}
		if err := post.bindLet(l); err != nil {
			e.errorf("%s: let in contract of %s: %v", f.prefix, key, err)
		}
	}
	guard := and(f.guard(), reqAll)
	// a pure function whose contract promises a fresh result is modelled as memoising: two calls
	// with the same arguments in the same state denote the same term, so the result is either new
	// or the result of such an earlier call (ghost set ponce). A result handed out twice is marked
	// shared (ghost set pshared) and may not be written (memo[...] obligations) -- without writes the
	// memoising program cannot be told from the real one.
	skipFresh := false
	memo := fc.Pure && fc.freshResults() != nil
	var preShared, preAllocT string
	mk := memoKeyOf(fc)
	once := memo && e.memoCount[mk] == 1 // the only site, executed at most once: the result is new
	if once {
		memo = false
	}
	if memo {
		preShared, preAllocT = e.memoHeap(pre, "pshared"), e.allocArr(pre)
		post.memoFresh = &memoInfo{key: mk, args: args, tok: pre.tok}
	}
	mentionsFresh := false
	for _, en := range fc.Ensures {
		if e.topFC != nil && e.topFC.hides(key, en.Label) {
			continue
		}
		if exprCalls(en.E, "fresh") {
			if skipFresh {
				continue
			}
			mentionsFresh = true
		}
		g, err := post.evalBool(en.E)
		if err != nil {
			e.errorf("%s: ensures of %s: %v", f.prefix, key, err)
			continue
		}
		c.assert(implies(guard, g))
	}
	for _, v := range vals {
		if !fc.Pure || mentionsFresh {
			f.allocResult(st, v)
		}
		e.assumeTypeInv(st, v.T, v.Typ, f.guard())
	}
	if once {
		for i, n := range names {
			if fc.freshResults()[n] && i < len(vals) {
				if r := refOf(vals[i].T, vals[i].Typ); r != "" {
					c.assert(implies(guard, or(eq(r, "nil"), c.memoBorn(r))))
					if e.memoUsed {
						c.assert(implies(guard, not(sel(e.memoHeap(pre, "pshared"), r))))
					}
				}
			}
		}
	}
	if memo {
		for i, n := range names {
			if !fc.freshResults()[n] || i >= len(vals) {
				continue
			}
			r := refOf(vals[i].T, vals[i].Typ)
			if r == "" {
				continue
			}
			c.assert(implies(guard, or(eq(r, "nil"), c.memoBorn(r))))
			c.assert(implies(guard, or(eq(r, "nil"), eq("(rtag "+r+")", c.rtagID(c.refHeap(vals[i].Typ))))))
			once, shared := e.memoHeap(st, "ponce$"+mk), e.memoHeap(st, "pshared")
			e.heapSet(st, "pshared", "(Array Ref Bool)", store(shared, r, and(not(eq(r, "nil")), or(sel(preShared, r), sel(preAllocT, r)))))
			e.heapSet(st, "ponce$"+mk, "(Array Ref Bool)", store(once, r, "true"))
			ts := "(Array Ref " + sortTok + ")"
			e.heapSet(st, "pbt$"+mk, ts, store(e.heapGet(st, "pbt$"+mk, ts), r, pre.tok))
			for j, a := range args {
				as := "(Array Ref " + c.sortOf(a.Typ) + ")"
				n := fmt.Sprintf("pba$%s$%d", mk, j)
				e.heapSet(st, n, as, store(e.heapGet(st, n, as), r, a.T))
			}
		}
	}
	if call, ok := x.(*ssa.Call); ok && (mentionsFresh || (!fc.Pure && fc.freshResults() != nil)) && !skipFresh {
		fr := map[int]bool{}
		for i, n := range names {
			if fc.freshResults()[n] {
				fr[i] = true
			}
		}
		freshCalls[call] = fr
	}
	if os.Getenv("GOVC_AUDIT") != "" {
		// audit (not part of any check): is a non-nil / non-empty result of this call possible at all?
		// An unreachable one means the assumptions force the result to nil -- a sign of partial vacuity.
		for i, v := range vals {
			r := refOf(v.T, v.Typ)
			if r == "" {
				continue
			}
			e.addObl(&Obligation{Name: fmt.Sprintf("%s#cover.soft[result %d of %s is non-nil]", f.prefix, i, shortKey(key)), Kind: "cover.soft", Func: f.prefix,
				Guard: and(f.guard(), not(eq(r, "nil"))), Goal: "false", IsCover: true, Text: "non-nil result possible", Pos: f.posOf(f.curInstr)})
			if _, isSl := v.Typ.Underlying().(*types.Slice); isSl {
				e.addObl(&Obligation{Name: fmt.Sprintf("%s#cover.soft[result %d of %s is non-empty]", f.prefix, i, shortKey(key)), Kind: "cover.soft", Func: f.prefix,
					Guard: and(f.guard(), "(bvsgt (s.len "+v.T+") #x0000000000000001)"), Goal: "false", IsCover: true, Text: "result with two elements possible", Pos: f.posOf(f.curInstr)})
			}
		}
	}
	f.setResult(x, vals, names)
}

// freshResults lists the result names the contract promises to be fresh.
func (fc *FuncContract) freshResults() map[string]bool {
	var out map[string]bool
	var walk func(e *Expr)
	walk = func(e *Expr) {
		if e == nil {
			return
		}
		if e.Op == "call" && e.Args[0].Op == "id" && e.Args[0].Name == "fresh" && len(e.Args) == 2 && e.Args[1].Op == "id" {
			if out == nil {
				out = map[string]bool{}
			}
			out[e.Args[1].Name] = true
		}
		for _, a := range e.Args {
			walk(a)
		}
	}
	for _, en := range fc.Ensures {
		walk(en.E)
	}
	return out
}

func exprCalls(e *Expr, name string) bool {
	if e == nil {
		return false
	}
	if e.Op == "call" && e.Args[0].Op == "id" && e.Args[0].Name == name {
		return true
	}
	for _, a := range e.Args {
		if exprCalls(a, name) {
			return true
		}
	}
	return false
}

func shortKey(k string) string {
	return strings.TrimPrefix(k, repoModule+"/pkg/")
}

func (e *Enc) importsFor(fc *FuncContract) map[string]string {
	for _, cf := range e.prog.CFiles {
		if cf.Path == fc.File {
			return cf.Imports
		}
	}
	return nil
}

// havocModifies replaces the part of the heap named by a modifies expression
// with unknown contents.
func (f *Frame) havocModifies(m *Expr, env *Env, st *State) error {
	e := f.enc
	c := e.ctx
	if m.Op != "call" || m.Args[0].Op != "id" || len(m.Args) != 2 {
		return fmt.Errorf("unsupported modifies form %s", m)
	}
	if m.Args[0].Name == "global" {
		g := e.globalNamed(env.fc.PkgPath, m.Args[1])
		if g == nil {
			return fmt.Errorf("modifies global(%s): no such package-level variable", m.Args[1])
		}
		gv := f.val(g)
		pt := g.Type().Underlying().(*types.Pointer)
		n, s := c.cellHeap(pt.Elem())
		e.heapSet(st, n, s, store(e.heapGet(st, n, s), gv.T, c.freshConst("havoc.cell", c.sortOf(pt.Elem()))))
		f.frameObl(gv.T, "call modifies global("+m.Args[1].String()+")", f.curInstr, n)
		return nil
	}
	v, err := env.eval(m.Args[1])
	if err != nil {
		return err
	}
	switch m.Args[0].Name {
	case "mapcontent":
		mt, ok := v.Typ.Underlying().(*types.Map)
		if !ok {
			return fmt.Errorf("mapcontent of non-map")
		}
		hn, hs, vn, vs := c.mapHeaps(v.Typ)
		h := e.heapGet(st, hn, hs)
		e.heapSet(st, hn, hs, store(h, v.T, c.freshConst("havoc.keys", fmt.Sprintf("(Array %s Bool)", c.sortOf(mt.Key())))))
		hv := e.heapGet(st, vn, vs)
		e.heapSet(st, vn, vs, store(hv, v.T, c.freshConst("havoc.vals", fmt.Sprintf("(Array %s %s)", c.sortOf(mt.Key()), c.sortOf(mt.Elem())))))
		f.frameObl(v.T, "call modifies mapcontent("+m.Args[1].String()+")", f.curInstr, hn)
	case "deref":
		pt, ok := v.Typ.Underlying().(*types.Pointer)
		if !ok {
			return fmt.Errorf("deref of non-pointer")
		}
		n, s := c.cellHeap(pt.Elem())
		e.heapSet(st, n, s, store(e.heapGet(st, n, s), v.T, c.freshConst("havoc.cell", c.sortOf(pt.Elem()))))
		f.frameObl(v.T, "call modifies deref("+m.Args[1].String()+")", f.curInstr, n)
	case "elems":
		sl, ok := v.Typ.Underlying().(*types.Slice)
		if !ok {
			return fmt.Errorf("elems of non-slice")
		}
		n, s := c.elemHeap(sl.Elem())
		e.heapSet(st, n, s, store(e.heapGet(st, n, s), "(s.arr "+v.T+")", c.freshConst("havoc.elems", fmt.Sprintf("(Array (_ BitVec 64) %s)", c.sortOf(sl.Elem())))))
		f.frameObl("(s.arr "+v.T+")", "call modifies elems("+m.Args[1].String()+")", f.curInstr, c.refHeap(v.Typ))
	default:
		return fmt.Errorf("unsupported modifies form %s", m)
	}
	return nil
}

func (f *Frame) inlineCall(x ssa.Value, fn *ssa.Function, args []*Val, bindings []*Val, st *State) {
	e := f.enc
	e.inlineSeq++
	callee := e.newFrame(fn, f, fmt.Sprintf("%s>%s", f.prefix, fn.Name()))
	callee.contract = e.prog.contractFor(fn)
	callee.callSite = f.curInstr
	if len(args) != len(fn.Params) {
		panic(fmt.Sprintf("inline %s: %d args for %d params", fn, len(args), len(fn.Params)))
	}
	for i, p := range fn.Params {
		callee.vals[p] = args[i]
		callee.params[p.Name()] = args[i]
	}
	for i, fv := range fn.FreeVars {
		if i < len(bindings) {
			callee.vals[fv] = bindings[i]
			callee.params[fv.Name()] = bindings[i]
		}
	}
	e.inlined[keyOfFunction(fn)] = true
	results, exitSt, exitReach := callee.encodeBody(f.guard(), st)
	*st = *exitSt
	f.reach[f.curBlock] = exitReach
	f.setResult(x, results, nil)
}

// ---------------------------------------------------------------------------
// builtins

func (f *Frame) encodeBuiltin(x ssa.Value, b *ssa.Builtin, cc *ssa.CallCommon, st *State) {
	e := f.enc
	c := e.ctx
	switch b.Name() {
	case "len", "cap":
		a := f.val(cc.Args[0])
		switch t := cc.Args[0].Type().Underlying().(type) {
		case *types.Basic:
			f.defVal(x, "(slen "+a.T+")")
		case *types.Slice:
			if b.Name() == "len" {
				f.defVal(x, "(s.len "+a.T+")")
			} else {
				f.defVal(x, "(s.cap "+a.T+")")
			}
		case *types.Map:
			hn, hs, _, _ := c.mapHeaps(cc.Args[0].Type())
			c.declFun(fmt.Sprintf("card$%d", c.typeID(t)), []string{fmt.Sprintf("(Array %s Bool)", c.sortOf(t.Key()))}, sortBV64)
			keys := sel(e.heapGet(st, hn, hs), a.T)
			card := fmt.Sprintf("(card$%d %s)", c.typeID(t), keys)
			term := ite(eq(a.T, "nil"), "#x0000000000000000", card)
			nv := f.defVal(x, term)
			empty := fmt.Sprintf("((as const (Array %s Bool)) false)", c.sortOf(t.Key()))
			c.assert(and("(bvsle #x0000000000000000 "+nv.T+")", implies(and(not(eq(a.T, "nil")), eq(keys, empty)), eq(nv.T, "#x0000000000000000"))))
			// len == 0 => no key present
			c.usesQuant = true
			c.assert(implies(and(not(eq(a.T, "nil")), eq(nv.T, "#x0000000000000000")), fmt.Sprintf("(forall ((k %s)) (! (not (select %s k)) :pattern ((select %s k))))", c.sortOf(t.Key()), keys, keys)))
		case *types.Pointer: // *[N]T
			f.defVal(x, bv64(t.Elem().Underlying().(*types.Array).Len()))
		case *types.Array:
			f.defVal(x, bv64(t.Len()))
		default:
			panic("len of " + t.String())
		}
	case "append":
		f.encodeAppend(x, cc, st)
	case "copy":
		dst, src := f.val(cc.Args[0]), f.val(cc.Args[1])
		et := cc.Args[0].Type().Underlying().(*types.Slice).Elem()
		n, s := c.elemHeap(et)
		var srcLen string
		if isString(cc.Args[1].Type()) {
			srcLen = "(slen " + src.T + ")"
		} else {
			srcLen = "(s.len " + src.T + ")"
		}
		cnt := ite("(bvslt (s.len "+dst.T+") "+srcLen+")", "(s.len "+dst.T+")", srcLen)
		nv := f.defVal(x, cnt)
		h := e.heapGet(st, n, s)
		na := c.freshConst("copy.arr", fmt.Sprintf("(Array (_ BitVec 64) %s)", c.sortOf(et)))
		// positions outside the copied window keep their value; copied positions equal the source
		c.usesQuant = true
		old := sel(h, "(s.arr "+dst.T+")")
		c.assert(fmt.Sprintf("(forall ((i (_ BitVec 64))) (! (=> (not (and (bvsle (s.off %s) i) (bvslt i (bvadd (s.off %s) %s)))) (= (select %s i) (select %s i))) :pattern ((select %s i))))", dst.T, dst.T, nv.T, na, old, na))
		if !isString(cc.Args[1].Type()) {
			srcA := sel(h, "(s.arr "+src.T+")")
			c.assert(fmt.Sprintf("(forall ((i (_ BitVec 64))) (! (=> (and (bvsle #x0000000000000000 i) (bvslt i %s)) (= (select %s (bvadd (s.off %s) i)) (select %s (bvadd (s.off %s) i)))) :pattern ((select %s (bvadd (s.off %s) i)))))", nv.T, na, dst.T, srcA, src.T, na, dst.T))
		}
		f.noteRawWrite(st, "(s.arr "+dst.T+")", "copy("+describeValue(cc.Args[0], 0)+")", cc.Args[0])
		e.heapSet(st, n, s, store(h, "(s.arr "+dst.T+")", na))
	case "delete":
		m, k := f.val(cc.Args[0]), f.val(cc.Args[1])
		hn, hs, _, _ := c.mapHeaps(cc.Args[0].Type())
		h := e.heapGet(st, hn, hs)
		f.noteRawWrite(st, m.T, "delete("+describeValue(cc.Args[0], 0)+")", cc.Args[0])
		// delete on a nil map is a no-op
		e.heapSet(st, hn, hs, ite(eq(m.T, "nil"), h, store(h, m.T, store(sel(h, m.T), k.T, "false"))))
	case "panic":
		f.safetyObl("panic", "panic()", "false")
		f.reach[f.curBlock] = "false"
	case "print", "println":
	case "recover":
		if x != nil {
			f.defVal(x, c.freshConst("recovered", sortIface))
		}
	case "min", "max":
		a, bb := f.val(cc.Args[0]), f.val(cc.Args[1])
		_, signed, _ := intInfo(x.Type())
		lt := "bvult"
		if signed {
			lt = "bvslt"
		}
		if b.Name() == "min" {
			f.defVal(x, ite("("+lt+" "+a.T+" "+bb.T+")", a.T, bb.T))
		} else {
			f.defVal(x, ite("("+lt+" "+a.T+" "+bb.T+")", bb.T, a.T))
		}
	default:
		panic("unsupported builtin " + b.Name())
	}
}

func (f *Frame) noteRawWrite(st *State, base, what string, target ssa.Value) {
	fresh := false
	if r := rootAlloc(target); r != nil && !f.hasEscaped(r) && valueParent(r) == f.fn {
		fresh = true
	}
	if !fresh {
		f.enc.bumpTok(st)
	}
	f.frameObl(base, what, f.curInstr, f.enc.ctx.refHeap(target.Type()))
	f.ownObl(base, what, f.curInstr, false)
}

// encodeAppend models append(s, t...): in place when the capacity suffices,
// otherwise into a fresh backing array.
func (f *Frame) encodeAppend(x ssa.Value, cc *ssa.CallCommon, st *State) {
	e := f.enc
	c := e.ctx
	s := f.val(cc.Args[0])
	t := f.val(cc.Args[1])
	et := cc.Args[0].Type().Underlying().(*types.Slice).Elem()
	es := c.sortOf(et)
	arrSort := fmt.Sprintf("(Array (_ BitVec 64) %s)", es)
	n, hs := c.elemHeap(et)
	h := e.heapGet(st, n, hs)
	var tlen string
	tIsStr := isString(cc.Args[1].Type())
	if tIsStr {
		tlen = "(slen " + t.T + ")"
	} else {
		tlen = "(s.len " + t.T + ")"
	}
	newLen := c.define("app.len", sortBV64, "(bvadd (s.len "+s.T+") "+tlen+")")
	inPlace := c.define("app.inplace", "Bool", "(bvsle "+newLen+" (s.cap "+s.T+"))")
	// appending nothing returns the slice unchanged (and allocates nothing)
	fr := c.freshConst("app.arr", sortRef)
	al := e.allocArr(st)
	c.assert(fmt.Sprintf("(and (not (= %s nil)) (not (select %s %s)))", fr, al, fr))
	e.heapInit("alloc", "(Array Ref Bool)", 0)
	if al != "alloc!0" {
		c.assert(fmt.Sprintf("(not (select alloc!0 %s))", fr))
	}
	e.notShared(st, fr)
	e.heapSet(st, "alloc", "(Array Ref Bool)", store(al, fr, "true"))
	newCap := c.freshConst("app.cap", sortBV64)
	c.assert(and("(bvsle "+newLen+" "+newCap+")", "(bvslt "+newCap+" #x0000100000000000)"))
	resArr := ite(inPlace, "(s.arr "+s.T+")", fr)
	resOff := ite(inPlace, "(s.off "+s.T+")", "#x0000000000000000")
	resCap := ite(inPlace, "(s.cap "+s.T+")", newCap)
	res := f.defVal(x, fmt.Sprintf("(mk-slice %s %s %s %s)", resArr, resOff, newLen, resCap))
	res.ConstLen = -1
	// contents
	oldA := sel(h, "(s.arr "+s.T+")")
	var newA string
	if t.ConstLen >= 0 && t.ConstLen <= 8 && !tIsStr {
		// base: in place = old array, otherwise a copy of the prefix
		cp := c.freshConst("app.copy", arrSort)
		c.usesQuant = true
		c.assert(fmt.Sprintf("(forall ((i (_ BitVec 64))) (! (=> (and (bvsle #x0000000000000000 i) (bvslt i (s.len %s))) (= (select %s i) (select %s (bvadd (s.off %s) i)))) :pattern ((select %s i))))", s.T, cp, oldA, s.T, cp))
		newA = ite(inPlace, oldA, cp)
		tA := sel(h, "(s.arr "+t.T+")")
		for k := int64(0); k < t.ConstLen; k++ {
			pos := fmt.Sprintf("(bvadd %s (bvadd (s.len %s) %s))", resOff, s.T, bv64(k))
			newA = store(newA, pos, sel(tA, "(bvadd (s.off "+t.T+") "+bv64(k)+")"))
		}
	} else {
		na := c.freshConst("app.new", arrSort)
		c.usesQuant = true
		// prefix preserved
		c.assert(fmt.Sprintf("(forall ((i (_ BitVec 64))) (! (=> (and (bvsle #x0000000000000000 i) (bvslt i (s.len %s))) (= (select %s (bvadd %s i)) (select %s (bvadd (s.off %s) i)))) :pattern ((select %s (bvadd %s i)))))", s.T, na, resOff, oldA, s.T, na, resOff))
		if !tIsStr {
			tA := sel(h, "(s.arr "+t.T+")")
			c.assert(fmt.Sprintf("(forall ((i (_ BitVec 64))) (! (=> (and (bvsle #x0000000000000000 i) (bvslt i %s)) (= (select %s (bvadd %s (bvadd (s.len %s) i))) (select %s (bvadd (s.off %s) i)))) :pattern ((select %s (bvadd %s (bvadd (s.len %s) i))))))", tlen, na, resOff, s.T, tA, t.T, na, resOff, s.T))
		}
		// in place: everything outside the appended window unchanged
		c.assert(implies(inPlace, fmt.Sprintf("(forall ((i (_ BitVec 64))) (! (=> (not (and (bvsle (bvadd (s.off %s) (s.len %s)) i) (bvslt i (bvadd (s.off %s) %s)))) (= (select %s i) (select %s i))) :pattern ((select %s i))))", s.T, s.T, s.T, newLen, na, oldA, na)))
		newA = na
	}
	// the write into the existing backing array (only when in place and something is appended)
	wr := and(inPlace, not(eq(tlen, "#x0000000000000000")))
	if f.enc.frameOn || f.enc.lockset {
		save := f.reach[f.curBlock]
		f.reach[f.curBlock] = and(save, wr)
		f.noteRawWrite(st, "(s.arr "+s.T+")", "append("+describeValue(cc.Args[0], 0)+")", cc.Args[0])
		f.reach[f.curBlock] = save
	} else if r := rootAlloc(cc.Args[0]); r == nil || f.hasEscaped(r) || valueParent(r) != f.fn {
		f.enc.bumpTok(st)
	}
	e.heapSet(st, n, hs, store(h, resArr, newA))
}

// ---------------------------------------------------------------------------
// defer

type deferred struct {
	call *ssa.Defer
}

func (f *Frame) encodeDefer(x *ssa.Defer, st *State) {
	f.defers = append(f.defers, x)
}

func (f *Frame) runDefers(st *State) {
	for i := len(f.defers) - 1; i >= 0; i-- {
		d := f.defers[i]
		cc := d.Common()
		// a deferred closure that only recovers is a panic barrier; its body is
		// encoded like a call (it may assign named results)
		save := f.curInstr
		f.curInstr = d
		f.encodeCall(nil, cc, st)
		f.curInstr = save
	}
}

// globalNamed resolves `name` or `"pkg/path".name` to a package-level variable.
func (e *Enc) globalNamed(pkgPath string, x *Expr) *ssa.Global {
	name := x.Name
	if x.Op != "id" {
		return nil
	}
	for _, p := range e.prog.SSA.AllPackages() {
		if p.Pkg.Path() == pkgPath {
			if g, ok := p.Members[name].(*ssa.Global); ok {
				return g
			}
		}
	}
	return nil
}

// hides: does this contract ask not to assume the callee's postcondition with that label?
func (fc *FuncContract) hides(calleeKey, label string) bool {
	for name, labels := range fc.Hide {
		if !strings.HasSuffix(calleeKey, name) {
			continue
		}
		for _, l := range labels {
			if l == "*" || l == label {
				return true
			}
		}
	}
	return false
}

// memoSites counts, per memoising function (a pure function whose contract promises a fresh
// result), the call sites the verified unit can execute -- through helpers that are inlined, with a
// site inside a loop or a closure counted as many. A function with one site is called at most once
// per activation, so its result is simply new; only the others need the memoisation ghost state.
func (p *Program) memoSites(fn *ssa.Function, inLoop bool, stack map[*ssa.Function]bool, depth int, out map[string]int) {
	if fn == nil || stack[fn] || depth > 8 {
		return
	}
	stack[fn] = true
	defer delete(stack, fn)
	cyc := blocksOnCycles(fn)
	for _, b := range fn.Blocks {
		many := inLoop || cyc[b]
		for _, ins := range b.Instrs {
			ci, ok := ins.(ssa.CallInstruction)
			if !ok {
				continue
			}
			cc := ci.Common()
			note := func(fc *FuncContract) {
				if fc != nil && fc.Pure && fc.freshResults() != nil {
					out[memoKeyOf(fc)]++
					if many {
						out[memoKeyOf(fc)]++
					}
				}
			}
			if callee := cc.StaticCallee(); callee != nil {
				if fc := p.contractFor(callee); fc != nil && !fc.inlineOnly() {
					note(fc)
					continue
				}
				p.memoSites(callee, many, stack, depth+1, out)
			} else if cc.IsInvoke() {
				note(p.ifaceContract(cc.Value.Type(), cc.Method.Name()))
			}
		}
	}
	for _, an := range fn.AnonFuncs {
		p.memoSites(an, true, stack, depth+1, out)
	}
}

// blocksOnCycles: the blocks of fn that lie on a cycle of its control-flow graph.
func blocksOnCycles(fn *ssa.Function) map[*ssa.BasicBlock]bool {
	out := map[*ssa.BasicBlock]bool{}
	for _, b := range fn.Blocks {
		seen := map[*ssa.BasicBlock]bool{}
		stack := append([]*ssa.BasicBlock{}, b.Succs...)
		for len(stack) > 0 && !out[b] {
			x := stack[len(stack)-1]
			stack = stack[:len(stack)-1]
			if x == b {
				out[b] = true
				break
			}
			if seen[x] {
				continue
			}
			seen[x] = true
			stack = append(stack, x.Succs...)
		}
	}
	return out
}

// memoKeyOf names the ghost sets of a memoising function.
func memoKeyOf(fc *FuncContract) string {
	pk := fc.PkgPath
	if i := strings.LastIndex(pk, "/"); i >= 0 {
		pk = pk[i+1:]
	}
	return sanitize(fmt.Sprintf("%s.%s.%s@%d", pk, fc.Recv, fc.Name, fc.Line))
}
