package main

// Verification units: a function against its contract, a lemma over contracts,
// a zero-annotation safety sweep of a function.

import (
	"fmt"
	"go/types"
	"os"
	"path/filepath"
	"runtime/debug"
	"sort"
	"strings"

	"golang.org/x/tools/go/ssa"
)

type Unit struct {
	Key      string
	Kind     string // func lemma sweep
	Enc      *Enc
	Err      string // binding / subset failure
	Status   string
	Contract *FuncContract
}

func (p *Program) newEncFor(key string) *Enc {
	e := newEnc(p, shortKey(key))
	e.extraInline = map[string]bool{}
	e.usedContracts = map[string]bool{}
	e.inlined = map[string]bool{}
	return e
}

// verifyFunc encodes one function under contract and returns its obligations.
func (p *Program) verifyFunc(key string, mode string) (u *Unit) {
	u = &Unit{Key: key, Kind: "func"}
	fn := p.findFunc(key)
	fc := p.Contracts[key]
	if fc == nil && fn != nil && fn.Synthetic == "package initializer" && len(p.Globals[pkgPathOf(fn)]) > 0 {
		fc = &FuncContract{PkgPath: pkgPathOf(fn), Name: "init", File: "global invariants of " + shortKey(pkgPathOf(fn))}
	}
	if fc == nil && mode == "own" && fn != nil {
		// ownership default: the operation writes nothing that existed before the call
		fc = &FuncContract{PkgPath: pkgPathOf(fn), Name: fn.Name(), ModGiven: true, File: "default ownership frame (modifies nothing)"}
	}
	u.Contract = fc
	if fn == nil {
		u.Err = fmt.Sprintf("function %s not found in the current tree (contract cannot bind)", key)
		return u
	}
	if len(fn.Blocks) == 0 {
		u.Err = fmt.Sprintf("function %s has no body", key)
		return u
	}
	e := p.newEncFor(key)
	u.Enc = e
	e.topFC = fc
	if mode == "safety" || mode == "safety-auto" {
		u.Kind = "sweep"
	}
	if mode == "nosafety" {
		e.safety = false
	}
	if mode == "own" {
		u.Kind = "own"
		e.lockset = true
		e.safety = false
	}
	if fc != nil && e.modGiven(fc) && !fc.NoFrame {
		e.frameOn = true
	}
	defer func() {
		if r := recover(); r != nil {
			msg := fmt.Sprint(r)
			if !strings.Contains(msg, "outside the subset") && !strings.Contains(msg, "unsupported") {
				msg += "\n" + string(debug.Stack())
			}
			u.Err = "encoding failed: " + msg
		}
	}()
	f := e.newFrame(fn, nil, shortKey(key))
	f.contract = fc
	e.topFrame = f
	st := e.newState()
	e.heapInit("alloc", "(Array Ref Bool)", 0)
	e.memoCount = map[string]int{}
	e.prog.memoSites(fn, false, map[*ssa.Function]bool{}, 0, e.memoCount)
	for _, n := range e.memoCount {
		if n > 1 {
			e.memoUsed = true
		}
	}
	if fc != nil {
		for _, cl := range fc.Invs {
			if strings.Contains(cl.Text, "built(") {
				e.memoUsed = true
			}
		}
	}
	c := e.ctx
	bind := func(v ssa.Value, name string) {
		t := v.Type()
		val := &Val{T: c.declConst("p."+name, c.sortOf(t)), Typ: t, ConstLen: -1}
		f.vals[v] = val
		f.params[name] = val
		e.assumeTypeInv(st, val.T, t, "true")
	}
	hasRecv := fn.Signature.Recv() != nil
	for i, prm := range fn.Params {
		name := prm.Name()
		if fc != nil {
			if hasRecv && i == 0 {
				if fc.RecvName != "" {
					name = fc.RecvName
				}
			} else {
				k := i
				if hasRecv {
					k--
				}
				if k < len(fc.Params) {
					name = fc.Params[k]
				}
			}
		}
		if name == "_" || name == "" {
			name = fmt.Sprintf("arg%d", i)
		}
		bind(prm, name)
	}
	for _, fv := range fn.FreeVars {
		bind(fv, fv.Name())
	}
	if mode == "safety-auto" && hasRecv && len(fn.Params) > 0 {
		// objects are built by constructors: a method is not called on a nil receiver
		if rv := f.vals[fn.Params[0]]; rv != nil && c.sortOf(fn.Params[0].Type()) == sortRef {
			c.assert(not(eq(rv.T, "nil")))
		}
	}
	if fn.Synthetic == "package initializer" {
		// the initialiser body runs exactly once: its guard is false on entry
		if g, ok := fn.Pkg.Members["init$guard"].(*ssa.Global); ok {
			gv := f.val(g)
			a := e.addrOfPointer(gv)
			c.assert(not(e.load(st, a)))
		}
		for _, v := range p.globalsReadonlyViolations(pkgPathOf(fn)) {
			e.addObl(&Obligation{Name: shortKey(key) + "#readonly[" + v + "]", Kind: "table", Func: shortKey(key), Guard: "true", Goal: "false", Text: "package-level table is written outside the initialiser: " + v})
		}
		e.addObl(&Obligation{Name: shortKey(key) + "#readonly[scan]", Kind: "table", Func: shortKey(key), Guard: "true", Goal: "true", Text: "package-level variables named in global invariants are only assigned by the initialiser"})
	}
	// preconditions (lets that do not mention results are bound first)
	env := f.funcEnv(st, st)
	preLets := map[string]*Val{}
	if fc != nil {
		for _, l := range fc.Lets {
			if letUsesResults(l, fc) {
				continue
			}
			if err := env.bindLet(l); err != nil {
				u.Err = fmt.Sprintf("let %q: %v", l.Text, err)
				return u
			}
			for _, n := range l.Names {
				if v, ok := env.vars[n]; ok {
					preLets[n] = v
				}
			}
		}
		f.lets = preLets
		for _, r := range fc.Requires {
			g, err := env.evalBool(r.E)
			if err != nil {
				u.Err = fmt.Sprintf("requires %q: %v", r.Text, err)
				return u
			}
			c.assert(g)
		}
	}
	refd := referencedGlobals(fn, 3, map[*ssa.Function]bool{})
	// invariants about the referenced variables, and (transitively) about the
	// variables those invariants mention
	useInv := map[*Clause]bool{}
	for changed := true; changed; {
		changed = false
		for _, g := range p.Globals[pkgPathOf(fn)] {
			if useInv[g] {
				continue
			}
			for n := range refd {
				if exprMentions(g.E, n) {
					useInv[g] = true
					changed = true
					for _, m := range p.ByPath[pkgPathOf(fn)].Types.Scope().Names() {
						if exprMentions(g.E, m) {
							refd[m] = true
						}
					}
					break
				}
			}
		}
	}
	for _, g := range p.Globals[pkgPathOf(fn)] {
		if fn.Name() == "init" {
			break
		}
		if !useInv[g] {
			continue
		}
		ge := &Env{enc: e, frame: f, vars: map[string]*Val{}, st: st, old: st, res: p.resolver(pkgPathOf(fn), nil)}
		t, err := ge.evalBool(g.E)
		if err != nil {
			u.Err = fmt.Sprintf("global invariant %q: %v", g.Text, err)
			return u
		}
		c.assert(t)
		e.usedGlobals = append(e.usedGlobals, g.Text)
	}
	results, exitSt, exitReach := f.encodeBody("true", st)
	if len(e.errs) > 0 {
		u.Err = strings.Join(e.errs, "; ")
		return u
	}
	// postconditions
	if fc != nil {
		post := f.funcEnv(exitSt, st)
		for i, r := range results {
			if i < len(fc.Results) {
				post.vars[fc.Results[i]] = r
			}
		}
		for n, v := range preLets {
			post.vars[n] = v
		}
		for _, l := range fc.Lets {
			if !letUsesResults(l, fc) {
				continue
			}
			if err := post.bindLet(l); err != nil {
				u.Err = fmt.Sprintf("let %q: %v", l.Text, err)
				return u
			}
		}
		ens := fc.Ensures
		if fn.Name() == "init" {
			for _, g := range p.Globals[pkgPathOf(fn)] {
				ens = append(ens, &Clause{Kind: "ensures", Label: "global." + clauseLabel(g), Text: g.Text, E: g.E})
			}
		}
		for _, en := range ens {
			// quantified clauses of functions with several returns are checked per return
			// site (smaller queries, the failing path is named)
			if (hasQuantExpr(en.E) || p.callsQuantSpec(en.E, 0)) && len(f.rets) > 2 && len(f.rets) <= 16 {
				for ri, r := range f.rets {
					pe := f.funcEnv(r.st, st)
					for k, v := range post.vars {
						pe.vars[k] = v
					}
					for i, rv := range r.vals {
						if i < len(fc.Results) {
							pe.vars[fc.Results[i]] = rv
						}
					}
					g, err := pe.evalBool(en.E)
					if err != nil {
						u.Err = fmt.Sprintf("ensures %q: %v", en.Text, err)
						return u
					}
					e.addObl(&Obligation{Name: fmt.Sprintf("%s#ensures[%s]@return%d", shortKey(key), clauseLabel(en), ri), Kind: "ensures", Func: shortKey(key),
						Label: clauseLabel(en), Text: en.Text, Guard: r.reach, Goal: g, Contract: fc, Pos: relPath(p, p.Fset.Position(r.pos).String()), SkipTags: e.topFrame.skipTagsFor(en, "")})
				}
				continue
			}
			g, err := post.evalBool(en.E)
			if err != nil {
				u.Err = fmt.Sprintf("ensures %q: %v", en.Text, err)
				return u
			}
			e.addObl(&Obligation{Name: fmt.Sprintf("%s#ensures[%s]", shortKey(key), clauseLabel(en)), Kind: "ensures", Func: shortKey(key),
				Label: clauseLabel(en), Text: en.Text, Guard: exitReach, Goal: g, Contract: fc, Pos: fmt.Sprintf("%s:%d", relPath(p, fc.File), fc.Line), SkipTags: e.topFrame.skipTagsFor(en, "")})
		}
	}
	e.addAxioms()
	// reachability covers: the preconditions are satisfiable and every return is reachable
	if mode != "own" {
		e.addObl(&Obligation{Name: shortKey(key) + "#cover[entry]", Kind: "cover", Func: shortKey(key), Guard: "true", Goal: "false", IsCover: true, Text: "preconditions satisfiable"})
		e.addObl(&Obligation{Name: shortKey(key) + "#cover[exit]", Kind: "cover", Func: shortKey(key), Guard: exitReach, Goal: "false", IsCover: true, Text: "some return reachable"})
		// a function returning an error must be able to succeed (guards against a
		// contradiction that only kills the success paths)
		if n := len(results); n > 0 && isIface(results[n-1].Typ) && results[n-1].Typ.String() == "error" {
			okPath := false
			for _, r := range f.rets {
				if r.vals[n-1].T == "nilIface" {
					okPath = true
				}
			}
			if okPath {
				e.addObl(&Obligation{Name: shortKey(key) + "#cover[exit.ok]", Kind: "cover", Func: shortKey(key), Guard: and(exitReach, eq(results[n-1].T, "nilIface")), Goal: "false", IsCover: true, Text: "a successful return is reachable"})
			}
		}
		for i, r := range f.rets {
			e.addObl(&Obligation{Name: fmt.Sprintf("%s#cover.soft[return %d]", shortKey(key), i), Kind: "cover.soft", Func: shortKey(key), Guard: r.reach, Goal: "false", IsCover: true,
				Text: "return reachable", Pos: relPath(p, p.Fset.Position(r.pos).String())})
		}
	}
	if len(e.errs) > 0 {
		u.Err = strings.Join(e.errs, "; ")
	}
	return u
}

func relPath(p *Program, path string) string {
	path = strings.TrimPrefix(path, p.RepoDir+"/")
	path = strings.TrimPrefix(path, p.VerifDir+"/")
	return path
}

// letUsesResults: a let that mentions a result (directly or through an earlier
// such let) is evaluated in the post-state, all others in the pre-state.
func letUsesResults(l *Let, fc *FuncContract) bool {
	if l.Post {
		return true
	}
	names := append([]string{}, fc.Results...)
	for _, prev := range fc.Lets {
		if prev == l {
			break
		}
		if letUsesResults(prev, fc) {
			names = append(names, prev.Names...)
		}
	}
	for _, n := range names {
		if exprMentions(l.E, n) {
			return true
		}
	}
	return false
}

func hasQuantExpr(e *Expr) bool {
	if e == nil {
		return false
	}
	if e.Op == "forall" || e.Op == "exists" {
		return true
	}
	for _, a := range e.Args {
		if hasQuantExpr(a) {
			return true
		}
	}
	return false
}

func exprMentions(e *Expr, name string) bool {
	if e == nil {
		return false
	}
	if e.Op == "id" && e.Name == name {
		return true
	}
	for _, a := range e.Args {
		if exprMentions(a, name) {
			return true
		}
	}
	return false
}

// verifyLemma checks a property-level lemma: a statement over the contracts
// of pure functions (each application instantiates the callee's contract).
func (p *Program) verifyLemma(name string) (u *Unit) {
	u = &Unit{Key: "lemma:" + name, Kind: "lemma"}
	fc := p.Contracts["lemma:"+name]
	u.Contract = fc
	if fc == nil {
		u.Err = "lemma not found: " + name
		return u
	}
	e := p.newEncFor("lemma:" + name)
	u.Enc = e
	defer func() {
		if r := recover(); r != nil {
			u.Err = "encoding failed: " + fmt.Sprint(r) + "\n" + string(debug.Stack())
		}
	}()
	c := e.ctx
	st := e.newState()
	e.heapInit("alloc", "(Array Ref Bool)", 0)
	res := p.resolver(fc.PkgPath, e.importsFor(fc))
	env := &Env{enc: e, vars: map[string]*Val{}, st: st, old: st, res: res, fc: fc, ghost: true}
	for _, bv := range fc.LemmaPs {
		t, err := res.resolveTypeSrc(bv.TypeSrc)
		if err != nil {
			u.Err = fmt.Sprintf("lemma %s: %v", name, err)
			return u
		}
		v := &Val{T: c.declConst("l."+bv.Name, c.sortOf(t)), Typ: t, ConstLen: -1}
		env.vars[bv.Name] = v
		e.assumeTypeInv(st, v.T, t, "true")
	}
	for _, l := range fc.Lets {
		if err := env.bindLet(l); err != nil {
			u.Err = fmt.Sprintf("lemma %s: let %q: %v", name, l.Text, err)
			return u
		}
	}
	for _, r := range fc.Requires {
		g, err := env.evalBool(r.E)
		if err != nil {
			u.Err = fmt.Sprintf("lemma %s: requires %q: %v", name, r.Text, err)
			return u
		}
		c.assert(g)
	}
	for _, us := range fc.Uses {
		if _, err := env.eval(us.E); err != nil {
			u.Err = fmt.Sprintf("lemma %s: use %q: %v", name, us.Text, err)
			return u
		}
	}
	for _, en := range fc.Ensures {
		g, err := env.evalBool(en.E)
		if err != nil {
			u.Err = fmt.Sprintf("lemma %s: ensures %q: %v", name, en.Text, err)
			return u
		}
		e.addObl(&Obligation{Name: fmt.Sprintf("lemma:%s#ensures[%s]", name, clauseLabel(en)), Kind: "lemma", Func: "lemma:" + name,
			Label: clauseLabel(en), Text: en.Text, Guard: "true", Goal: g, Contract: fc, Pos: fmt.Sprintf("%s:%d", relPath(p, fc.File), fc.Line)})
	}
	e.addAxioms()
	e.addObl(&Obligation{Name: "lemma:" + name + "#cover[entry]", Kind: "cover", Func: "lemma:" + name, Guard: "true", Goal: "false", IsCover: true, Text: "lemma hypotheses satisfiable"})
	if len(e.errs) > 0 {
		u.Err = strings.Join(e.errs, "; ")
	}
	return u
}

// instantiate assumes (requires ==> ensures) of a pure callee for concrete
// argument and result terms (ghost / lemma mode).
func (env *Env) instantiate(key string, fc *FuncContract, fn *ssa.Function, sig *types.Signature, args []*Val, vals []*Val) {
	e := env.enc
	if env.depth > 4 {
		return
	}
	sigKey := key
	for _, a := range args {
		sigKey += "|" + a.T
	}
	sigKey += "|" + env.st.tok
	if e.instDone == nil {
		e.instDone = map[string]bool{}
	}
	if e.instDone[sigKey] {
		return
	}
	e.instDone[sigKey] = true
	hasRecv := sig.Recv() != nil || (fn == nil && len(args) > sig.Params().Len())
	vars := bindParams(fc, fn, sig, args, hasRecv)
	for i, v := range vals {
		if i < len(fc.Results) {
			vars[fc.Results[i]] = v
		}
	}
	if fc.Trusted != "" {
		e.usedTrusted[key] = fc.Trusted
	}
	e.usedContracts[key] = true
	n := &Env{enc: e, vars: vars, st: env.st, old: env.st, res: e.prog.resolver(fc.PkgPath, e.importsFor(fc)), fc: fc, ghost: env.ghost, depth: env.depth + 1, bound: env.bound}
	var reqs []string
	for _, l := range fc.Lets {
		if err := n.bindLet(l); err != nil {
			e.errorf("instantiating %s: let: %v", key, err)
			return
		}
	}
	for _, r := range fc.Requires {
		g, err := n.evalBool(r.E)
		if err != nil {
			e.errorf("instantiating %s: requires: %v", key, err)
			return
		}
		reqs = append(reqs, g)
	}
	for _, en := range fc.Ensures {
		if exprCalls(en.E, "fresh") {
			continue
		}
		if e.topFC != nil && e.topFC.hides(key, en.Label) {
			continue
		}
		g, err := n.evalBool(en.E)
		if err != nil {
			e.errorf("instantiating %s: ensures %q: %v", key, en.Text, err)
			return
		}
		if len(env.bound) > 0 {
			// under a quantifier: cannot assert facts about bound variables at top level
			continue
		}
		e.ctx.assert(implies(and(reqs...), g))
	}
	if env.ghost {
		// (not outside lemmas: a pure function may return a fresh object, and the same application in
		// the code is then not allocated in the state the specification is evaluated in)
		for _, v := range vals {
			e.assumeTypeInv(env.st, v.T, v.Typ, "true")
		}
	}
}

// specFuncsIn lists spec function names applied in an expression.
func specFuncsIn(p *Program, e *Expr, out map[string]bool) {
	if e == nil {
		return
	}
	if e.Op == "call" && e.Args[0].Op == "id" {
		if _, ok := p.Specs[e.Args[0].Name]; ok {
			out[e.Args[0].Name] = true
		}
	}
	for _, a := range e.Args {
		specFuncsIn(p, a, out)
	}
}

// addAxioms adds every declared axiom that speaks about a spec function this
// unit uses. Axioms are assumptions and are recorded as such.
func (e *Enc) addAxioms() {
	changed := true
	done := map[*Clause]bool{}
	for changed {
		changed = false
		for _, ax := range e.prog.Axioms {
			if done[ax.cl] {
				continue
			}
			names := map[string]bool{}
			specFuncsIn(e.prog, ax.cl.E, names)
			hit := false
			for n := range names {
				if e.ctx.declared[quoteSym("sf$"+n)] {
					hit = true
				}
			}
			if !hit {
				continue
			}
			done[ax.cl] = true
			changed = true
			st := e.newState()
			env := &Env{enc: e, vars: map[string]*Val{}, st: st, old: st, res: e.prog.resolver(ax.file.PkgPath, ax.file.Imports)}
			t, err := env.evalBool(ax.cl.E)
			if err != nil {
				e.errorf("axiom %s: %v", ax.cl.Label, err)
				continue
			}
			// axioms are background facts: visible to every obligation of the unit
			e.ctx.litFacts = append(e.ctx.litFacts, t)
			e.usedTrusted["axiom "+ax.cl.Label] = ax.cl.Text
		}
	}
}

// globalsReadonlyViolations scans the repository for writes to the package-level
// variables that the package's global invariants speak about, outside init.
func (p *Program) globalsReadonlyViolations(pkgPath string) []string {
	names := map[string]bool{}
	var collect func(e *Expr)
	collect = func(e *Expr) {
		if e == nil {
			return
		}
		if e.Op == "id" {
			names[e.Name] = true
		}
		for _, a := range e.Args {
			collect(a)
		}
	}
	for _, g := range p.Globals[pkgPath] {
		collect(g.E)
	}
	var out []string
	for key, fn := range p.fnByKey {
		if fn.Synthetic == "package initializer" || !isRepoPkg(pkgPathOf(fn)) {
			continue
		}
		for _, b := range fn.Blocks {
			for _, ins := range b.Instrs {
				switch x := ins.(type) {
				case *ssa.Store:
					if g, ok := x.Addr.(*ssa.Global); ok && g.Pkg.Pkg.Path() == pkgPath && names[g.Name()] {
						out = append(out, g.Name()+" assigned in "+shortKey(key))
					}
				case *ssa.MapUpdate:
					if u, ok := x.Map.(*ssa.UnOp); ok {
						if g, ok := u.X.(*ssa.Global); ok && g.Pkg.Pkg.Path() == pkgPath && names[g.Name()] {
							out = append(out, g.Name()+" updated in "+shortKey(key))
						}
					}
				}
			}
		}
	}
	sort.Strings(out)
	return out
}

// referencedGlobals: names of package-level variables a function (and the
// repository helpers it calls, to the given depth) refers to.
func referencedGlobals(fn *ssa.Function, depth int, seen map[*ssa.Function]bool) map[string]bool {
	out := map[string]bool{}
	if fn == nil || seen[fn] || depth < 0 {
		return out
	}
	seen[fn] = true
	for _, b := range fn.Blocks {
		for _, ins := range b.Instrs {
			for _, op := range ins.Operands(nil) {
				if g, ok := (*op).(*ssa.Global); ok {
					out[g.Name()] = true
				}
			}
			if c, ok := ins.(ssa.CallInstruction); ok {
				if callee := c.Common().StaticCallee(); callee != nil && isRepoPkg(pkgPathOf(callee)) {
					for n := range referencedGlobals(callee, depth-1, seen) {
						out[n] = true
					}
				}
			}
			if mc, ok := ins.(*ssa.MakeClosure); ok {
				for n := range referencedGlobals(mc.Fn.(*ssa.Function), depth-1, seen) {
					out[n] = true
				}
			}
		}
	}
	return out
}

// smtLemmaUnit wraps a hand-posed SMT-LIB lemma file as a unit with one obligation.
func smtLemmaUnit(p *Program, verif, name string) *Unit {
	u := &Unit{Key: "smt-lemma:" + name, Kind: "lemma"}
	path := filepath.Join(verif, "contracts", "lemmas", name)
	data, err := os.ReadFile(path)
	if err != nil {
		u.Err = "lemma file missing: " + path
		return u
	}
	e := p.newEncFor("smt-lemma:" + name)
	u.Enc = e
	e.addObl(&Obligation{Name: "smt-lemma:" + name, Kind: "lemma", Func: "smt-lemma:" + name, Text: "hand-posed lemma " + name + " (solver string theory)", Raw: string(data), Pos: "contracts/lemmas/" + name})
	return u
}

// callsQuantSpec: does the expression apply a spec function whose body has a quantifier?
func (p *Program) callsQuantSpec(e *Expr, depth int) bool {
	if e == nil || depth > 4 {
		return false
	}
	if e.Op == "call" && len(e.Args) > 0 && e.Args[0].Op == "id" {
		if sf, ok := p.Specs[e.Args[0].Name]; ok && sf.Body != nil {
			if hasQuantExpr(sf.Body) || p.callsQuantSpec(sf.Body, depth+1) {
				return true
			}
		}
	}
	for _, a := range e.Args {
		if p.callsQuantSpec(a, depth) {
			return true
		}
	}
	return false
}
