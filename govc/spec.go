package main

// Contract language: file format and expression parser.
//
// Contract files are Go files that contain only comments; lines that start
// with "//@" carry the contract text. Blocks:
//
//	//@ func (s *Applier) getAnchorUntil(from, until) (r)
//	//@   pure
//	//@   requires <expr>
//	//@   ensures [label] <expr>
//	//@   let a, b := <call expr>
//	//@   modifies nothing | <expr>, ...
//	//@   loop 0 invariant <expr>
//	//@   loop 0 decreases <expr>
//	//@   trusted "reason"
//	//@ spec func name(a T, b U) R [= <expr>]
//	//@ lemma name(x T, ...)
//	//@   use <call expr>
//	//@   requires / ensures
//	//@ global invariant <expr>
//	//@ import alias "path"

import (
	"fmt"
	"math/big"
	"os"
	"regexp"
	"strconv"
	"strings"
	"unicode"
)

type Expr struct {
	Op      string // int str bool nil id sel idx call un bin old forall exists tassert typeis slice
	Name    string // identifier / operator / field / function name
	Args    []*Expr
	TypeSrc string // for typeis / tassert / conversion
	Vars    []BoundVar
	Int     *big.Int
	Str     string
	Bool    bool
	Src     string
}

type BoundVar struct {
	Name    string
	TypeSrc string
}

type Clause struct {
	Kind  string // requires ensures invariant decreases use global
	Label string
	Text  string
	E     *Expr
	Loop  int
	// Using: when non-nil, the proof of this clause assumes, of the loop invariants of the
	// function, only the ones with these labels (plus the clause itself for preservation)
	Using []string
}

// splitUsing extracts an optional leading `uses [a, b, c]`.
func splitUsing(s string) (using []string, rest string) {
	s = strings.TrimSpace(s)
	if !strings.HasPrefix(s, "uses [") {
		return nil, s
	}
	j := strings.Index(s, "]")
	if j < 0 {
		return nil, s
	}
	using = []string{}
	for _, l := range strings.Split(s[len("uses ["):j], ",") {
		if l = strings.TrimSpace(l); l != "" {
			using = append(using, l)
		}
	}
	return using, strings.TrimSpace(s[j+1:])
}

type Let struct {
	Names []string
	E     *Expr
	Text  string
	Post  bool // evaluated in the post-state
}

type FuncContract struct {
	File     string
	Line     int
	PkgPath  string // package the contract file belongs to ("" for externals with explicit path)
	Recv     string // receiver type name without '*' ("" for functions)
	RecvName string
	Name     string
	Params   []string // optional renaming of parameters
	Results  []string
	Pure     bool
	Trusted  string
	TrustedQuick string // trusted in the quick tier only (see the parser)
	NoFrame  bool // "modifies anything"
	Requires []*Clause
	Ensures  []*Clause
	Lets     []*Let
	Modifies []*Expr
	Hide     map[string][]string // callee (suffix of its key) -> labels of ensures not to assume
	ModGiven bool
	ModGhost bool
	Const    bool // pure const: independent of the state
	Invs     []*Clause // loop invariants (Loop = ordinal)
	Decs     []*Clause
	Uses     []*Clause // for lemmas
	IsLemma  bool
	LemmaPs  []BoundVar
	Panics   bool // function may panic by design (excluded from safety)
	Header   string
}

type SpecFunc struct {
	Name    string
	Params  []BoundVar
	RetSrc  string
	// Ghost: an uninterpreted function of its arguments AND of the state it is evaluated in (ghost
	// state attached to objects whose representation is not visible, e.g. the bytes written to a
	// hash.Hash so far). Written `spec func f(x T) R ghost`.
	Ghost bool
	Body  *Expr
	PkgPath string
	File    string
	Line    int
}

type ContractFile struct {
	Path    string
	PkgPath string
	Funcs   []*FuncContract
	Specs   []*SpecFunc
	Globals []*Clause
	Axioms  []*Clause
	Guarded []guardedField
	Imports map[string]string
}

var clauseKeywords = map[string]bool{"func": true, "spec": true, "lemma": true, "global": true, "import": true, "axiom": true, "guarded": true,
	"pure": true, "requires": true, "ensures": true, "modifies": true, "let": true, "letpost": true, "loop": true, "trusted": true,
	"use": true, "panics": true, "hide": true}

// parseContractFile reads a contract file and returns its blocks.
func parseContractFile(path, pkgPath string) (*ContractFile, error) {
	data, err := os.ReadFile(path)
	if err != nil {
		return nil, err
	}
	return parseContractText(path, pkgPath, string(data))
}

type rawClause struct {
	line int
	text string
}

func parseContractText(path, pkgPath, text string) (*ContractFile, error) {
	cf := &ContractFile{Path: path, PkgPath: pkgPath, Imports: map[string]string{}}
	var raws []rawClause
	for i, ln := range strings.Split(text, "\n") {
		t := strings.TrimSpace(ln)
		if !strings.HasPrefix(t, "//@") {
			continue
		}
		body := strings.TrimSpace(t[3:])
		if body == "" {
			continue
		}
		first := body
		if j := strings.IndexFunc(body, func(r rune) bool { return !unicode.IsLetter(r) }); j > 0 {
			first = body[:j]
		}
		if clauseKeywords[first] {
			raws = append(raws, rawClause{i + 1, body})
		} else {
			if len(raws) == 0 {
				return nil, fmt.Errorf("%s:%d: continuation without clause", path, i+1)
			}
			raws[len(raws)-1].text += " " + body
		}
	}
	var cur *FuncContract
	for _, rc := range raws {
		kw, rest := splitKeyword(rc.text)
		fail := func(err error) error { return fmt.Errorf("%s:%d: %v (in %q)", path, rc.line, err, rc.text) }
		switch kw {
		case "import":
			f := strings.Fields(rest)
			if len(f) != 2 {
				return nil, fail(fmt.Errorf("import alias \"path\""))
			}
			p, _ := strconv.Unquote(f[1])
			cf.Imports[f[0]] = p
		case "func":
			fc, err := parseFuncHeader(rest)
			if err != nil {
				return nil, fail(err)
			}
			fc.File, fc.Line = path, rc.line
			if fc.PkgPath == "" {
				fc.PkgPath = pkgPath
			}
			fc.Header = rc.text
			cf.Funcs = append(cf.Funcs, fc)
			cur = fc
		case "lemma":
			fc, err := parseLemmaHeader(rest)
			if err != nil {
				return nil, fail(err)
			}
			fc.File, fc.Line, fc.PkgPath = path, rc.line, pkgPath
			fc.Header = rc.text
			cf.Funcs = append(cf.Funcs, fc)
			cur = fc
		case "spec":
			sf, err := parseSpecFunc(rest)
			if err != nil {
				return nil, fail(err)
			}
			sf.PkgPath, sf.File, sf.Line = pkgPath, path, rc.line
			cf.Specs = append(cf.Specs, sf)
			cur = nil
		case "guarded":
			// guarded (Type).field by lockField   |   guarded variable by lockVariable
			f := strings.Fields(rest)
			if len(f) < 3 || len(f) > 4 || f[1] != "by" || (len(f) == 4 && f[3] != "insertonly") {
				return nil, fail(fmt.Errorf("guarded <(Type).field | variable> by <lock> [insertonly]"))
			}
			g := guardedField{PkgPath: pkgPath, Lock: f[2], InsertOnly: len(f) == 4}
			if strings.HasPrefix(f[0], "(") {
				i := strings.Index(f[0], ").")
				if i < 0 {
					return nil, fail(fmt.Errorf("guarded (Type).field"))
				}
				g.Type, g.Field = strings.TrimPrefix(f[0][1:i], "*"), f[0][i+2:]
			} else {
				g.Field = f[0]
			}
			cf.Guarded = append(cf.Guarded, g)
			cur = nil
		case "axiom":
			lab, etxt := splitLabel(rest)
			reason := ""
			if i := strings.LastIndex(etxt, " -- "); i > 0 {
				reason = strings.TrimSpace(etxt[i+4:])
				etxt = strings.TrimSpace(etxt[:i])
			}
			e, err := parseExpr(etxt)
			if err != nil {
				return nil, fail(err)
			}
			cf.Axioms = append(cf.Axioms, &Clause{Kind: "axiom", Label: lab, Text: etxt + " -- " + reason, E: e})
			cur = nil
		case "global":
			_, r2 := splitKeyword(rest) // "invariant"
			lab, etxt := splitLabel(r2)
			e, err := parseExpr(etxt)
			if err != nil {
				return nil, fail(err)
			}
			cf.Globals = append(cf.Globals, &Clause{Kind: "global", Label: lab, Text: etxt, E: e})
		default:
			if cur == nil {
				return nil, fail(fmt.Errorf("clause outside func block"))
			}
			switch kw {
			case "hide":
				// hide callee[label, ...]: those callee postconditions are not assumed while this
				// function is verified (dropping an assumption is sound; it keeps queries small)
				r := strings.TrimSpace(rest)
				name, labels := r, []string{"*"}
				if i := strings.Index(r, "["); i > 0 && strings.HasSuffix(r, "]") {
					name = strings.TrimSpace(r[:i])
					labels = nil
					for _, l := range strings.Split(r[i+1:len(r)-1], ",") {
						labels = append(labels, strings.TrimSpace(l))
					}
				}
				if cur.Hide == nil {
					cur.Hide = map[string][]string{}
				}
				cur.Hide[name] = append(cur.Hide[name], labels...)
			case "pure":
				cur.Pure = true
				if strings.TrimSpace(rest) == "const" {
					// the result depends on the argument values only, not on any state (heap or ghost)
					cur.Const = true
				}
			case "panics":
				cur.Panics = true
			case "trusted":
				r := strings.TrimSpace(rest)
				quickOnly := strings.HasPrefix(r, "quick ")
				s, err := strconv.Unquote(strings.TrimSpace(strings.TrimPrefix(r, "quick ")))
				if err != nil {
					return nil, fail(fmt.Errorf("trusted needs a quoted reason"))
				}
				if quickOnly {
					// assumed (and checked by its bounded stand-in) in the quick tier, proved in the thorough tier
					cur.TrustedQuick = s
				} else {
					cur.Trusted = s
				}
			case "requires", "ensures", "use":
				lab, etxt := splitLabel(rest)
				using, etxt := splitUsing(etxt)
				e, err := parseExpr(etxt)
				if err != nil {
					return nil, fail(err)
				}
				cl := &Clause{Kind: kw, Label: lab, Text: etxt, E: e, Using: using}
				switch kw {
				case "requires":
					cur.Requires = append(cur.Requires, cl)
				case "ensures":
					cur.Ensures = append(cur.Ensures, cl)
				case "use":
					cur.Uses = append(cur.Uses, cl)
				}
			case "modifies":
				cur.ModGiven = true
				r := strings.TrimSpace(rest)
				if r == "nothing" {
					break
				}
				if r == "anything" {
					cur.NoFrame = true
					break
				}
				if r == "ghost" {
					// no memory the program can read is written, but ghost state changes: functions
					// of the state (pure functions, ghost spec functions) must be re-evaluated
					cur.ModGhost = true
					break
				}
				for _, part := range splitTop(r, ',') {
					e, err := parseExpr(part)
					if err != nil {
						return nil, fail(err)
					}
					cur.Modifies = append(cur.Modifies, e)
				}
			case "let", "letpost":
				i := strings.Index(rest, ":=")
				if i < 0 {
					return nil, fail(fmt.Errorf("let needs :="))
				}
				var names []string
				for _, n := range strings.Split(rest[:i], ",") {
					names = append(names, strings.TrimSpace(n))
				}
				e, err := parseExpr(rest[i+2:])
				if err != nil {
					return nil, fail(err)
				}
				cur.Lets = append(cur.Lets, &Let{Names: names, E: e, Text: strings.TrimSpace(rest), Post: kw == "letpost"})
			case "loop":
				f := strings.Fields(rest)
				if len(f) < 3 {
					return nil, fail(fmt.Errorf("loop k invariant|decreases expr"))
				}
				k, err := strconv.Atoi(f[0])
				if err != nil {
					return nil, fail(err)
				}
				r2 := strings.TrimSpace(strings.TrimPrefix(strings.TrimSpace(rest), f[0]))
				kind, r3 := splitKeyword(r2)
				lab, etxt := splitLabel(r3)
				using, etxt := splitUsing(etxt)
				e, err := parseExpr(etxt)
				if err != nil {
					return nil, fail(err)
				}
				cl := &Clause{Kind: kind, Label: lab, Text: etxt, E: e, Loop: k, Using: using}
				switch kind {
				case "invariant":
					cur.Invs = append(cur.Invs, cl)
				case "decreases":
					cur.Decs = append(cur.Decs, cl)
				default:
					return nil, fail(fmt.Errorf("unknown loop clause %q", kind))
				}
			default:
				return nil, fail(fmt.Errorf("unknown keyword %q", kw))
			}
		}
	}
	return cf, nil
}

func splitKeyword(s string) (kw, rest string) {
	s = strings.TrimSpace(s)
	i := strings.IndexFunc(s, func(r rune) bool { return !unicode.IsLetter(r) })
	if i < 0 {
		return s, ""
	}
	return s[:i], strings.TrimSpace(s[i:])
}

// splitLabel extracts an optional leading "[label]".
func splitLabel(s string) (label, rest string) {
	s = strings.TrimSpace(s)
	if strings.HasPrefix(s, "[") {
		if j := strings.Index(s, "]"); j > 0 {
			lab := s[1:j]
			if regexp.MustCompile(`^[A-Za-z0-9_.:\-]+$`).MatchString(lab) {
				return lab, strings.TrimSpace(s[j+1:])
			}
		}
	}
	return "", s
}

func splitTop(s string, sep rune) []string {
	var out []string
	d := 0
	start := 0
	inStr := false
	for i, r := range s {
		switch {
		case r == '"':
			inStr = !inStr
		case inStr:
		case r == '(' || r == '[' || r == '{':
			d++
		case r == ')' || r == ']' || r == '}':
			d--
		case r == sep && d == 0:
			out = append(out, strings.TrimSpace(s[start:i]))
			start = i + 1
		}
	}
	if strings.TrimSpace(s[start:]) != "" {
		out = append(out, strings.TrimSpace(s[start:]))
	}
	return out
}

var reFuncHeader = regexp.MustCompile(`^(\(\s*(\w+)?\s*\*?([\w./"\-]+)\s*\)\s*)?(?:"([^"]+)"\.)?([\w$]+)\s*`)

// parseFuncHeader parses `(recv *T) name(p1, p2 T) (r1, r2)`.
func parseFuncHeader(s string) (*FuncContract, error) {
	s = strings.TrimSpace(s)
	m := reFuncHeader.FindStringSubmatch(s)
	if m == nil {
		return nil, fmt.Errorf("bad func header")
	}
	fc := &FuncContract{RecvName: m[2], Recv: m[3], PkgPath: m[4], Name: m[5]}
	if strings.HasPrefix(fc.Recv, `"`) { // ("path".T)
		if j := strings.LastIndex(fc.Recv, `".`); j > 0 {
			fc.PkgPath = fc.Recv[1:j]
			fc.Recv = fc.Recv[j+2:]
		}
	}
	rest := s[len(m[0]):]
	groups := parenGroups(rest)
	if len(groups) >= 1 {
		fc.Params = namesOf(groups[0])
	}
	if len(groups) >= 2 {
		fc.Results = namesOf(groups[1])
	}
	return fc, nil
}

func parseLemmaHeader(s string) (*FuncContract, error) {
	s = strings.TrimSpace(s)
	i := strings.Index(s, "(")
	if i < 0 {
		return &FuncContract{Name: s, IsLemma: true}, nil
	}
	fc := &FuncContract{Name: strings.TrimSpace(s[:i]), IsLemma: true}
	groups := parenGroups(s[i:])
	if len(groups) >= 1 {
		bvs, err := parseBoundVars(groups[0])
		if err != nil {
			return nil, err
		}
		fc.LemmaPs = bvs
	}
	return fc, nil
}

// parseBoundVars parses "a, b T, c U".
func parseBoundVars(s string) ([]BoundVar, error) {
	var out []BoundVar
	var pending []string
	for _, part := range splitTop(s, ',') {
		f := strings.SplitN(strings.TrimSpace(part), " ", 2)
		if len(f) == 1 {
			pending = append(pending, f[0])
			continue
		}
		ty := strings.TrimSpace(f[1])
		for _, p := range pending {
			out = append(out, BoundVar{p, ty})
		}
		pending = nil
		out = append(out, BoundVar{f[0], ty})
	}
	if len(pending) > 0 {
		return nil, fmt.Errorf("bound variables without type: %v", pending)
	}
	return out, nil
}

func parenGroups(s string) []string {
	var out []string
	d := 0
	start := -1
	for i, r := range s {
		switch r {
		case '(':
			if d == 0 {
				start = i + 1
			}
			d++
		case ')':
			d--
			if d == 0 && start >= 0 {
				out = append(out, s[start:i])
				start = -1
			}
		}
	}
	return out
}

func namesOf(group string) []string {
	var out []string
	for _, part := range splitTop(group, ',') {
		f := strings.Fields(part)
		if len(f) > 0 {
			out = append(out, f[0])
		}
	}
	return out
}

func parseSpecFunc(s string) (*SpecFunc, error) {
	kw, rest := splitKeyword(s)
	if kw != "func" {
		return nil, fmt.Errorf("spec func expected")
	}
	i := strings.Index(rest, "(")
	if i < 0 {
		return nil, fmt.Errorf("spec func needs parameters")
	}
	name := strings.TrimSpace(rest[:i])
	// find matching paren
	d := 0
	j := i
	for ; j < len(rest); j++ {
		if rest[j] == '(' {
			d++
		} else if rest[j] == ')' {
			d--
			if d == 0 {
				break
			}
		}
	}
	bvs, err := parseBoundVars(rest[i+1 : j])
	if err != nil {
		return nil, err
	}
	tail := strings.TrimSpace(rest[j+1:])
	sf := &SpecFunc{Name: name, Params: bvs}
	if k := strings.Index(tail, "="); k >= 0 && !strings.HasPrefix(tail[k:], "==") {
		sf.RetSrc = strings.TrimSpace(tail[:k])
		e, err := parseExpr(tail[k+1:])
		if err != nil {
			return nil, err
		}
		sf.Body = e
	} else {
		if strings.HasSuffix(tail, " ghost") {
			sf.Ghost = true
			tail = strings.TrimSpace(strings.TrimSuffix(tail, " ghost"))
		}
		sf.RetSrc = tail
	}
	if sf.RetSrc == "" {
		return nil, fmt.Errorf("spec func needs a result type")
	}
	return sf, nil
}

// ---------------------------------------------------------------------------
// expression parser

// typeArgIndex: builtins whose argument at this index is a type, not an expression
var typeArgIndex = map[string]int{"typeis": 1, "zeroOf": 1, "jsonDecode": 1, "jsonDecodeErr": 1, "jsonMapHas": 2, "jsonMapGet": 2}

type tok struct {
	kind string // id int str op eof
	text string
	pos  int
}

type exprParser struct {
	src  string
	toks []tok
	i    int
}

func lexExpr(s string) ([]tok, error) {
	var out []tok
	i := 0
	for i < len(s) {
		c := s[i]
		switch {
		case c == ' ' || c == '\t' || c == '\n':
			i++
		case unicode.IsLetter(rune(c)) || c == '_' || c == '$':
			j := i + 1
			for j < len(s) && (unicode.IsLetter(rune(s[j])) || unicode.IsDigit(rune(s[j])) || s[j] == '_' || s[j] == '$') {
				j++
			}
			out = append(out, tok{"id", s[i:j], i})
			i = j
		case c >= '0' && c <= '9':
			j := i + 1
			for j < len(s) && (s[j] >= '0' && s[j] <= '9' || s[j] == 'x' || s[j] >= 'a' && s[j] <= 'f' || s[j] >= 'A' && s[j] <= 'F' || s[j] == '_') {
				j++
			}
			out = append(out, tok{"int", s[i:j], i})
			i = j
		case c == '"':
			j := i + 1
			for j < len(s) && s[j] != '"' {
				if s[j] == '\\' {
					j++
				}
				j++
			}
			if j >= len(s) {
				return nil, fmt.Errorf("unterminated string")
			}
			out = append(out, tok{"str", s[i : j+1], i})
			i = j + 1
		default:
			ops := []string{"<==>", "==>", "::", ":=", "==", "!=", "<=", ">=", "&&", "||", "<<", ">>", "...",
				"(", ")", "[", "]", "{", "}", ",", ".", "<", ">", "+", "-", "*", "/", "%", "!", ":", "&", "|", "^"}
			matched := false
			for _, op := range ops {
				if strings.HasPrefix(s[i:], op) {
					out = append(out, tok{"op", op, i})
					i += len(op)
					matched = true
					break
				}
			}
			if !matched {
				return nil, fmt.Errorf("unexpected character %q at %d", c, i)
			}
		}
	}
	out = append(out, tok{"eof", "", len(s)})
	return out, nil
}

func parseExpr(s string) (*Expr, error) {
	s = strings.TrimSpace(s)
	toks, err := lexExpr(s)
	if err != nil {
		return nil, err
	}
	p := &exprParser{src: s, toks: toks}
	e, err := p.parseIff()
	if err != nil {
		return nil, err
	}
	if p.peek().kind != "eof" {
		return nil, fmt.Errorf("unexpected %q at %d", p.peek().text, p.peek().pos)
	}
	return e, nil
}

func (p *exprParser) peek() tok { return p.toks[p.i] }
func (p *exprParser) next() tok { t := p.toks[p.i]; p.i++; return t }
func (p *exprParser) isOp(s string) bool {
	t := p.peek()
	return t.kind == "op" && t.text == s
}
func (p *exprParser) expectOp(s string) error {
	if !p.isOp(s) {
		return fmt.Errorf("expected %q, found %q at %d", s, p.peek().text, p.peek().pos)
	}
	p.i++
	return nil
}

func (p *exprParser) parseIff() (*Expr, error) {
	l, err := p.parseImp()
	if err != nil {
		return nil, err
	}
	for p.isOp("<==>") {
		p.next()
		r, err := p.parseImp()
		if err != nil {
			return nil, err
		}
		l = &Expr{Op: "bin", Name: "<==>", Args: []*Expr{l, r}}
	}
	return l, nil
}

func (p *exprParser) parseImp() (*Expr, error) {
	l, err := p.parseOr()
	if err != nil {
		return nil, err
	}
	if p.isOp("==>") {
		p.next()
		r, err := p.parseImp()
		if err != nil {
			return nil, err
		}
		return &Expr{Op: "bin", Name: "==>", Args: []*Expr{l, r}}, nil
	}
	return l, nil
}

func (p *exprParser) parseBinLevel(ops []string, sub func() (*Expr, error)) (*Expr, error) {
	l, err := sub()
	if err != nil {
		return nil, err
	}
	for {
		found := ""
		for _, op := range ops {
			if p.isOp(op) {
				found = op
				break
			}
		}
		if found == "" {
			return l, nil
		}
		p.next()
		r, err := sub()
		if err != nil {
			return nil, err
		}
		l = &Expr{Op: "bin", Name: found, Args: []*Expr{l, r}}
	}
}

func (p *exprParser) parseOr() (*Expr, error) {
	return p.parseBinLevel([]string{"||"}, p.parseAnd)
}
func (p *exprParser) parseAnd() (*Expr, error) {
	return p.parseBinLevel([]string{"&&"}, p.parseCmp)
}
func (p *exprParser) parseCmp() (*Expr, error) {
	return p.parseBinLevel([]string{"==", "!=", "<=", ">=", "<", ">"}, p.parseAdd)
}
func (p *exprParser) parseAdd() (*Expr, error) {
	return p.parseBinLevel([]string{"+", "-", "|", "^"}, p.parseMul)
}
func (p *exprParser) parseMul() (*Expr, error) {
	return p.parseBinLevel([]string{"*", "/", "%", "<<", ">>", "&"}, p.parseUnary)
}

func (p *exprParser) parseUnary() (*Expr, error) {
	if p.isOp("!") || p.isOp("-") {
		op := p.next().text
		e, err := p.parseUnary()
		if err != nil {
			return nil, err
		}
		return &Expr{Op: "un", Name: op, Args: []*Expr{e}}, nil
	}
	return p.parsePostfix()
}

// typeSrcUntil collects raw source up to (not including) one of the stop
// operators at nesting depth 0.
func (p *exprParser) typeSrcUntil(stops ...string) string {
	start := p.peek().pos
	d := 0
	for {
		t := p.peek()
		if t.kind == "eof" {
			break
		}
		if t.kind == "op" {
			if d == 0 {
				stop := false
				for _, s := range stops {
					if t.text == s {
						stop = true
					}
				}
				if stop {
					break
				}
			}
			switch t.text {
			case "(", "[", "{":
				d++
			case ")", "]", "}":
				d--
			}
		}
		p.next()
	}
	return strings.TrimSpace(p.src[start:p.peek().pos])
}

func (p *exprParser) parsePostfix() (*Expr, error) {
	e, err := p.parsePrimary()
	if err != nil {
		return nil, err
	}
	for {
		switch {
		case p.isOp("."):
			p.next()
			if p.isOp("(") {
				p.next()
				ts := p.typeSrcUntil(")")
				if err := p.expectOp(")"); err != nil {
					return nil, err
				}
				e = &Expr{Op: "tassert", Args: []*Expr{e}, TypeSrc: ts}
				continue
			}
			t := p.next()
			if t.kind != "id" && t.kind != "int" {
				return nil, fmt.Errorf("selector expected at %d", t.pos)
			}
			e = &Expr{Op: "sel", Name: t.text, Args: []*Expr{e}}
		case p.isOp("["):
			p.next()
			var lo, hi *Expr
			if !p.isOp(":") {
				lo, err = p.parseIff()
				if err != nil {
					return nil, err
				}
			}
			if p.isOp(":") {
				p.next()
				if !p.isOp("]") {
					hi, err = p.parseIff()
					if err != nil {
						return nil, err
					}
				}
				if err := p.expectOp("]"); err != nil {
					return nil, err
				}
				e = &Expr{Op: "slice", Args: []*Expr{e, lo, hi}}
				continue
			}
			if err := p.expectOp("]"); err != nil {
				return nil, err
			}
			e = &Expr{Op: "idx", Args: []*Expr{e, lo}}
		case p.isOp("("):
			p.next()
			var args []*Expr
			for !p.isOp(")") {
				// typeis(v, T): second argument is a type
				if e.Op == "id" && typeArgIndex[e.Name] > 0 && len(args) == typeArgIndex[e.Name] {
					ts := p.typeSrcUntil(")")
					args = append(args, &Expr{Op: "type", TypeSrc: ts})
					break
				}
				a, err := p.parseIff()
				if err != nil {
					return nil, err
				}
				args = append(args, a)
				if p.isOp(",") {
					p.next()
				} else {
					break
				}
			}
			if err := p.expectOp(")"); err != nil {
				return nil, err
			}
			e = &Expr{Op: "call", Args: append([]*Expr{e}, args...)}
		default:
			return e, nil
		}
	}
}

func (p *exprParser) parsePrimary() (*Expr, error) {
	t := p.peek()
	switch t.kind {
	case "int":
		p.next()
		v, ok := new(big.Int).SetString(strings.ReplaceAll(t.text, "_", ""), 0)
		if !ok {
			return nil, fmt.Errorf("bad integer %q", t.text)
		}
		return &Expr{Op: "int", Int: v}, nil
	case "str":
		p.next()
		s, err := strconv.Unquote(t.text)
		if err != nil {
			return nil, err
		}
		return &Expr{Op: "str", Str: s}, nil
	case "id":
		p.next()
		switch t.text {
		case "true", "false":
			return &Expr{Op: "bool", Bool: t.text == "true"}, nil
		case "map":
			// a map type used as conversion: map[string]interface{}(x) -- read the type up to "("
			if p.isOp("[") {
				ts := "map" + p.typeSrcUntil("(")
				return &Expr{Op: "type", TypeSrc: ts}, nil
			}
		case "nil":
			return &Expr{Op: "nil"}, nil
		case "forall", "exists":
			var vars []BoundVar
			for {
				n := p.next()
				if n.kind != "id" {
					return nil, fmt.Errorf("bound variable expected at %d", n.pos)
				}
				ts := p.typeSrcUntil(",", "::")
				vars = append(vars, BoundVar{n.text, ts})
				if p.isOp(",") {
					p.next()
					continue
				}
				break
			}
			if err := p.expectOp("::"); err != nil {
				return nil, err
			}
			body, err := p.parseIff()
			if err != nil {
				return nil, err
			}
			// "a, b T" style: propagate types backwards
			for i := len(vars) - 2; i >= 0; i-- {
				if vars[i].TypeSrc == "" {
					vars[i].TypeSrc = vars[i+1].TypeSrc
				}
			}
			return &Expr{Op: t.text, Vars: vars, Args: []*Expr{body}}, nil
		case "old":
			if err := p.expectOp("("); err != nil {
				return nil, err
			}
			e, err := p.parseIff()
			if err != nil {
				return nil, err
			}
			if err := p.expectOp(")"); err != nil {
				return nil, err
			}
			return &Expr{Op: "old", Args: []*Expr{e}}, nil
		}
		return &Expr{Op: "id", Name: t.text}, nil
	case "op":
		if t.text == "(" {
			p.next()
			e, err := p.parseIff()
			if err != nil {
				return nil, err
			}
			if err := p.expectOp(")"); err != nil {
				return nil, err
			}
			return e, nil
		}
		if t.text == "[" || t.text == "*" {
			// a composite type used as conversion: []byte(x), *T(x) – read the type up to "("
			ts := p.typeSrcUntil("(")
			return &Expr{Op: "type", TypeSrc: ts}, nil
		}
	}
	return nil, fmt.Errorf("unexpected %q at %d", t.text, t.pos)
}

func (e *Expr) String() string {
	if e == nil {
		return "<nil>"
	}
	switch e.Op {
	case "int":
		return e.Int.String()
	case "str":
		return strconv.Quote(e.Str)
	case "bool":
		return fmt.Sprint(e.Bool)
	case "nil":
		return "nil"
	case "id":
		return e.Name
	case "type":
		return e.TypeSrc
	case "sel":
		return e.Args[0].String() + "." + e.Name
	case "idx":
		return e.Args[0].String() + "[" + e.Args[1].String() + "]"
	case "un":
		return e.Name + e.Args[0].String()
	case "bin":
		return "(" + e.Args[0].String() + " " + e.Name + " " + e.Args[1].String() + ")"
	case "old":
		return "old(" + e.Args[0].String() + ")"
	case "call":
		var as []string
		for _, a := range e.Args[1:] {
			as = append(as, a.String())
		}
		return e.Args[0].String() + "(" + strings.Join(as, ", ") + ")"
	case "tassert":
		return e.Args[0].String() + ".(" + e.TypeSrc + ")"
	case "forall", "exists":
		var vs []string
		for _, v := range e.Vars {
			vs = append(vs, v.Name+" "+v.TypeSrc)
		}
		return e.Op + " " + strings.Join(vs, ", ") + " :: " + e.Args[0].String()
	}
	return e.Op
}
