package main

import (
	"crypto/sha256"
	"encoding/hex"
)

func shortHash(s string) string {
	h := sha256.Sum256([]byte(s))
	return hex.EncodeToString(h[:4])
}
