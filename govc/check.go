package main

// Property checks: run the units a property depends on, decide, write evidence,
// print VIOLATION / KNOWN-FINDING lines.

import (
	"encoding/json"
	"fmt"
	"os"
	"path/filepath"
	"reflect"
	"sort"
	"strconv"
	"strings"
	"time"
)

type PropConfig struct {
	ID         string   `json:"id"`
	Level      string   `json:"level"`
	Functions  []string `json:"functions"`
	Lemmas     []string `json:"lemmas"`
	SMTLemmas  []string `json:"smt_lemmas"` // hand-posed solver lemmas under contracts/lemmas (must be unsat)
	Sweep      []string `json:"sweep"`
	SweepRoots []string `json:"sweep_roots"`
	Own        []string `json:"own"`
	OwnRoots   []string `json:"own_roots"`
	Safety     bool     `json:"safety"` // safety obligations of Functions count for this property
	Bounded    []struct {
		Name     string `json:"name"`
		Pkg      string `json:"pkg"`
		Test     string `json:"test"`
		File     string `json:"file"`
		Bound    string `json:"bound"`
		StandsIn string `json:"stands_in_for"`
	} `json:"bounded"`
	Assumptions    []string `json:"assumptions"`
	NotDecided     []string `json:"not_decided"`
	Explanation    string   `json:"explanation"`
	MinObligations int      `json:"min_obligations"`
	// clauses that must exist (vacuity guard): "<function key>#ensures[label]"
	Clauses []string `json:"clauses"`
}

type knownFinding struct {
	Prop string
	Obl  string
	Text string
}

func loadKnownFindings(verif string) []knownFinding {
	var out []knownFinding
	data, err := os.ReadFile(filepath.Join(verif, "known_findings.txt"))
	if err != nil {
		return nil
	}
	for _, ln := range strings.Split(string(data), "\n") {
		ln = strings.TrimSpace(ln)
		if !strings.HasPrefix(ln, "finding:") {
			continue
		}
		kf := knownFinding{Text: strings.TrimSpace(strings.TrimPrefix(ln, "finding:"))}
		for _, f := range strings.Fields(kf.Text) {
			if strings.HasPrefix(f, "property=") {
				kf.Prop = strings.TrimPrefix(f, "property=")
			}
			if strings.HasPrefix(f, "obligation=") {
				kf.Obl = strings.TrimPrefix(f, "obligation=")
			}
		}
		out = append(out, kf)
	}
	return out
}

type violation struct {
	Obl    *Obligation
	Unit   *Unit
	Reason string
	Replay string
	Input  bool // a failing input was reproduced on the real code
}

func oblCounts(prop *PropConfig, o *Obligation, u *Unit) bool {
	if u.Kind == "own" {
		// C20 decides ownership (frame) and lock discipline only
		return o.Kind == "frame" || o.Kind == "lock" || o.Kind == "cover" || o.Kind == "cover.soft" || o.Kind == "requires"
	}
	if u.Kind == "sweep" {
		// the sweep decides absence of panics only; functional clauses belong to other properties
		return strings.HasPrefix(o.Kind, "safe.") || o.Kind == "cover" || o.Kind == "cover.soft" || o.Kind == "requires"
	}
	if strings.HasPrefix(o.Kind, "safe.") {
		return prop.Safety
	}
	return true
}

func runCheck(propID, repo, verif, tier string, verbose bool) int {
	t0 := time.Now()
	seed, _ := strconv.Atoi(envOr("VERIF_SEED", "1"))
	evPath := filepath.Join(verif, "evidence", propID+".json")
	os.MkdirAll(filepath.Dir(evPath), 0o755)
	cfgData, err := os.ReadFile(filepath.Join(verif, "props", propID+".json"))
	if err != nil {
		fmt.Fprintln(os.Stderr, "no configuration for property", propID)
		return 2
	}
	var prop PropConfig
	if err := json.Unmarshal(cfgData, &prop); err != nil {
		fmt.Fprintln(os.Stderr, "bad property configuration:", err)
		return 2
	}
	p, err := loadProgram(repo, verif)
	if err != nil {
		// the tree does not load / type-check: nothing can be decided
		fmt.Fprintln(os.Stderr, "cannot load repository:", err)
		return 2
	}
	loadS := time.Since(t0).Seconds()
	if tier != "thorough" {
		for _, fc := range p.Contracts {
			if fc.TrustedQuick != "" && fc.Trusted == "" {
				fc.Trusted = fc.TrustedQuick
			}
		}
	}
	var units []*Unit
	var quickAssumed []string
	for _, k := range prop.Functions {
		mode := "nosafety"
		if prop.Safety {
			mode = ""
		}
		if fc := p.Contracts[expandKey(p, k)]; fc != nil && fc.TrustedQuick != "" && tier != "thorough" {
			// proved in the thorough tier only (its obligations are too close to the quick time-out);
			// here its contract is an assumption and its bounded stand-in runs
			quickAssumed = append(quickAssumed, shortKey(expandKey(p, k)))
			continue
		}
		units = append(units, p.verifyFunc(expandKey(p, k), mode))
	}
	for _, l := range prop.Lemmas {
		units = append(units, p.verifyLemma(l))
	}
	// safety sweep (C19): the entry points and every function under contract in their call
	// closure are encoded with safety obligations on; un-contracted helpers are covered by
	// being inlined into those units.
	sweepUnits := map[string]bool{}
	var closure []string
	if len(prop.SweepRoots) > 0 {
		closure = p.callClosure(prop.SweepRoots)
		rootSet := map[string]bool{}
		for _, r := range prop.SweepRoots {
			rootSet[expandKey(p, r)] = true
		}
		for _, k := range closure {
			fc := p.Contracts[k]
			if rootSet[k] || (fc != nil && !fc.inlineOnly() && fc.Trusted == "") {
				sweepUnits[k] = true
			}
		}
	}
	for _, k := range prop.Sweep {
		sweepUnits[expandKey(p, k)] = true
	}
	var sweepDone []*Unit
	for _, k := range sortedKeys(sweepUnits) {
		u := p.verifyFunc(k, "safety")
		units = append(units, u)
		sweepDone = append(sweepDone, u)
	}
	if len(closure) > 0 {
		// closure functions that no swept unit reached by inlining (interface implementations, small
		// accessors): swept on their own, assuming only a non-nil receiver
		reached := map[string]bool{}
		for _, u := range sweepDone {
			reached[u.Key] = true
			if u.Enc != nil {
				for k := range u.Enc.inlined {
					reached[k] = true
				}
			}
		}
		for _, k := range closure {
			if reached[k] {
				continue
			}
			if fc := p.Contracts[k]; fc != nil && fc.Trusted != "" {
				continue
			}
			fn := p.findFunc(k)
			if fn == nil || fn.Parent() != nil || fn.Synthetic != "" {
				continue
			}
			units = append(units, p.verifyFunc(k, "safety-auto"))
		}
	}
	ownSet := append([]string{}, prop.Own...)
	if len(prop.OwnRoots) > 0 {
		// the roots, and every function of their call closure that has a contract of its own: the
		// remaining helpers are verified in place (inlined) inside those
		for _, r := range prop.OwnRoots {
			ownSet = append(ownSet, expandKey(p, r))
		}
		for _, k := range p.callClosure(prop.OwnRoots) {
			fc := p.Contracts[k]
			if fc == nil || fc.Trusted != "" || fc.inlineOnly() || fc.IsLemma {
				continue
			}
			if fn := p.findFunc(k); fn == nil || fn.Parent() != nil {
				// a function literal works on its enclosing function's variables: it is part of
				// that function's body, not an operation with a frame of its own
				continue
			}
			ownSet = append(ownSet, k)
		}
	}
	for _, k := range dedup(ownSet) {
		units = append(units, p.verifyFunc(expandKey(p, k), "own"))
	}
	for _, l := range prop.SMTLemmas {
		units = append(units, smtLemmaUnit(p, verif, l))
	}
	work := filepath.Join(verif, "work", propID)
	os.RemoveAll(work)
	opts := solveOpts{WorkDir: work, TimeoutS: 10, Retry: true, All: tier == "thorough"}
	if tier == "thorough" {
		opts.TimeoutS = 20
	}
	if tier == "thorough" {
		opts.TimeoutS = 30
	}
	for _, kf := range loadKnownFindings(verif) {
		if kf.Prop != propID {
			continue
		}
		for _, u := range units {
			if u.Enc == nil {
				continue
			}
			for _, o := range u.Enc.obls {
				if o.Name == kf.Obl {
					o.Known = true
				}
			}
		}
	}
	solveAll(units, opts)

	known := loadKnownFindings(verif)
	isKnown := func(name string) *knownFinding {
		for i := range known {
			if known[i].Prop == propID && known[i].Obl == name {
				return &known[i]
			}
		}
		return nil
	}
	var viols []violation
	var knownHit []string
	total, discharged := 0, 0
	solverSeconds := 0.0
	bySolver := map[string]int{}
	type fnEv struct {
		Name        string  `json:"function"`
		Status      string  `json:"status"`
		Obligations int     `json:"obligations"`
		Discharged  int     `json:"discharged"`
		Seconds     float64 `json:"solver_seconds"`
		Kind        string  `json:"kind"`
		Note        string  `json:"note,omitempty"`
	}
	var fns []fnEv
	var samples []map[string]interface{}
	var undis []string
	trusted := map[string]string{}
	purePkgs := map[string]bool{}
	unknownCalls := map[string]int{}
	inlined := map[string]bool{}
	haveClause := map[string]bool{}
	type slowObl struct {
		Name    string  `json:"obligation"`
		Seconds float64 `json:"seconds"`
		Solver  string  `json:"solver"`
	}
	var slow []slowObl
	usedElsewhere := map[string]bool{} // contracts applied here whose function is not verified by this check
	verifiedHere := map[string]bool{}
	for _, u := range units {
		verifiedHere[u.Key] = true
	}
	var deadReturns []string
	for _, u := range units {
		fe := fnEv{Name: shortKey(u.Key), Kind: u.Kind}
		if u.Err != "" {
			fe.Status = "not-encoded"
			fe.Note = trunc(u.Err, 400)
			fns = append(fns, fe)
			name := shortKey(u.Key) + "#encode"
			if kf := isKnown(name); kf != nil {
				knownHit = append(knownHit, kf.Text)
				continue
			}
			viols = append(viols, violation{Unit: u, Obl: &Obligation{Name: name, Kind: "encode", Text: u.Err, Func: shortKey(u.Key)}, Reason: "contract no longer binds / function left the verified subset: " + trunc(u.Err, 300)})
			continue
		}
		for k, v := range u.Enc.usedTrusted {
			trusted[k] = v
		}
		for k := range u.Enc.usedPurePkg {
			purePkgs[k] = true
		}
		for k := range u.Enc.usedContracts {
			fc := p.Contracts[k]
			if fc == nil || fc.Trusted != "" || verifiedHere[k] {
				continue
			}
			if fn := p.findFunc(k); fn != nil && len(fn.Blocks) > 0 && isRepoPkg(pkgPathOf(fn)) {
				usedElsewhere[k] = true
			}
		}
		for k, n := range u.Enc.unknownCalls {
			unknownCalls[k] += n
		}
		for k := range u.Enc.inlined {
			inlined[k] = true
		}
		for _, o := range u.Enc.obls {
			if !oblCounts(&prop, o, u) {
				continue
			}
			haveClause[o.Name] = true
			solverSeconds += o.Seconds
			fe.Seconds += o.Seconds
			if o.Seconds >= 1.0 {
				slow = append(slow, slowObl{o.Name, round3(o.Seconds), o.Solver})
			}
			if o.Kind == "cover.soft" {
				if o.Result == "unsat" {
					deadReturns = append(deadReturns, o.Name+" at "+o.Pos)
				}
				continue
			}
			if o.IsCover {
				if o.Result != "sat" {
					name := o.Name
					if kf := isKnown(name); kf != nil {
						knownHit = append(knownHit, kf.Text)
						continue
					}
					if o.Result == "unsat" {
						viols = append(viols, violation{Unit: u, Obl: o, Reason: "vacuity: " + o.Text + " is unsatisfiable (contradictory precondition, axiom or callee contract)"})
					}
				}
				continue
			}
			total++
			fe.Obligations++
			if o.Result == "unsat" {
				discharged++
				fe.Discharged++
				bySolver[o.Solver]++
				if len(samples) < 6 && (o.Kind == "ensures" || o.Kind == "lemma" || len(samples) < 2) {
					st, _ := os.Stat(o.File)
					sz := int64(0)
					if st != nil {
						sz = st.Size()
					}
					samples = append(samples, map[string]interface{}{"obligation": o.Name, "clause": o.Text, "result": o.Result, "solver": o.Solver, "seconds": round3(o.Seconds), "smt_bytes": sz, "kind": o.Kind})
				}
				continue
			}
			if kf := isKnown(o.Name); kf != nil {
				knownHit = append(knownHit, kf.Text)
				total--
				fe.Obligations--
				continue
			}
			undis = append(undis, o.Name+" ("+o.Result+")")
			viols = append(viols, violation{Unit: u, Obl: o, Reason: "obligation " + o.Result})
		}
		if fe.Obligations == fe.Discharged {
			fe.Status = "proved"
		} else {
			fe.Status = "failed"
		}
		fns = append(fns, fe)
	}
	// vacuity guard: every blessed clause must still produce an obligation
	for _, cl := range prop.Clauses {
		if !haveClause[cl] {
			if kf := isKnown(cl); kf != nil {
				knownHit = append(knownHit, kf.Text)
				continue
			}
			already := false
			for _, v := range viols {
				if strings.HasPrefix(cl, v.Obl.Func+"#") {
					already = true
				}
			}
			if !already {
				viols = append(viols, violation{Obl: &Obligation{Name: cl, Kind: "missing", Text: "blessed clause produced no obligation"}, Reason: "clause " + cl + " no longer generates an obligation"})
			}
		}
	}
	if total < prop.MinObligations {
		viols = append(viols, violation{Obl: &Obligation{Name: propID + "#obligation-count", Kind: "missing", Text: fmt.Sprintf("only %d obligations generated, expected at least %d", total, prop.MinObligations)}, Reason: "too few obligations"})
	}

	// bounded stand-ins (never counted as discharged)
	var boundedEv []map[string]interface{}
	for _, b := range prop.Bounded {
		res := runBounded(repo, verif, propID, b.Pkg, b.Test, b.File, tier, seed)
		ev := map[string]interface{}{"name": b.Name, "bound": b.Bound, "stands_in_for": b.StandsIn, "label": "bounded", "result": res.Status, "cases": res.Cases, "seconds": round3(res.Seconds)}
		boundedEv = append(boundedEv, ev)
		if res.Status == "fail" || res.Status == "fail-complete" {
			name := "bounded:" + b.Name
			unknown := 0
			for _, fl := range res.Fails {
				failName := name + ":" + fl[0]
				if kf := isKnown(failName); kf != nil {
					knownHit = append(knownHit, kf.Text)
				} else {
					unknown++
					viols = append(viols, violation{Obl: &Obligation{Name: failName, Kind: "bounded", Text: b.StandsIn, Output: res.Output, Func: b.Name}, Reason: "bounded check failed: " + trunc(fl[1], 300), Input: true})
				}
			}
			if unknown == 0 && res.Status == "fail-complete" {
				// only recorded findings failed and the harness explored everything else
				ev["result"] = "pass-with-known-findings"
			} else if unknown == 0 {
				viols = append(viols, violation{Obl: &Obligation{Name: name, Kind: "bounded", Text: b.StandsIn, Output: res.Output, Func: b.Name}, Reason: "bounded check stopped at a recorded finding before exploring its bound: " + trunc(res.FailMsg, 200)})
			}
		} else if res.Status != "pass" {
			viols = append(viols, violation{Obl: &Obligation{Name: "bounded:" + b.Name, Kind: "bounded", Text: b.StandsIn, Output: res.Output, Func: b.Name}, Reason: "bounded check could not run: " + trunc(res.Output, 300)})
		}
	}

	// replay + report
	exit := 0
	replayDir := filepath.Join(verif, "replay", "out", propID)
	os.RemoveAll(replayDir)
	var violNames []string
	for i := range viols {
		v := &viols[i]
		os.MkdirAll(replayDir, 0o755)
		v.Replay = filepath.Join(replayDir, sanitizeFile(v.Obl.Name)+".json")
		rep := map[string]interface{}{
			"property":                 propID,
			"obligation":               v.Obl.Name,
			"kind":                     v.Obl.Kind,
			"clause":                   v.Obl.Text,
			"position":                 v.Obl.Pos,
			"reason":                   v.Reason,
			"solver":                   v.Obl.Solver,
			"result":                   v.Obl.Result,
			"smt_file":                 v.Obl.File,
			"solver_output":            trunc(v.Obl.Output, 20000),
			"model_from_relaxed_query": v.Obl.Relaxed,
		}
		if !v.Input && v.Obl.Result == "sat" && v.Unit != nil {
			rr := tryReplay(p, v.Unit, v.Obl, repo, verif, replayDir)
			rep["replay"] = rr
			if rr != nil && rr.Reproduced {
				v.Input = true
			}
		}
		rep["failing_input_found"] = v.Input
		rep["rerun"] = fmt.Sprintf("/verif/bin/check --replay %s", v.Replay)
		data, _ := json.MarshalIndent(rep, "", " ")
		os.WriteFile(v.Replay, data, 0o644)
		line := fmt.Sprintf("VIOLATION property=%s replay=%s", propID, v.Replay)
		fmt.Printf("  failed obligation: %s -- %s\n", v.Obl.Name, v.Reason)
		if !v.Input {
			line += " no-failing-input-found"
		}
		fmt.Println(line)
		violNames = append(violNames, v.Obl.Name)
		exit = 1
	}
	sort.Strings(knownHit)
	for _, k := range dedup(knownHit) {
		fmt.Printf("KNOWN-FINDING: %s\n", k)
	}

	// evidence
	var tb []string
	tb = append(tb, "Go type checker and go/ssa lowering (golang.org/x/tools v0.29.0)", "the VC generator /verif/govc (defended by cover obligations, the must-fail corpus and cross-solver agreement in the thorough tier)",
		"SMT solvers z3 5.1.0, cvc5 1.0.3, z3 4.8.12")
	for _, k := range sortedKeys(trusted) {
		tb = append(tb, "assumed contract: "+shortKey(k)+" -- "+trusted[k])
	}
	for _, k := range sortedKeys(purePkgs) {
		tb = append(tb, "assumed side-effect free package: "+k)
	}
	assumptions := append([]string{}, prop.Assumptions...)
	assumptions = append(assumptions,
		"integers are 64/32/16/8-bit machine integers (bit-vectors); nothing is treated as mathematical arithmetic",
		"strings are an uninterpreted sort with length, concatenation and prefix axioms; string contents are opaque",
		"pure functions are deterministic functions of their argument values and of the heap version (token) they are called in",
		"a pure function that promises a fresh result is modelled as memoising (a second call with the same arguments in the same state denotes the storage of the first); #memo[...] obligations forbid writes to storage handed out twice, which makes the memoising program indistinguishable from the real one (the results are slices and maps, which Go code cannot compare for identity)",
		"proofs of non-safety clauses assume the function does not panic before the clause's program point (absence of panics is property C19)",
		"termination is not proved unless a decreases clause is listed")
	if len(unknownCalls) > 0 {
		var ks []string
		for k, n := range unknownCalls {
			ks = append(ks, fmt.Sprintf("%s x%d", shortKey(k), n))
		}
		sort.Strings(ks)
		assumptions = append(assumptions, "calls without contract were havocked (all heaps and results unknown; can only make proofs fail): "+strings.Join(ks, ", "))
	}
	if len(quickAssumed) > 0 {
		assumptions = append(assumptions, "proved in the thorough tier only; in this (quick) run their contracts are assumptions checked by their bounded stand-ins: "+strings.Join(quickAssumed, ", "))
	}
	for _, nd := range prop.NotDecided {
		assumptions = append(assumptions, "not decided by this check: "+nd)
	}
	if len(p.Renamed) > 0 {
		assumptions = append(assumptions, "contracts bound by signature to functions that were renamed since the contracts were written (every clause is still proved against the new body): "+strings.Join(p.Renamed, "; "))
	}
	if len(p.MirrorUse) > 0 {
		assumptions = append(assumptions, "contract files missing in /repo (hook commits absent); the byte-identical mirror under /verif/contracts/mirror was used: "+strings.Join(p.MirrorUse, ", "))
	}
	if len(p.MirrorDiff) > 0 {
		assumptions = append(assumptions, "contract files in /repo differ from the mirror; the mirror was used: "+strings.Join(p.MirrorDiff, ", "))
	}
	var inl []string
	for k := range inlined {
		inl = append(inl, shortKey(k))
	}
	sort.Strings(inl)
	cov := map[string]interface{}{
		"obligations":              total,
		"discharged":               discharged,
		"checker_cmd":              fmt.Sprintf("/verif/bin/check %s --tier %s", propID, tier),
		"trusted_base":             tb,
		"samples":                  samples,
		"functions_under_contract": fns,
		"undischarged":             undis,
		"inlined_helpers":          inl,
		"contracts_relied_on_proved_by_other_checks": shortKeys(usedElsewhere),
		"slowest_obligations":                        slowTop(slow),
		"bounded_standins":                           boundedEv,
		"discharged_by_backend":                      bySolver,
		"solver_seconds":                             round3(solverSeconds),
		"load_seconds":                               round3(loadS),
		"known_findings_hit":                         dedup(knownHit),
		"explanation":                                prop.Explanation,
		"violating_obligations":                      violNames,
		"returns_unreachable_under_contracts":        deadReturns,
	}
	if len(closure) > 0 {
		// coverage of the call closure of the entry points by the safety sweep
		covered := map[string]bool{}
		for _, u := range units {
			if u.Kind == "sweep" && u.Err == "" {
				covered[u.Key] = true
			}
		}
		for k := range inlined {
			covered[k] = true
		}
		var notCov []string
		nCov := 0
		for _, k := range closure {
			if covered[k] {
				nCov++
				continue
			}
			reason := "not reached by inlining from a swept unit"
			if fc := p.Contracts[k]; fc != nil && fc.Trusted != "" {
				reason = "assumed contract: " + fc.Trusted
			}
			notCov = append(notCov, shortKey(k)+" -- "+reason)
		}
		cov["closure_functions"] = len(closure)
		cov["closure_covered_by_sweep"] = nCov
		cov["closure_not_covered"] = notCov
	}
	if len(samples) == 0 {
		cov["samples"] = []interface{}{"no obligation discharged in this run"}
	}
	ev := map[string]interface{}{
		"property_id": propID,
		"tier":        tier,
		"seed":        seed,
		"level":       prop.Level,
		"coverage":    cov,
		"assumptions": assumptions,
		"wall_s":      round3(time.Since(t0).Seconds()),
		"violations":  len(viols),
	}
	data, _ := json.MarshalIndent(ev, "", " ")
	os.WriteFile(evPath, data, 0o644)
	fmt.Printf("%s: %d obligations, %d discharged, %d violations, %d known findings, %.1fs\n", propID, total, discharged, len(viols), len(dedup(knownHit)), time.Since(t0).Seconds())
	if exit == 0 && os.Getenv("GOVC_KEEP_WORK") == "" {
		os.RemoveAll(work)
	}
	return exit
}

func round3(f float64) float64 { return float64(int(f*1000+0.5)) / 1000 }

func dedup(xs []string) []string {
	seen := map[string]bool{}
	var out []string
	for _, x := range xs {
		if !seen[x] {
			seen[x] = true
			out = append(out, x)
		}
	}
	return out
}

func sanitizeFile(s string) string {
	r := strings.NewReplacer("/", "_", "(", "", ")", "", "*", "", " ", "_", "#", "-", "[", "_", "]", "", ":", "_", ">", "_", "\"", "", "'", "", "|", "_", "=", "_")
	s = r.Replace(s)
	if len(s) > 150 {
		s = s[:150] + shortHash(s)
	}
	return s
}

func runReplayFile(path, repo, verif string) int {
	data, err := os.ReadFile(path)
	if err != nil {
		fmt.Fprintln(os.Stderr, err)
		return 2
	}
	var rep map[string]interface{}
	json.Unmarshal(data, &rep)
	fmt.Printf("obligation: %v\nclause: %v\nreason: %v\n", rep["obligation"], rep["clause"], rep["reason"])
	if rr, ok := rep["replay"].(map[string]interface{}); ok && rr != nil {
		if cmd, ok := rr["cmd"].(string); ok && cmd != "" {
			fmt.Println("re-running:", cmd)
			out, code := shell(cmd, repo, 120)
			fmt.Println(out)
			if code != 0 {
				fmt.Println("reproduced: the real code violates the clause on this input")
				return 1
			}
			fmt.Println("not reproduced")
			return 0
		}
	}
	fmt.Println("no executable replay recorded for this obligation (solver output is in the file)")
	return 1
}

func shortKeys(m map[string]bool) []string {
	var out []string
	for k := range m {
		out = append(out, shortKey(k))
	}
	sort.Strings(out)
	return out
}

// slowTop: the ten slowest obligations of the run (solver seconds, all stages), for the evidence.
func slowTop(in interface{}) interface{} {
	v := reflect.ValueOf(in)
	idx := make([]int, v.Len())
	for i := range idx {
		idx[i] = i
	}
	sort.Slice(idx, func(a, b int) bool {
		return v.Index(idx[a]).FieldByName("Seconds").Float() > v.Index(idx[b]).FieldByName("Seconds").Float()
	})
	var out []interface{}
	for i := 0; i < len(idx) && i < 10; i++ {
		out = append(out, v.Index(idx[i]).Interface())
	}
	return out
}
