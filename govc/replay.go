package main

// Replay of solver counterexamples against the real code, bounded stand-ins,
// and small process helpers.

import (
	"bytes"
	"context"
	"encoding/json"
	"fmt"
	"os"
	"os/exec"
	"path/filepath"
	"regexp"
	"go/types"
	"sort"
	"strings"
	"time"

	"golang.org/x/tools/go/ssa"
)

type replayResult struct {
	Attempted  bool              `json:"attempted"`
	Reproduced bool              `json:"reproduced"`
	Note       string            `json:"note"`
	Inputs     map[string]string `json:"inputs,omitempty"`
	TestFile   string            `json:"test_file,omitempty"`
	Cmd        string            `json:"cmd,omitempty"`
	Output     string            `json:"output,omitempty"`
}

func shell(cmd, dir string, timeoutS int) (string, int) {
	ctx, cancel := context.WithTimeout(context.Background(), time.Duration(timeoutS)*time.Second)
	defer cancel()
	c := exec.CommandContext(ctx, "bash", "-c", cmd)
	c.Dir = dir
	c.Env = append(os.Environ(), "GOFLAGS=-mod=mod", "GOPROXY=off", "GOSUMDB=off", "GOTOOLCHAIN=local")
	var out bytes.Buffer
	c.Stdout = &out
	c.Stderr = &out
	err := c.Run()
	code := 0
	if err != nil {
		code = 1
		if ee, ok := err.(*exec.ExitError); ok {
			code = ee.ExitCode()
		}
	}
	return out.String(), code
}

// callClosure returns the keys of all repository functions reachable from the
// given roots through static calls, invokes resolved by CHA-lite over
// repository types, and closures.
func (p *Program) callClosure(roots []string) []string {
	seen := map[*ssa.Function]bool{}
	var order []*ssa.Function
	var visit func(fn *ssa.Function)
	inScope := func(fn *ssa.Function) bool {
		pp := pkgPathOf(fn)
		return isRepoPkg(pp) && !strings.Contains(pp, "/mocks") && !strings.HasSuffix(pp, "/testutil")
	}
	// method sets for invoke resolution
	visit = func(fn *ssa.Function) {
		if fn == nil || seen[fn] || len(fn.Blocks) == 0 || !inScope(fn) {
			return
		}
		seen[fn] = true
		order = append(order, fn)
		for _, b := range fn.Blocks {
			for _, ins := range b.Instrs {
				switch x := ins.(type) {
				case *ssa.MakeClosure:
					visit(x.Fn.(*ssa.Function))
				case ssa.CallInstruction:
					cc := x.Common()
					if cc.IsInvoke() {
						for _, impl := range p.implementations(cc) {
							visit(impl)
						}
					} else if callee := cc.StaticCallee(); callee != nil {
						visit(callee)
					}
				}
			}
		}
	}
	for _, r := range roots {
		visit(p.findFunc(expandKey(p, r)))
	}
	var out []string
	for _, fn := range order {
		out = append(out, keyOfFunction(fn))
	}
	sort.Strings(out)
	return out
}

func (p *Program) implementations(cc *ssa.CallCommon) []*ssa.Function {
	var out []*ssa.Function
	it, ok := cc.Value.Type().Underlying().(*types.Interface)
	if !ok {
		return nil
	}
	for _, pk := range p.SSA.AllPackages() {
		if !isRepoPkg(pk.Pkg.Path()) || strings.Contains(pk.Pkg.Path(), "/mocks") {
			continue
		}
		for _, m := range pk.Members {
			t, ok := m.(*ssa.Type)
			if !ok {
				continue
			}
			if _, isI := t.Type().Underlying().(*types.Interface); isI {
				continue
			}
			for _, typ := range []types.Type{t.Type(), types.NewPointer(t.Type())} {
				if !types.Implements(typ, it) {
					continue
				}
				sel := p.SSA.MethodSets.MethodSet(typ).Lookup(cc.Method.Pkg(), cc.Method.Name())
				if sel == nil {
					continue
				}
				if fn := p.SSA.MethodValue(sel); fn != nil {
					out = append(out, fn)
				}
				break
			}
		}
	}
	return out
}

// ---------------------------------------------------------------------------
// bounded stand-ins: Go tests injected into the repository package by overlay

type boundedResult struct {
	Status  string // pass fail error
	Cases   int
	Seconds float64
	Output  string
	FailMsg string
	FailID  string
	Fails   [][2]string // every BOUNDED-FAIL line: id, message
}

var reCases = regexp.MustCompile(`BOUNDED-CASES (\d+)`)
var reFail = regexp.MustCompile(`BOUNDED-FAIL (\S+) (.*)`)

func runBounded(repo, verif, prop, pkg, test, file, tier string, seed int) boundedResult {
	t0 := time.Now()
	src := filepath.Join(verif, "bounded", file)
	if _, err := os.Stat(src); err != nil {
		return boundedResult{Status: "error", Output: "missing bounded harness " + src}
	}
	// the overlay file and the injected test live outside /repo and /verif's tracked tree
	tmp, err := os.MkdirTemp("", "govc-bounded-")
	if err != nil {
		return boundedResult{Status: "error", Output: err.Error()}
	}
	defer os.RemoveAll(tmp)
	target := filepath.Join(repo, pkg, "zz_verif_bounded_test.go")
	ov := map[string]map[string]string{"Replace": {target: src}}
	// optional helper file next to the harness
	helper := strings.TrimSuffix(src, ".go") + "_helper.go"
	if _, err := os.Stat(helper); err == nil {
		ov["Replace"][filepath.Join(repo, pkg, "zz_verif_bounded_helper_test.go")] = helper
	}
	ovData, _ := json.Marshal(ov)
	ovFile := filepath.Join(tmp, "overlay.json")
	os.WriteFile(ovFile, ovData, 0o644)
	outFile := filepath.Join(tmp, "out.txt")
	timeout := "300s"
	if tier == "thorough" {
		timeout = "3000s"
	}
	cmd := fmt.Sprintf("ulimit -v 8000000; VERIF_TIER=%s VERIF_SEED=%d GOCACHE=%s go test -v -overlay %s -vet=off -count=1 -timeout %s -run '^%s$' ./%s > %s 2>&1; if [ $(wc -l < %s) -gt 300 ]; then head -n 100 %s; echo '[... output shortened ...]'; tail -n 200 %s; else cat %s; fi",
		tier, seed, filepath.Join(verif, "work", "gocache"), ovFile, timeout, test, pkg, outFile, outFile, outFile, outFile, outFile)
	out, _ := shell(cmd, repo, 3600)
	res := boundedResult{Output: trunc(out, 8000), Seconds: time.Since(t0).Seconds()}
	if m := reCases.FindStringSubmatch(out); m != nil {
		fmt.Sscanf(m[1], "%d", &res.Cases)
	}
	switch {
	case (strings.Contains(out, "panic:") || strings.Contains(out, "fatal error:")) && !reCases.MatchString(out):
		// the real code panicked under the harness (before the harness finished): that is a failure of
		// its own, whatever BOUNDED-FAIL lines were printed before
		msg := out
		if i := strings.Index(out, "panic:"); i >= 0 {
			msg = out[i:]
		}
		res.Status, res.FailID, res.FailMsg = "fail", "panic", trunc(msg, 400)
		res.Fails = [][2]string{{"panic", trunc(strings.ReplaceAll(msg, "\n", " "), 400)}}
	case reFail.MatchString(out):
		m := reFail.FindStringSubmatch(out)
		res.Status, res.FailID, res.FailMsg = "fail", m[1], m[2]
		for _, mm := range reFail.FindAllStringSubmatch(out, -1) {
			res.Fails = append(res.Fails, [2]string{mm[1], mm[2]})
		}
		if reCases.MatchString(out) {
			// the harness ran to the end: the failures listed are all it found
			res.Status = "fail-complete"
		}
	case strings.Contains(out, "\nok ") || strings.HasPrefix(out, "ok "):
		if res.Cases > 0 {
			res.Status = "pass"
		} else {
			res.Status = "error"
			res.Output = "bounded harness reported no cases\n" + res.Output
		}
	case strings.Contains(out, "--- FAIL") || strings.Contains(out, "panic:"):
		res.Status, res.FailID, res.FailMsg = "fail", "test-failure", trunc(out, 500)
	default:
		res.Status = "error"
	}
	return res
}

// tryReplay is filled in by realizers (replay_real.go).
func tryReplay(p *Program, u *Unit, o *Obligation, repo, verif, dir string) *replayResult {
	var last *replayResult
	for _, r := range realizers {
		if rr := r(p, u, o, repo, verif, dir); rr != nil {
			if rr.Reproduced {
				return rr
			}
			last = rr
		}
	}
	if last != nil {
		return last
	}
	return &replayResult{Attempted: false, Note: "no realizer turns this model into concrete inputs (abstract predicates / uninterpreted values); solver output attached"}
}

type realizer func(p *Program, u *Unit, o *Obligation, repo, verif, dir string) *replayResult

var realizers []realizer

// witnessRealizer: hand-written concrete witnesses for obligations whose models
// (uninterpreted strings, JSON documents) cannot be realised mechanically.
// /verif/replay/witnesses/index.json maps an obligation-name substring to a Go
// test that is injected into the package and fails ("VERIF-REPLAY-FAIL") when
// the real code violates the clause.
type witnessEntry struct {
	Match string `json:"match"`
	Pkg   string `json:"pkg"`
	File  string `json:"file"`
	Test  string `json:"test"`
}

func init() { realizers = append(realizers, witnessRealizer) }

func witnessRealizer(p *Program, u *Unit, o *Obligation, repo, verif, dir string) *replayResult {
	data, err := os.ReadFile(filepath.Join(verif, "replay", "witnesses", "index.json"))
	if err != nil {
		return nil
	}
	var idx []witnessEntry
	if json.Unmarshal(data, &idx) != nil {
		return nil
	}
	var last *replayResult
	for _, w := range idx {
		if !strings.Contains(o.Name, w.Match) {
			continue
		}
		os.MkdirAll(dir, 0o755)
		ovFile := filepath.Join(dir, sanitizeFile(o.Name+"-"+w.Test)+"_overlay.json")
		src := filepath.Join(verif, "replay", "witnesses", w.File)
		ov := map[string]map[string]string{"Replace": {filepath.Join(repo, w.Pkg, "zz_verif_witness_test.go"): src}}
		ovData, _ := json.Marshal(ov)
		os.WriteFile(ovFile, ovData, 0o644)
		cmd := fmt.Sprintf("cd %s && ulimit -v 8000000 && go test -overlay %s -vet=off -count=1 -timeout 60s -run '^%s$' ./%s", repo, ovFile, w.Test, w.Pkg)
		out, code := shell(cmd, repo, 120)
		rr := &replayResult{Attempted: true, TestFile: src, Cmd: cmd, Output: trunc(out, 4000), Inputs: map[string]string{"witness": w.Test}}
		if code != 0 && strings.Contains(out, "VERIF-REPLAY-FAIL") {
			rr.Reproduced = true
			rr.Note = "hand-written witness for this obligation fails on the real code"
			return rr
		}
		rr.Note = "witness does not fail on the real code"
		last = rr
	}
	return last
}
