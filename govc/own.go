package main

// C20: ownership frame + lock discipline.
//
// Ownership is the frame obligation of loops.go (write targets are fresh in the call or named in
// `modifies`, which may name argument-owned memory but never the receiver or package variables).
// This file adds the lock discipline: a ghost lock set is tracked per program point
// (State.locks), fields declared `guarded` may be read only while their lock is held (read or write
// mode) and written only in write mode, and taking a lock forgets what was known about the data it
// guards (other goroutines may have run in between), so a decision made in one critical section
// cannot justify an update made in a later one.

import (
	"fmt"
	"go/types"
	"strings"

	"golang.org/x/tools/go/ssa"
)

type guardedField struct {
	PkgPath string
	Type    string // struct type name ("" for package-level variables)
	Field   string
	Lock    string // field name of the mutex in the same struct, or package-level mutex name
	// InsertOnly: (maps) an entry, once present, is never replaced -- every map update must be of a
	// key shown absent inside the same critical section
	InsertOnly bool
}

const (
	lockNone  = 0
	lockRead  = 1
	lockWrite = 2
)

func mutexMethod(fn *ssa.Function) string {
	if fn == nil || fn.Signature.Recv() == nil {
		return ""
	}
	rt := recvTypeName(fn.Signature.Recv().Type())
	if pkgPathOf(fn) != "sync" || (rt != "RWMutex" && rt != "Mutex") {
		return ""
	}
	switch fn.Name() {
	case "Lock", "Unlock", "RLock", "RUnlock":
		return fn.Name()
	}
	return ""
}

// lockIdentity names a mutex by the address expression it is reached through.
func (f *Frame) lockIdentity(v *Val, src ssa.Value) string {
	if g, ok := src.(*ssa.Global); ok {
		return "global:" + g.Pkg.Pkg.Path() + "." + g.Name()
	}
	if v.Addr != nil {
		var names []string
		t := v.Addr.CellT
		for i, fi := range v.Addr.Path {
			st := v.Addr.PathT[i].Underlying().(*types.Struct)
			names = append(names, st.Field(fi).Name())
			t = st.Field(fi).Type()
		}
		_ = t
		return v.Addr.Base + "." + strings.Join(names, ".")
	}
	return v.T
}

func (f *Frame) lockCallStatic(fn *ssa.Function, cc *ssa.CallCommon, args []*Val) bool {
	m := mutexMethod(fn)
	if m == "" {
		return false
	}
	_ = f.enc
	st := f.curSt
	if st == nil {
		return true
	}
	id := f.lockIdentity(f.val(cc.Args[0]), cc.Args[0])
	if st.locks == nil {
		st.locks = map[string]int{}
	}
	switch m {
	case "Lock":
		f.havocGuarded(st, f.val(cc.Args[0]), cc.Args[0])
		st.locks[id] = lockWrite
	case "RLock":
		f.havocGuarded(st, f.val(cc.Args[0]), cc.Args[0])
		if st.locks[id] < lockRead {
			st.locks[id] = lockRead
		}
	case "Unlock", "RUnlock":
		st.locks[id] = lockNone
	}
	return true
}

func (f *Frame) lockCall(cc *ssa.CallCommon, recv *Val) bool { return false }

// havocGuarded: taking a lock is the point where other goroutines' critical sections become
// visible -- whatever the lock protects may have changed since this goroutine last held it. What a
// method learned about guarded data in an earlier critical section is therefore forgotten here
// (check-then-act across two sections proves nothing about the second one).
func (f *Frame) havocGuarded(st *State, v *Val, src ssa.Value) {
	e := f.enc
	c := e.ctx
	if !e.lockset {
		return
	}
	havocMap := func(mref string, t types.Type) {
		mt, ok := t.Underlying().(*types.Map)
		if !ok {
			return
		}
		hn, hs, vn, vs := c.mapHeaps(t)
		h := e.heapGet(st, hn, hs)
		e.heapSet(st, hn, hs, store(h, mref, c.freshConst("acq.keys", fmt.Sprintf("(Array %s Bool)", c.sortOf(mt.Key())))))
		hv := e.heapGet(st, vn, vs)
		e.heapSet(st, vn, vs, store(hv, mref, c.freshConst("acq.vals", fmt.Sprintf("(Array %s %s)", c.sortOf(mt.Key()), c.sortOf(mt.Elem())))))
	}
	if g, ok := src.(*ssa.Global); ok {
		for _, gf := range e.prog.Guarded {
			if gf.Type != "" || gf.Lock != g.Name() || gf.PkgPath != g.Pkg.Pkg.Path() {
				continue
			}
			gv, ok := g.Pkg.Members[gf.Field].(*ssa.Global)
			if !ok {
				continue
			}
			elem := gv.Type().Underlying().(*types.Pointer).Elem()
			n, s := c.cellHeap(elem)
			nv := c.freshConst("acq."+gf.Field, c.sortOf(elem))
			e.heapSet(st, n, s, store(e.heapGet(st, n, s), f.val(gv).T, nv))
			e.assumeTypeInv(st, nv, elem, f.guard())
			havocMap(nv, elem)
		}
		e.bumpTok(st)
		return
	}
	a := v.Addr
	if a == nil || len(a.Path) == 0 {
		return
	}
	i := len(a.Path) - 1
	n, ok := a.PathT[i].(*types.Named)
	if !ok || n.Obj().Pkg() == nil {
		return
	}
	stT := a.PathT[i].Underlying().(*types.Struct)
	lockName := stT.Field(a.Path[i]).Name()
	for _, gf := range e.prog.Guarded {
		if gf.Type != n.Obj().Name() || gf.PkgPath != n.Obj().Pkg().Path() || gf.Lock != lockName {
			continue
		}
		for j := 0; j < stT.NumFields(); j++ {
			if stT.Field(j).Name() != gf.Field {
				continue
			}
			fa := &Addr{Base: a.Base, CellT: a.CellT, Elem: a.Elem, Idx: a.Idx}
			fa.Path = append(append([]int{}, a.Path[:i]...), j)
			fa.PathT = append([]types.Type{}, a.PathT...)
			ft := stT.Field(j).Type()
			if _, isMap := ft.Underlying().(*types.Map); isMap {
				// the map variable itself is set at construction only (a store to it needs the
				// write lock and is checked as such); its contents are what the lock protects
				havocMap(e.load(st, fa), ft)
			} else {
				nv := c.freshConst("acq."+gf.Field, c.sortOf(ft))
				e.storeAddr(st, fa, nv)
				e.assumeTypeInv(st, nv, ft, f.guard())
			}
		}
	}
	e.bumpTok(st)
}

// insertObl: an update of an insert-only guarded map must be of an absent key.
func (f *Frame) insertObl(x *ssa.MapUpdate, what string) {
	e := f.enc
	c := e.ctx
	io := false
	for _, gf := range e.prog.Guarded {
		if gf.InsertOnly && (gf.Type+"."+gf.Field == what || (gf.Type == "" && gf.Field == what)) {
			io = true
		}
	}
	if !io || f.curSt == nil {
		return
	}
	m := f.val(x.Map)
	k := f.val(x.Key)
	hn, hs, _, _ := c.mapHeaps(x.Map.Type())
	has := sel(sel(e.heapGet(f.curSt, hn, hs), m.T), k.T)
	e.addObl(&Obligation{Name: fmt.Sprintf("%s#lock.insert[%s]", e.unit, what), Kind: "lock", Func: f.prefix, Label: "insert",
		Text: "an entry of " + what + " is never replaced: the key is shown absent inside the critical section that inserts it",
		Guard: f.guard(), Goal: not(has), Pos: f.posOf(x)})
}

func lockShort(id string) string {
	if i := strings.LastIndex(id, "."); i >= 0 {
		return id[i+1:]
	}
	return id
}

// guardedLockOf: is field `name` of struct type t (or package variable) declared guarded?
func (p *Program) guardedLockOf(pkgPath, typeName, field string) string {
	for _, g := range p.Guarded {
		if g.PkgPath == pkgPath && g.Type == typeName && g.Field == field {
			return g.Lock
		}
	}
	return ""
}

// guardInfo returns the lock identity protecting the location an address denotes, or "".
func (f *Frame) guardInfo(a *Addr, src ssa.Value) (lockID string, what string) {
	p := f.enc.prog
	if g, ok := src.(*ssa.Global); ok {
		if l := p.guardedLockOf(g.Pkg.Pkg.Path(), "", g.Name()); l != "" {
			return "global:" + g.Pkg.Pkg.Path() + "." + l, g.Name()
		}
		return "", ""
	}
	if a == nil || len(a.Path) == 0 {
		return "", ""
	}
	// last struct step
	i := len(a.Path) - 1
	stT := a.PathT[i]
	n, ok := stT.(*types.Named)
	if !ok || n.Obj().Pkg() == nil {
		return "", ""
	}
	st := stT.Underlying().(*types.Struct)
	fieldName := st.Field(a.Path[i]).Name()
	l := p.guardedLockOf(n.Obj().Pkg().Path(), n.Obj().Name(), fieldName)
	if l == "" {
		return "", ""
	}
	var names []string
	for k := 0; k < i; k++ {
		names = append(names, a.PathT[k].Underlying().(*types.Struct).Field(a.Path[k]).Name())
	}
	names = append(names, l)
	return a.Base + "." + strings.Join(names, "."), n.Obj().Name() + "." + fieldName
}

func (f *Frame) lockObl(lockID, what string, need int, ins ssa.Instruction) {
	e := f.enc
	if !e.lockset || lockID == "" {
		return
	}
	held := lockNone
	if f.curSt != nil && f.curSt.locks != nil {
		held = f.curSt.locks[lockID]
	}
	mode := map[int]string{lockRead: "read", lockWrite: "write"}[need]
	goal := "true"
	if held < need {
		goal = "false"
	}
	e.addObl(&Obligation{Name: fmt.Sprintf("%s#lock.%s[%s]", e.unit, mode, what), Kind: "lock", Func: f.prefix, Label: mode,
		Text: fmt.Sprintf("access to %s needs its lock in %s mode", what, mode), Guard: f.guard(), Goal: goal, Pos: f.posOf(ins)})
}

// lockReadObl: a load through an address.
func (f *Frame) lockReadObl(a *Addr, ins ssa.Instruction) {
	if !f.enc.lockset {
		return
	}
	u, ok := ins.(*ssa.UnOp)
	if !ok {
		return
	}
	if f.freshBase(u.X) {
		return
	}
	id, what := f.guardInfo(a, u.X)
	if id == "" {
		return
	}
	f.lockObl(id, what, lockRead, ins)
	// remember which lock protects the loaded map value
	if f.guardedVals == nil {
		f.guardedVals = map[ssa.Value][2]string{}
	}
	f.guardedVals[u] = [2]string{id, what}
}

func (f *Frame) freshBase(addr ssa.Value) bool {
	r := rootAlloc(addr)
	if r == nil {
		return false
	}
	_, isAlloc := r.(*ssa.Alloc)
	return isAlloc && valueParent(r) == f.fn
}

// ownObl: a store; guarded locations need the write lock.
func (f *Frame) ownObl(base, what string, ins ssa.Instruction, isMap bool) {
	if !f.enc.lockset {
		return
	}
	switch x := ins.(type) {
	case *ssa.Store:
		if f.freshBase(x.Addr) {
			return
		}
		av := f.val(x.Addr)
		var a *Addr
		if av.Addr != nil {
			a = av.Addr
		}
		if id, w := f.guardInfo(a, x.Addr); id != "" {
			f.lockObl(id, w, lockWrite, ins)
		}
	case *ssa.MapUpdate:
		if g, ok := f.guardedVals[x.Map]; ok {
			f.lockObl(g[0], g[1], lockWrite, ins)
			f.insertObl(x, g[1])
		}
	case *ssa.Call:
		// delete(m, k) / copy into a guarded location
		if b, ok := x.Call.Value.(*ssa.Builtin); ok && b.Name() == "delete" && len(x.Call.Args) > 0 {
			if g, ok := f.guardedVals[x.Call.Args[0]]; ok {
				f.lockObl(g[0], g[1], lockWrite, ins)
			}
		}
	}
}

func (f *Frame) lockMapObl(m *Val, ins ssa.Instruction, write bool) {
	if !f.enc.lockset {
		return
	}
	var mv ssa.Value
	switch x := ins.(type) {
	case *ssa.Lookup:
		mv = x.X
	case *ssa.Range:
		mv = x.X
	}
	if mv == nil {
		return
	}
	if g, ok := f.guardedVals[mv]; ok {
		f.lockObl(g[0], g[1], lockRead, ins)
	}
}

// modGiven: does the contract carry a frame? In ownership mode every contract does: one without a
// modifies clause is read as `modifies nothing`, for the function itself and at its call sites alike.
func (e *Enc) modGiven(fc *FuncContract) bool {
	return fc.ModGiven || (e.lockset && !fc.NoFrame)
}
