package main

// Ownership / lock-set obligations (C20). Filled in by own mode.

import (
	"golang.org/x/tools/go/ssa"
)

func (f *Frame) ownObl(base, what string, ins ssa.Instruction, isMap bool) {}
func (f *Frame) lockReadObl(a *Addr, ins ssa.Instruction)                  {}
func (f *Frame) lockMapObl(m *Val, ins ssa.Instruction, write bool)        {}
func (f *Frame) lockCall(cc *ssa.CallCommon, recv *Val) bool               { return false }
func (f *Frame) lockCallStatic(fn *ssa.Function, cc *ssa.CallCommon, args []*Val) bool {
	return false
}
