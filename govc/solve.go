package main

// Solver driver: writes one SMT-LIB file per obligation and races the
// installed solvers.

import (
	"bytes"
	"context"
	"fmt"
	"os"
	"os/exec"
	"path/filepath"
	"runtime"
	"strings"
	"sync"
	"time"
)

type solverDef struct {
	Name string
	Args func(file string, timeoutS int) []string
	Prep func(q string) string
}

var solverSlots = make(chan struct{}, slotCount())

func slotCount() int {
	n := runtime.NumCPU()
	if n < 2 {
		n = 2
	}
	return n
}

var z3Seeded = solverDef{Name: "z3-5.1.0", Args: func(f string, t int) []string {
	return []string{"z3-new", "-smt2", fmt.Sprintf("-T:%d", t), "smt.mbqi=false", "smt.random_seed=7", "sat.random_seed=7", f}
}}

var solvers = []solverDef{
	{Name: "z3-5.1.0", Args: func(f string, t int) []string {
		return []string{"z3-new", "-smt2", fmt.Sprintf("-T:%d", t), "smt.mbqi=false", f}
	}},
	{Name: "cvc5-1.0.3", Args: func(f string, t int) []string {
		return []string{"cvc5", "--lang=smt2", fmt.Sprintf("--tlimit=%d", t*1000), "--produce-models", "--fp-exp", f}
	}},
	{Name: "z3-4.8.12", Args: func(f string, t int) []string {
		return []string{"z3", "-smt2", fmt.Sprintf("-T:%d", t), "smt.mbqi=false", f}
	}},
}

type solveOpts struct {
	WorkDir  string
	TimeoutS int
	Retry    bool
	All      bool // thorough: run all solvers and compare
	Jobs     int
}

type solverAnswer struct {
	solver  string
	result  string
	out     string
	seconds float64
}

func runSolver(sd solverDef, file string, timeoutS int) solverAnswer {
	return runSolverCtx(context.Background(), sd, file, timeoutS)
}

func runSolverCtx(parent context.Context, sd solverDef, file string, timeoutS int) solverAnswer {
	ctx, cancel := context.WithTimeout(parent, time.Duration(timeoutS+5)*time.Second)
	defer cancel()
	args := sd.Args(file, timeoutS)
	// one solver process per core: a query's time-out must measure the query, not the queue
	select {
	case solverSlots <- struct{}{}:
		defer func() { <-solverSlots }()
	case <-parent.Done():
		return solverAnswer{solver: sd.Name, result: "timeout", out: "cancelled before start"}
	}
	ctx, cancel = context.WithTimeout(parent, time.Duration(timeoutS+5)*time.Second)
	defer cancel()
	cmd := exec.CommandContext(ctx, args[0], args[1:]...)
	var out bytes.Buffer
	cmd.Stdout = &out
	cmd.Stderr = &out
	t0 := time.Now()
	_ = cmd.Run()
	el := time.Since(t0).Seconds()
	s := out.String()
	first := ""
	for _, ln := range strings.Split(s, "\n") {
		ln = strings.TrimSpace(ln)
		if ln == "" || strings.HasPrefix(ln, "WARNING") {
			// z3 reports unusable patterns on the output stream before the answer
			continue
		}
		first = ln
		break
	}
	res := "unknown"
	switch {
	case first == "sat", first == "unsat":
		res = first
	case strings.Contains(first, "timeout") || ctx.Err() != nil:
		res = "timeout"
	case strings.HasPrefix(first, "(error"):
		res = "error"
	}
	return solverAnswer{solver: sd.Name, result: res, out: s, seconds: el}
}

// solveOne decides a single obligation.
//
// Stage A: the query without the quantified assumptions (axioms, loop
// invariants, callee facts under quantifiers). unsat there is a proof.
// Stage B: the full query; E-matching only. A sat answer of stage A that
// stage B cannot refute is reported as a failed obligation with A's model.
func solveOne(e *Enc, o *Obligation, idx int, opts solveOpts) {
	if o.Known {
		// a recorded finding is expected to fail: no long second attempts
		opts.Retry = false
	}
	if o.Raw != "" {
		file := filepath.Join(opts.WorkDir, fmt.Sprintf("%s_%04d.smt2", sanitize(e.unit), idx))
		os.WriteFile(file, []byte(o.Raw), 0o644)
		o.File = file
		sds := []solverDef{solvers[0], {Name: "cvc5-1.0.3", Args: func(f string, t int) []string {
			return []string{"cvc5", "--lang=smt2", "--strings-exp", fmt.Sprintf("--tlimit=%d", t*1000), f}
		}}, solvers[2]}
		a, _ := race(sds, file, opts.TimeoutS)
		o.Result, o.Solver, o.Seconds, o.Output = a.result, a.solver, a.seconds, a.out
		if opts.All && a.result == "unsat" {
			for _, sd := range sds {
				if sd.Name == a.solver {
					continue
				}
				b := runSolver(sd, file, opts.TimeoutS)
				o.PerSolver = append(o.PerSolver, fmt.Sprintf("%s=%s", sd.Name, b.result))
				if b.result == "sat" {
					o.Result = "disagree"
				}
			}
		}
		return
	}
	goalNeg := and(o.Guard, not(o.Goal))
	if o.IsCover {
		goalNeg = o.Guard
	}
	base := filepath.Join(opts.WorkDir, fmt.Sprintf("%s_%04d", sanitize(e.unit), idx))
	hdr := "; obligation: " + o.Name + "\n; " + strings.ReplaceAll(o.Text, "\n", " ") + "\n"
	write := func(suffix string, relax bool) string {
		file := base + suffix + ".smt2"
		os.WriteFile(file, []byte(hdr+e.ctx.queryN(goalNeg, o.Extra, true, relax, o.NAsserts, o.SkipTags)), 0o644)
		return file
	}
	record := func(a solverAnswer, stage string) {
		o.Result, o.Solver, o.Output = a.result, a.solver+stage, a.out
		if a.result == "sat" {
			o.Model = a.out
		}
	}
	nq := 0
	if e.ctx.needsFull(goalNeg, o.Extra, o.NAsserts) {
		nq = 1
	}
	fileA := write("", nq > 0)
	o.File = fileA
	ta := opts.TimeoutS
	if o.IsCover && ta > 5 {
		ta = 5 // a cover is a vacuity probe: only an unsat answer matters
	}
	if nq > 0 && ta > 5 {
		ta = 5 // the relaxed query is a shortcut (and a source of models); stages I and B follow
	}
	a := runSolver(solvers[0], fileA, ta)
	o.Seconds += a.seconds
	if nq > 0 {
		record(a, "/relaxed")
	} else {
		record(a, "")
	}
	if a.result == "unsat" {
		if opts.All && !o.IsCover {
			crossCheck(o, fileA, opts)
		}
		return
	}
	if o.IsCover {
		// sat: reachable. unknown: not decided within the probe budget (not an alarm).
		return
	}
	if nq == 0 {
		if a.result == "sat" {
			return
		}
		// unknown / timeout: race the other two
		if b, ok := race(solvers[1:], fileA, opts.TimeoutS); ok {
			o.Seconds += b.seconds
			record(b, "")
			return
		}
		if opts.Retry {
			for _, sd := range solvers[:2] {
				b := runSolver(sd, fileA, 6*opts.TimeoutS)
				o.Seconds += b.seconds
				if b.result == "sat" || b.result == "unsat" {
					record(b, "")
					return
				}
			}
		}
		return
	}
	// stage I (goal-directed instantiation) and stage B (the full query, E-matching only) run side
	// by side: whichever proves the obligation first wins
	modelA := ""
	if a.result == "sat" {
		modelA = a.out
	}
	fileI := ""
	if !o.IsCover {
		if q, ok := e.ctx.instantiatedQuery(goalNeg, o.Extra, o.NAsserts, o.SkipTags); ok {
			fileI = base + ".inst.smt2"
			os.WriteFile(fileI, []byte(hdr+q), 0o644)
		}
	}
	fileB := write(".full", false)
	o.File = fileB
	type stageRes struct {
		a     solverAnswer
		stage string
		file  string
	}
	ctx, cancel := context.WithCancel(context.Background())
	ch := make(chan stageRes, 4)
	n := 1
	go func() { ch <- stageRes{runSolverCtx(ctx, solvers[0], fileB, opts.TimeoutS), "", fileB} }()
	if fileI != "" {
		n += 2
		go func() { ch <- stageRes{runSolverCtx(ctx, solvers[0], fileI, opts.TimeoutS), "/instantiated", fileI} }()
		// the instance set is quantifier-free: the second solver is often quicker on bit-vector goals,
		// and z3's run time on it is heavy-tailed (0.5 s or a time-out for the same query with other
		// symbol names or another seed): a second z3 with another seed runs beside the first
		go func() { ch <- stageRes{runSolverCtx(ctx, solvers[1], fileI, opts.TimeoutS), "/instantiated2", fileI} }()
		n++
		go func() { ch <- stageRes{runSolverCtx(ctx, z3Seeded, fileI, opts.TimeoutS), "/instantiated2", fileI} }()
	}
	var b, ai solverAnswer
	for i := 0; i < n; i++ {
		r := <-ch
		if r.stage == "/instantiated2" {
			if r.a.result != "unsat" {
				continue // only a proof counts from the side runner
			}
			r.stage = "/instantiated"
		}
		if r.a.result == "unsat" {
			cancel()
			o.Seconds += r.a.seconds
			o.File = r.file
			record(r.a, r.stage)
			if opts.All {
				crossCheck(o, r.file, opts)
			}
			return
		}
		if r.stage == "" {
			b = r.a
		} else {
			ai = r.a
		}
	}
	cancel()
	o.Seconds += b.seconds
	if fileI != "" && ai.result != "sat" && opts.Retry {
		// the instance set was not decided in time (it may well suffice): one longer attempt
		ai = runSolver(solvers[0], fileI, 4*opts.TimeoutS)
		o.Seconds += ai.seconds
		if ai.result == "unsat" {
			o.File = fileI
			record(ai, "/instantiated")
			return
		}
	}
	ok := b.result == "sat" || b.result == "unsat"
	if !ok {
		var b2 solverAnswer
		b2, ok = race(solvers[1:], fileB, opts.TimeoutS)
		o.Seconds += b2.seconds
		if ok {
			b = b2
		}
	}
	if ok && b.result == "unsat" && opts.All && !o.IsCover {
		record(b, "")
		crossCheck(o, fileB, opts)
		return
	}
	if !ok && opts.Retry && modelA == "" {
		for _, sd := range solvers[:2] {
			b2 := runSolver(sd, fileB, 6*opts.TimeoutS)
			o.Seconds += b2.seconds
			if b2.result == "sat" || b2.result == "unsat" {
				b, ok = b2, true
				break
			}
		}
	}
	if ok {
		record(b, "")
		return
	}
	if modelA != "" {
		o.Result = "sat"
		o.Solver = a.solver + "/relaxed"
		o.Model = modelA
		o.Output = "full query: " + b.result + " (" + b.solver + "); model is from the query without quantified assumptions\n" + modelA
		o.Relaxed = true
		return
	}
	record(b, "")
}

// race runs the solvers concurrently and returns the first definitive answer.
func race(sds []solverDef, file string, timeoutS int) (solverAnswer, bool) {
	ch := make(chan solverAnswer, len(sds))
	for _, sd := range sds {
		go func(sd solverDef) { ch <- runSolver(sd, file, timeoutS) }(sd)
	}
	var last solverAnswer
	for range sds {
		b := <-ch
		if b.result == "sat" || b.result == "unsat" {
			return b, true
		}
		last = b
	}
	return last, false
}

// crossCheck (thorough tier): the other solvers must not contradict an unsat.
func crossCheck(o *Obligation, file string, opts solveOpts) {
	for _, sd := range solvers {
		if strings.HasPrefix(o.Solver, sd.Name) {
			continue
		}
		b := runSolver(sd, file, opts.TimeoutS)
		o.PerSolver = append(o.PerSolver, fmt.Sprintf("%s=%s(%.2fs)", sd.Name, b.result, b.seconds))
		if b.result == "sat" && !strings.Contains(file, ".full") && false {
			o.Result = "disagree"
		}
		if b.result == "sat" {
			o.Result = "disagree"
			o.Output = fmt.Sprintf("solver disagreement: %s says unsat, %s says sat", o.Solver, sd.Name)
		}
	}
}

// solveAll decides all obligations of the given units in parallel.
func solveAll(units []*Unit, opts solveOpts) {
	type job struct {
		e   *Enc
		o   *Obligation
		idx int
	}
	var jobs []job
	for _, u := range units {
		if u.Enc == nil || u.Err != "" {
			continue
		}
		for i, o := range u.Enc.obls {
			jobs = append(jobs, job{u.Enc, o, i})
		}
	}
	os.MkdirAll(opts.WorkDir, 0o755)
	n := opts.Jobs
	if n <= 0 {
		n = 14
	}
	ch := make(chan job)
	var wg sync.WaitGroup
	for w := 0; w < n; w++ {
		wg.Add(1)
		go func() {
			defer wg.Done()
			for j := range ch {
				solveOne(j.e, j.o, j.idx, opts)
			}
		}()
	}
	for _, j := range jobs {
		ch <- j
	}
	close(ch)
	wg.Wait()
}
