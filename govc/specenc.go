package main

// Evaluation of contract expressions to SMT terms in a given program state.

import (
	"os"
	"fmt"
	"go/constant"
	"go/types"
	"math/big"
	"strings"

	"golang.org/x/tools/go/ssa"
)

type Env struct {
	enc   *Enc
	frame *Frame
	vars  map[string]*Val
	st    *State
	old   *State
	res   *typeResolver
	fc    *FuncContract
	loop  *loopInfo
	bound map[string]*Val
	ghost bool // lemma mode: calls to contracted functions instantiate their contracts
	renaming bool // resolving a recorded binding (no second indirection)
	memoFresh *memoInfo // ensures of a memoising callee: fresh(x) reads 'new, or handed out before for the same arguments and state'
	inLet bool // inside a spec function body: arguments are SMT let-bound names, nothing may be asserted about them
	depth int
}

func (env *Env) clone() *Env {
	n := *env
	n.vars = map[string]*Val{}
	for k, v := range env.vars {
		n.vars[k] = v
	}
	if env.bound != nil {
		n.bound = map[string]*Val{}
		for k, v := range env.bound {
			n.bound[k] = v
		}
	}
	return &n
}

var tBool = types.Typ[types.Bool]
var tInt = types.Typ[types.Int]
var tString = types.Typ[types.String]

func boolVal(t string) *Val { return &Val{T: t, Typ: tBool, ConstLen: -1} }

func (env *Env) evalBool(e *Expr) (string, error) {
	v, err := env.eval(e)
	if err != nil {
		return "", err
	}
	if v.Typ == nil || !isBool(v.Typ) {
		return "", fmt.Errorf("expression %s is not boolean", e)
	}
	return v.T, nil
}

func (f *Frame) funcEnv(st, old *State) *Env {
	e := f.enc
	fc := f.contract
	pkg := pkgPathOf(f.fn)
	var imports map[string]string
	if fc != nil {
		pkg = fc.PkgPath
		imports = e.importsFor(fc)
	}
	vars := map[string]*Val{}
	for k, v := range f.params {
		vars[k] = v
	}
	return &Env{enc: e, frame: f, vars: vars, st: st, old: old, res: e.prog.resolver(pkg, imports), fc: fc}
}

func (f *Frame) loopEnv(li *loopInfo, st *State) *Env {
	env := f.funcEnv(st, f.entrySt)
	env.loop = li
	for k, v := range f.lets {
		env.vars[k] = v
	}
	return env
}

func (env *Env) bindLet(l *Let) error {
	v, err := env.eval(l.E)
	if err != nil {
		return err
	}
	name := func(x *Val) *Val {
		// a contract-level let is a named constant (keeps clause terms small)
		if len(env.bound) > 0 || x.T == "" || len(x.T) < 40 || x.Typ == nil {
			return x
		}
		nx := *x
		nx.T = env.enc.ctx.define("let."+l.Names[0], sortOfVal(env.enc.ctx, x), x.T)
		return &nx
	}
	if len(l.Names) == 1 {
		if v.Tup == nil {
			v = name(v)
		}
		env.vars[l.Names[0]] = v
		return nil
	}
	if v.Tup == nil || len(v.Tup) != len(l.Names) {
		return fmt.Errorf("let %s: expected %d values", l.Text, len(l.Names))
	}
	for i, n := range l.Names {
		if n != "_" {
			env.vars[n] = v.Tup[i]
		}
	}
	return nil
}

// coerce gives an untyped literal the type of the other operand.
func (env *Env) coerce(v *Val, t types.Type) (*Val, error) {
	if !v.Untyped || t == nil {
		return v, nil
	}
	if w, _, ok := intInfo(t); ok {
		return &Val{T: bvLit(uint64(v.IntVal), w), Typ: t, ConstLen: -1}, nil
	}
	return nil, fmt.Errorf("cannot use integer literal as %s", t)
}

func (env *Env) lookupName(name string) (*Val, error) {
	if v, ok := env.bound[name]; ok {
		return v, nil
	}
	if env.loop != nil && env.frame != nil {
		li := env.loop
		if name == "$k" && li.rangeIdx != nil {
			x := li.phiVal[li.rangeIdx]
			return &Val{T: "(bvadd " + x.T + " #x0000000000000001)", Typ: tInt, ConstLen: -1}, nil
		}
		if name == "$k" && li.idxPhi != nil {
			if w, _, ok := intInfo(li.idxPhi.Type()); ok && w == 64 {
				return &Val{T: li.phiVal[li.idxPhi].T, Typ: tInt, ConstLen: -1}, nil
			}
		}
		for phi, v := range li.phiVal {
			if phi.Comment == name {
				return v, nil
			}
		}
	}
	if v, ok := env.vars[name]; ok {
		return v, nil
	}
	if env.frame != nil {
		if v := env.frame.localByName(name, env); v != nil {
			return v, nil
		}
	}
	// package-level object
	if env.res != nil {
		if obj := env.res.lookupObj(name); obj != nil {
			return env.objVal(obj)
		}
	}
	return nil, fmt.Errorf("unknown name %q", name)
}

// localByName resolves a source-level local variable through debug references.
func (f *Frame) localByName(name string, env *Env) *Val {
	type cand struct {
		x      ssa.Value
		isAddr bool
	}
	collect := func(onlyInLoop bool) []cand {
		var out []cand
		seen := map[ssa.Value]bool{}
		for _, b := range f.fn.Blocks {
			if onlyInLoop && (env.loop == nil || !env.loop.body[b]) {
				continue
			}
			for _, ins := range b.Instrs {
				d, ok := ins.(*ssa.DebugRef)
				if !ok || d.Object() == nil || d.Object().Name() != name {
					continue
				}
				if _, defined := f.vals[d.X]; !defined {
					if _, isC := d.X.(*ssa.Const); !isC {
						continue
					}
				}
				if env.loop != nil {
					// only values defined outside the loop are stable names inside an invariant
					if vi, ok := d.X.(ssa.Instruction); ok && env.loop.body[vi.Block()] {
						continue
					}
				}
				if !seen[d.X] {
					seen[d.X] = true
					out = append(out, cand{d.X, d.IsAddr})
				}
			}
		}
		return out
	}
	var cs []cand
	if env.loop != nil {
		// the value the loop itself refers to under this name
		cs = collect(true)
	}
	if len(cs) != 1 {
		cs = collect(false)
	}
	if len(cs) > 1 {
		// a declaration is recorded with the zero constant before the initialising value is
		var real []cand
		for _, c := range cs {
			if k, isC := c.x.(*ssa.Const); isC && k.Value == nil {
				continue
			}
			real = append(real, c)
		}
		if len(real) >= 1 {
			cs = real
		}
	}
	if len(cs) > 1 && env.loop != nil {
		// several versions of the variable reach the loop (e.g. the value an earlier loop left behind):
		// the current one is the version defined last, i.e. the one whose definition all others dominate
		for _, c := range cs {
			ci, ok := c.x.(ssa.Instruction)
			if !ok || ci.Block() == nil || !ci.Block().Dominates(env.loop.header) {
				continue
			}
			last := true
			for _, d := range cs {
				if d.x == c.x {
					continue
				}
				di, ok := d.x.(ssa.Instruction)
				if ok && di.Block() != nil && !di.Block().Dominates(env.loop.header) {
					continue // a version defined later (e.g. at the end of the enclosing loop's body)
				}
				if !ok || di.Block() == nil || !di.Block().Dominates(ci.Block()) || di.Block() == ci.Block() {
					last = false
				}
			}
			if last {
				cs = []cand{c}
				break
			}
		}
	}
	if len(cs) == 0 && !env.renaming {
		// the name does not exist (any more): the variable recorded for it, under its current name
		if cur := f.enc.prog.renamedLocal(f.fn, name); cur != "" && cur != name {
			env.renaming = true
			v := f.localByName(cur, env)
			env.renaming = false
			if v != nil {
				f.enc.renamed[name+" -> "+cur+" in "+shortFunc(f.fn)] = true
			}
			return v
		}
	}
	if len(cs) != 1 {
		if os.Getenv("GOVC_DEBUG") != "" {
			fmt.Fprintf(os.Stderr, "localByName %s: %d candidates in %s:", name, len(cs), f.fn)
			for _, c := range cs {
				fmt.Fprintf(os.Stderr, " %s=%s", c.x.Name(), c.x)
			}
			fmt.Fprintln(os.Stderr)
		}
		return nil
	}
	v := f.val(cs[0].x)
	if cs[0].isAddr {
		a := f.enc.addrOfPointer(v)
		return &Val{T: f.enc.load(env.st, a), Typ: a.typ(), ConstLen: -1}
	}
	return v
}

func (env *Env) objVal(obj types.Object) (*Val, error) {
	c := env.enc.ctx
	switch o := obj.(type) {
	case *types.Const:
		t := o.Type()
		switch {
		case isBool(t):
			return boolVal(fmt.Sprint(constant.BoolVal(o.Val()))), nil
		case isString(t):
			return &Val{T: c.strLit(constant.StringVal(o.Val())), Typ: t, ConstLen: -1}, nil
		default:
			if b, ok := t.Underlying().(*types.Basic); ok && b.Info()&types.IsUntyped != 0 {
				iv, _ := constant.Int64Val(constant.ToInt(o.Val()))
				return &Val{Untyped: true, IntVal: iv, Typ: tInt, T: bv64(iv), ConstLen: -1}, nil
			}
			if w, _, ok := intInfo(t); ok {
				if iv, exact := constant.Int64Val(constant.ToInt(o.Val())); exact {
					return &Val{T: bvLit(uint64(iv), w), Typ: t, ConstLen: -1}, nil
				}
				uv, _ := constant.Uint64Val(constant.ToInt(o.Val()))
				return &Val{T: bvLit(uv, w), Typ: t, ConstLen: -1}, nil
			}
		}
	case *types.Var:
		if o.Pkg() != nil && o.Parent() == o.Pkg().Scope() {
			// package-level variable: load from its cell
			name := "g$" + o.Pkg().Path() + "." + o.Name()
			g := c.declConst(name, sortRef)
			if !c.declared["ginit:"+name] {
				c.declared["ginit:"+name] = true
				c.assert(fmt.Sprintf("(not (= %s nil))", g))
				env.enc.heapInit("alloc", "(Array Ref Bool)", 0)
				c.assert(fmt.Sprintf("(select alloc!0 %s)", g))
				c.lateDecls = append(c.lateDecls, g)
			}
			a := &Addr{Base: g, CellT: o.Type()}
			return &Val{T: env.enc.load(env.st, a), Typ: o.Type(), ConstLen: -1}, nil
		}
	case *types.Nil:
		return &Val{T: "nil", Typ: types.Typ[types.UntypedNil], ConstLen: -1}, nil
	}
	return nil, fmt.Errorf("cannot use %s in a contract", obj)
}

func (env *Env) eval(e *Expr) (*Val, error) {
	c := env.enc.ctx
	switch e.Op {
	case "int":
		if !e.Int.IsInt64() {
			if e.Int.IsUint64() {
				return &Val{Untyped: true, IntVal: int64(e.Int.Uint64()), T: bvLit(e.Int.Uint64(), 64), Typ: tInt, ConstLen: -1}, nil
			}
			return nil, fmt.Errorf("integer literal out of range")
		}
		return &Val{Untyped: true, IntVal: e.Int.Int64(), T: bv64(e.Int.Int64()), Typ: tInt, ConstLen: -1}, nil
	case "str":
		return &Val{T: c.strLit(e.Str), Typ: tString, ConstLen: -1}, nil
	case "bool":
		return boolVal(fmt.Sprint(e.Bool)), nil
	case "nil":
		return &Val{T: "nil", Typ: types.Typ[types.UntypedNil], ConstLen: -1}, nil
	case "id":
		return env.lookupName(e.Name)
	case "old":
		n := *env
		n.st = env.old
		return n.eval(e.Args[0])
	case "un":
		v, err := env.eval(e.Args[0])
		if err != nil {
			return nil, err
		}
		switch e.Name {
		case "!":
			if !isBool(v.Typ) {
				return nil, fmt.Errorf("! on non-boolean")
			}
			return boolVal(not(v.T)), nil
		case "-":
			if v.Untyped {
				return &Val{Untyped: true, IntVal: -v.IntVal, T: bv64(-v.IntVal), Typ: tInt, ConstLen: -1}, nil
			}
			return &Val{T: "(bvneg " + v.T + ")", Typ: v.Typ, ConstLen: -1}, nil
		}
	case "bin":
		return env.evalBin(e)
	case "sel":
		return env.evalSel(e)
	case "idx":
		return env.evalIndex(e)
	case "slice":
		return env.evalSlice(e)
	case "call":
		return env.evalCall(e)
	case "tassert":
		v, err := env.eval(e.Args[0])
		if err != nil {
			return nil, err
		}
		t, err := env.res.resolveTypeSrc(e.TypeSrc)
		if err != nil {
			return nil, err
		}
		if !isIface(v.Typ) {
			return nil, fmt.Errorf("type assertion on non-interface")
		}
		if isIface(t) {
			return &Val{T: v.T, Typ: t, ConstLen: -1}, nil
		}
		return &Val{T: c.unbox(t, v.T), Typ: t, ConstLen: -1}, nil
	case "forall", "exists":
		n := env.clone()
		if n.bound == nil {
			n.bound = map[string]*Val{}
		}
		var decls []string
		var guards []string
		for _, bv := range e.Vars {
			t, err := env.res.resolveTypeSrc(bv.TypeSrc)
			if err != nil {
				return nil, err
			}
			name := c.freshName("q." + bv.Name)
			decls = append(decls, fmt.Sprintf("(%s %s)", name, c.sortOf(t)))
			n.bound[bv.Name] = &Val{T: name, Typ: t, ConstLen: -1}
			_ = guards
		}
		body, err := n.evalBool(e.Args[0])
		if err != nil {
			return nil, err
		}
		c.usesQuant = true
		return boolVal(fmt.Sprintf("(%s (%s) %s)", e.Op, strings.Join(decls, " "), body)), nil
	}
	return nil, fmt.Errorf("unsupported expression %s", e)
}

func (env *Env) evalBin(e *Expr) (*Val, error) {
	op := e.Name
	switch op {
	case "&&", "||", "==>", "<==>":
		a, err := env.evalBool(e.Args[0])
		if err != nil {
			return nil, err
		}
		b, err := env.evalBool(e.Args[1])
		if err != nil {
			return nil, err
		}
		switch op {
		case "&&":
			return boolVal(and(a, b)), nil
		case "||":
			return boolVal(or(a, b)), nil
		case "==>":
			return boolVal(implies(a, b)), nil
		default:
			return boolVal(eq(a, b)), nil
		}
	}
	a, err := env.eval(e.Args[0])
	if err != nil {
		return nil, err
	}
	b, err := env.eval(e.Args[1])
	if err != nil {
		return nil, err
	}
	if a.Untyped && b.Untyped {
		// constant folding on literals
		x, y := big.NewInt(a.IntVal), big.NewInt(b.IntVal)
		r := new(big.Int)
		switch op {
		case "+":
			r.Add(x, y)
		case "-":
			r.Sub(x, y)
		case "*":
			r.Mul(x, y)
		case "==", "!=", "<", "<=", ">", ">=":
			cmp := x.Cmp(y)
			res := map[string]bool{"==": cmp == 0, "!=": cmp != 0, "<": cmp < 0, "<=": cmp <= 0, ">": cmp > 0, ">=": cmp >= 0}[op]
			return boolVal(fmt.Sprint(res)), nil
		default:
			return nil, fmt.Errorf("unsupported operator %s on literals", op)
		}
		return &Val{Untyped: true, IntVal: r.Int64(), T: bv64(r.Int64()), Typ: tInt, ConstLen: -1}, nil
	}
	if a, err = env.coerce(a, b.Typ); err != nil {
		return nil, err
	}
	if b, err = env.coerce(b, a.Typ); err != nil {
		return nil, err
	}
	// nil against the other operand's sort
	if a.T == "nil" && b.Typ != nil && isIface(b.Typ) {
		a = &Val{T: "nilIface", Typ: b.Typ}
	}
	if b.T == "nil" && a.Typ != nil && isIface(a.Typ) {
		b = &Val{T: "nilIface", Typ: a.Typ}
	}
	if a.T == "nil" && b.Typ != nil {
		if _, ok := b.Typ.Underlying().(*types.Slice); ok {
			return env.sliceNilCmp(op, b)
		}
	}
	if b.T == "nil" && a.Typ != nil {
		if _, ok := a.Typ.Underlying().(*types.Slice); ok {
			return env.sliceNilCmp(op, a)
		}
	}
	if a.T == "" || b.T == "" {
		return nil, fmt.Errorf("cannot compare tuple / address values in %s", e)
	}
	sa, sb := sortOfVal(env.enc.ctx, a), sortOfVal(env.enc.ctx, b)
	if sa != sb {
		return nil, fmt.Errorf("operands of %s have different sorts (%s vs %s) in %s", op, sa, sb, e)
	}
	switch op {
	case "==":
		return boolVal(eq(a.T, b.T)), nil
	case "!=":
		return boolVal(not(eq(a.T, b.T))), nil
	}
	if isString(a.Typ) {
		if op == "+" {
			return &Val{T: "(scat " + a.T + " " + b.T + ")", Typ: a.Typ, ConstLen: -1}, nil
		}
		return nil, fmt.Errorf("unsupported string operator %s", op)
	}
	w, signed, ok := intInfo(a.Typ)
	if !ok {
		return nil, fmt.Errorf("operator %s on non-integer operands in %s", op, e)
	}
	tokOf := map[string]string{"+": "bvadd", "-": "bvsub", "*": "bvmul", "&": "bvand", "|": "bvor", "^": "bvxor"}
	if o, ok := tokOf[op]; ok {
		return &Val{T: "(" + o + " " + a.T + " " + b.T + ")", Typ: a.Typ, ConstLen: -1}, nil
	}
	pick := func(s, u string) string {
		if signed {
			return s
		}
		return u
	}
	switch op {
	case "/":
		return &Val{T: "(" + pick("bvsdiv", "bvudiv") + " " + a.T + " " + b.T + ")", Typ: a.Typ, ConstLen: -1}, nil
	case "%":
		return &Val{T: "(" + pick("bvsrem", "bvurem") + " " + a.T + " " + b.T + ")", Typ: a.Typ, ConstLen: -1}, nil
	case "<<":
		return &Val{T: "(bvshl " + a.T + " " + b.T + ")", Typ: a.Typ, ConstLen: -1}, nil
	case ">>":
		return &Val{T: "(" + pick("bvashr", "bvlshr") + " " + a.T + " " + b.T + ")", Typ: a.Typ, ConstLen: -1}, nil
	case "<":
		return boolVal("(" + pick("bvslt", "bvult") + " " + a.T + " " + b.T + ")"), nil
	case "<=":
		return boolVal("(" + pick("bvsle", "bvule") + " " + a.T + " " + b.T + ")"), nil
	case ">":
		return boolVal("(" + pick("bvsgt", "bvugt") + " " + a.T + " " + b.T + ")"), nil
	case ">=":
		return boolVal("(" + pick("bvsge", "bvuge") + " " + a.T + " " + b.T + ")"), nil
	}
	_ = w
	return nil, fmt.Errorf("unsupported operator %s", op)
}

func (env *Env) sliceNilCmp(op string, s *Val) (*Val, error) {
	isNil := eq("(s.arr "+s.T+")", "nil")
	switch op {
	case "==":
		return boolVal(isNil), nil
	case "!=":
		return boolVal(not(isNil)), nil
	}
	return nil, fmt.Errorf("unsupported comparison of slice with nil")
}

func sortOfVal(c *Ctx, v *Val) string {
	if v.IsSet {
		mt := v.Typ.Underlying().(*types.Map)
		return fmt.Sprintf("(Array %s Bool)", c.sortOf(mt.Key()))
	}
	if v.T == "nil" {
		return sortRef
	}
	if v.T == "nilIface" {
		return sortIface
	}
	if v.Typ == nil {
		return "?"
	}
	return c.sortOf(v.Typ)
}

// fieldPath finds the index path to a (possibly promoted) field.
func fieldPath(t types.Type, name string) ([]int, bool) {
	st, ok := derefType(t).Underlying().(*types.Struct)
	if !ok {
		return nil, false
	}
	for i := 0; i < st.NumFields(); i++ {
		if st.Field(i).Name() == name {
			return []int{i}, true
		}
	}
	for i := 0; i < st.NumFields(); i++ {
		if st.Field(i).Embedded() {
			if _, isS := derefType(st.Field(i).Type()).Underlying().(*types.Struct); isS {
				if p, ok := fieldPath(st.Field(i).Type(), name); ok {
					return append([]int{i}, p...), true
				}
			}
		}
	}
	return nil, false
}

func (env *Env) evalSel(e *Expr) (*Val, error) {
	// package-qualified name?
	if e.Args[0].Op == "id" {
		if _, err := env.lookupName(e.Args[0].Name); err != nil && env.res != nil {
			if pk := env.res.lookupPkg(e.Args[0].Name); pk != nil {
				obj := pk.Scope().Lookup(e.Name)
				if obj == nil {
					return nil, fmt.Errorf("unknown %s.%s", e.Args[0].Name, e.Name)
				}
				return env.objVal(obj)
			}
		}
	}
	base, err := env.eval(e.Args[0])
	if err != nil {
		return nil, err
	}
	if base.Tup != nil {
		for i, n := range base.TupNames {
			if n == e.Name {
				return base.Tup[i], nil
			}
		}
		var idx int
		if _, err := fmt.Sscanf(e.Name, "%d", &idx); err == nil && idx < len(base.Tup) {
			return base.Tup[idx], nil
		}
		return nil, fmt.Errorf("no result named %s", e.Name)
	}
	return env.selectField(base, e.Name)
}

func (env *Env) selectField(base *Val, name string) (*Val, error) {
	c := env.enc.ctx
	path, ok := fieldPath(base.Typ, name)
	if !ok {
		return nil, fmt.Errorf("type %s has no field %s", base.Typ, name)
	}
	cur := base
	for _, i := range path {
		t := cur.Typ
		if pt, isPtr := t.Underlying().(*types.Pointer); isPtr {
			a := &Addr{Base: cur.T, CellT: pt.Elem()}
			cur = &Val{T: env.enc.load(env.st, a), Typ: pt.Elem(), ConstLen: -1}
			t = pt.Elem()
		}
		st := t.Underlying().(*types.Struct)
		cur = &Val{T: c.structField(t, cur.T, i), Typ: st.Field(i).Type(), ConstLen: -1}
	}
	return cur, nil
}

func (env *Env) evalIndex(e *Expr) (*Val, error) {
	c := env.enc.ctx
	base, err := env.eval(e.Args[0])
	if err != nil {
		return nil, err
	}
	idx, err := env.eval(e.Args[1])
	if err != nil {
		return nil, err
	}
	switch t := base.Typ.Underlying().(type) {
	case *types.Slice:
		if idx, err = env.coerce(idx, tInt); err != nil {
			return nil, err
		}
		n, s := c.elemHeap(t.Elem())
		h := env.enc.heapGet(env.st, n, s)
		return &Val{T: sel(sel(h, "(s.arr "+base.T+")"), "(bvadd (s.off "+base.T+") "+idx.T+")"), Typ: t.Elem(), ConstLen: -1}, nil
	case *types.Map:
		if idx, err = env.coerce(idx, t.Key()); err != nil {
			return nil, err
		}
		hn, hs, vn, vs := c.mapHeaps(base.Typ)
		has := and(not(eq(base.T, "nil")), sel(sel(env.enc.heapGet(env.st, hn, hs), base.T), idx.T))
		return &Val{T: ite(has, sel(sel(env.enc.heapGet(env.st, vn, vs), base.T), idx.T), c.zero(t.Elem())), Typ: t.Elem(), ConstLen: -1}, nil
	case *types.Basic:
		if isString(base.Typ) {
			if idx, err = env.coerce(idx, tInt); err != nil {
				return nil, err
			}
			c.declFun("charAt", []string{sortStr, sortBV64}, "(_ BitVec 8)")
			return &Val{T: "(charAt " + base.T + " " + idx.T + ")", Typ: types.Typ[types.Uint8], ConstLen: -1}, nil
		}
	}
	return nil, fmt.Errorf("cannot index %s", base.Typ)
}

func (env *Env) evalSlice(e *Expr) (*Val, error) {
	base, err := env.eval(e.Args[0])
	if err != nil {
		return nil, err
	}
	lo := "#x0000000000000000"
	if e.Args[1] != nil {
		v, err := env.eval(e.Args[1])
		if err != nil {
			return nil, err
		}
		lo = v.T
	}
	if _, ok := base.Typ.Underlying().(*types.Slice); ok {
		hi := "(s.len " + base.T + ")"
		if e.Args[2] != nil {
			v, err := env.eval(e.Args[2])
			if err != nil {
				return nil, err
			}
			hi = v.T
		}
		return &Val{T: fmt.Sprintf("(mk-slice (s.arr %s) (bvadd (s.off %s) %s) (bvsub %s %s) (bvsub (s.cap %s) %s))", base.T, base.T, lo, hi, lo, base.T, lo), Typ: base.Typ, ConstLen: -1}, nil
	}
	if isString(base.Typ) {
		c := env.enc.ctx
		hi := "(slen " + base.T + ")"
		if e.Args[2] != nil {
			v, err := env.eval(e.Args[2])
			if err != nil {
				return nil, err
			}
			hi = v.T
		}
		c.declSubstr()
		return &Val{T: fmt.Sprintf("(substr %s %s %s)", base.T, lo, hi), Typ: base.Typ, ConstLen: -1}, nil
	}
	return nil, fmt.Errorf("cannot slice %s", base.Typ)
}

// convertTo implements T(x) in contracts.
func (env *Env) convertTo(t types.Type, v *Val) (*Val, error) {
	c := env.enc.ctx
	if v.Untyped {
		return env.coerce(v, t)
	}
	fw, fs, fok := intInfo(v.Typ)
	tw, _, tok := intInfo(t)
	switch {
	case fok && tok:
		return &Val{T: convertInt(v.T, fw, fs, tw), Typ: t, ConstLen: -1}, nil
	case isString(v.Typ) && isString(t):
		return &Val{T: v.T, Typ: t, ConstLen: -1}, nil
	case isString(t) && isByteSlice(v.Typ):
		return &Val{T: env.enc.bytesToStr(env.st, v.T), Typ: t, ConstLen: -1}, nil
	case c.sortOf(t) == sortOfVal(c, v):
		return &Val{T: v.T, Typ: t, ConstLen: -1}, nil
	case isIface(t) && !isIface(v.Typ):
		return &Val{T: c.box(v.Typ, v.T), Typ: t, ConstLen: -1}, nil
	}
	return nil, fmt.Errorf("cannot convert %s to %s", v.Typ, t)
}

func (env *Env) evalCall(e *Expr) (*Val, error) {
	c := env.enc.ctx
	fnE := e.Args[0]
	argsE := e.Args[1:]
	// conversion through a composite type: []byte(x)
	if fnE.Op == "type" {
		t, err := env.res.resolveTypeSrc(fnE.TypeSrc)
		if err != nil {
			return nil, err
		}
		v, err := env.eval(argsE[0])
		if err != nil {
			return nil, err
		}
		return env.convertTo(t, v)
	}
	if fnE.Op == "id" {
		if v, err, ok := env.evalBuiltinCall(fnE.Name, argsE); ok {
			return v, err
		}
		if sf := env.enc.prog.Specs[fnE.Name]; sf != nil {
			return env.applySpecFunc(sf, argsE)
		}
		if _, bound := env.vars[fnE.Name]; !bound {
			// conversion to a named / basic type
			if obj := env.res.lookupObj(fnE.Name); obj != nil {
				if tn, ok := obj.(*types.TypeName); ok {
					v, err := env.eval(argsE[0])
					if err != nil {
						return nil, err
					}
					return env.convertTo(tn.Type(), v)
				}
				if fo, ok := obj.(*types.Func); ok {
					return env.applyGoFunc(fo, nil, argsE)
				}
			}
		}
		return nil, fmt.Errorf("unknown function %s", fnE.Name)
	}
	if fnE.Op == "sel" {
		// pkg.Func / pkg.Type conversion
		if fnE.Args[0].Op == "id" {
			if _, err := env.lookupName(fnE.Args[0].Name); err != nil {
				if pk := env.res.lookupPkg(fnE.Args[0].Name); pk != nil {
					obj := pk.Scope().Lookup(fnE.Name)
					switch o := obj.(type) {
					case *types.TypeName:
						v, err := env.eval(argsE[0])
						if err != nil {
							return nil, err
						}
						return env.convertTo(o.Type(), v)
					case *types.Func:
						return env.applyGoFunc(o, nil, argsE)
					}
					if sf := env.enc.prog.Specs[fnE.Name]; sf != nil {
						return env.applySpecFunc(sf, argsE)
					}
					return nil, fmt.Errorf("unknown function %s.%s", fnE.Args[0].Name, fnE.Name)
				}
			}
		}
		// method call recv.M(args)
		recv, err := env.eval(fnE.Args[0])
		if err != nil {
			return nil, err
		}
		return env.applyMethod(recv, fnE.Name, argsE)
	}
	_ = c
	return nil, fmt.Errorf("unsupported call %s", e)
}

func (env *Env) evalArgs(argsE []*Expr, pts []types.Type) ([]*Val, error) {
	var out []*Val
	for i, a := range argsE {
		v, err := env.eval(a)
		if err != nil {
			return nil, err
		}
		if i < len(pts) {
			v, err = env.fitTo(v, pts[i])
			if err != nil {
				return nil, err
			}
		}
		out = append(out, v)
	}
	return out, nil
}

// fitTo adapts an argument to a parameter type (untyped literals, nil,
// implicit conversion to interface).
func (env *Env) fitTo(v *Val, t types.Type) (*Val, error) {
	c := env.enc.ctx
	if v.Untyped {
		return env.coerce(v, t)
	}
	if v.T == "nil" && isIface(t) {
		return &Val{T: "nilIface", Typ: t, ConstLen: -1}, nil
	}
	if v.T == "nil" {
		if _, ok := t.Underlying().(*types.Slice); ok {
			return &Val{T: c.zero(t), Typ: t, ConstLen: -1}, nil
		}
		return &Val{T: "nil", Typ: t, ConstLen: -1}, nil
	}
	if isIface(t) && v.Typ != nil && !isIface(v.Typ) {
		return &Val{T: c.box(v.Typ, v.T), Typ: t, ConstLen: -1}, nil
	}
	if v.Typ != nil && v.T != "" && c.sortOf(t) != c.sortOf(v.Typ) {
		return nil, fmt.Errorf("argument of type %s does not fit parameter of type %s", v.Typ, t)
	}
	return v, nil
}

func (env *Env) applySpecFunc(sf *SpecFunc, argsE []*Expr) (*Val, error) {
	c := env.enc.ctx
	if len(argsE) != len(sf.Params) {
		return nil, fmt.Errorf("spec func %s expects %d arguments", sf.Name, len(sf.Params))
	}
	res := env.enc.prog.resolver(sf.PkgPath, env.enc.importsForPath(sf.File))
	var pts []types.Type
	for _, p := range sf.Params {
		t, err := res.resolveTypeSrc(p.TypeSrc)
		if err != nil {
			return nil, fmt.Errorf("spec func %s: %v", sf.Name, err)
		}
		pts = append(pts, t)
	}
	rt, err := res.resolveTypeSrc(sf.RetSrc)
	if err != nil {
		return nil, fmt.Errorf("spec func %s: %v", sf.Name, err)
	}
	args, err := env.evalArgs(argsE, pts)
	if err != nil {
		return nil, err
	}
	if sf.Body != nil {
		n := &Env{enc: env.enc, frame: nil, vars: map[string]*Val{}, st: env.st, old: env.old, res: res, bound: env.bound, ghost: env.ghost, depth: env.depth, inLet: env.inLet}
		// arguments are bound by an SMT let so that the body does not repeat large terms
		var binds []string
		for i, p := range sf.Params {
			a := args[i]
			if len(a.T) > 24 {
				name := c.freshName("a." + p.Name)
				binds = append(binds, fmt.Sprintf("(%s %s)", name, a.T))
				na := *a
				na.T = name
				a = &na
			}
			n.vars[p.Name] = a
		}
		if len(binds) > 0 {
			n.inLet = true
		}
		v, err := n.eval(sf.Body)
		if err != nil {
			return nil, fmt.Errorf("spec func %s: %v", sf.Name, err)
		}
		if v.Untyped {
			if v, err = env.coerce(v, rt); err != nil {
				return nil, err
			}
		}
		term := v.T
		if len(binds) > 0 {
			term = "(let (" + strings.Join(binds, " ") + ") " + term + ")"
		}
		return &Val{T: term, Typ: rt, ConstLen: -1}, nil
	}
	var sorts, terms []string
	for i, a := range args {
		sorts = append(sorts, c.sortOf(pts[i]))
		terms = append(terms, a.T)
	}
	if sf.Ghost {
		sorts = append(sorts, sortTok)
		terms = append(terms, env.st.tok)
	}
	name := c.declFun("sf$"+sf.Name, sorts, c.sortOf(rt))
	if len(terms) == 0 {
		return &Val{T: name, Typ: rt, ConstLen: -1}, nil
	}
	return &Val{T: "(" + name + " " + strings.Join(terms, " ") + ")", Typ: rt, ConstLen: -1}, nil
}

func (e *Enc) importsForPath(path string) map[string]string {
	for _, cf := range e.prog.CFiles {
		if cf.Path == path {
			return cf.Imports
		}
	}
	return nil
}

// applyGoFunc applies a pure Go function inside a contract.
func (env *Env) applyGoFunc(fo *types.Func, recv *Val, argsE []*Expr) (*Val, error) {
	e := env.enc
	sig := fo.Type().(*types.Signature)
	fn := e.prog.SSA.FuncValue(fo)
	key := ""
	var fc *FuncContract
	if fn != nil {
		key = keyOfFunction(fn)
		fc = e.prog.contractFor(fn)
	} else if recv != nil {
		key = ifaceKey(recv.Typ, fo.Name())
		fc = e.prog.ifaceContract(recv.Typ, fo.Name())
	}
	pure := fc != nil && fc.Pure
	if !pure && fn != nil && e.isPurePkg(fn) {
		pure = true
	}
	if !pure {
		return nil, fmt.Errorf("function %s is used in a contract but is not declared pure", fo.FullName())
	}
	var pts []types.Type
	for i := 0; i < sig.Params().Len(); i++ {
		pts = append(pts, sig.Params().At(i).Type())
	}
	args, err := env.evalArgs(argsE, pts)
	if err != nil {
		return nil, err
	}
	if sig.Variadic() && len(args) == len(pts)-1 {
		args = append(args, &Val{T: e.ctx.zero(pts[len(pts)-1]), Typ: pts[len(pts)-1], ConstLen: -1})
	}
	if len(args) != len(pts) {
		return nil, fmt.Errorf("%s expects %d arguments, got %d", fo.Name(), len(pts), len(args))
	}
	if recv != nil {
		args = append([]*Val{recv}, args...)
	}
	return env.pureApply(key, fc, fn, sig, args)
}

// pureApply builds the UF application(s) for a pure function and, in ghost
// (lemma) mode, instantiates the callee's contract for these arguments.
func (env *Env) pureApply(key string, fc *FuncContract, fn *ssa.Function, sig *types.Signature, args []*Val) (*Val, error) {
	e := env.enc
	rts := resultTypes(sig)
	var vals []*Val
	for i, t := range rts {
		vals = append(vals, &Val{T: e.pureUF(key, i, args, t, env.st.tok), Typ: t, ConstLen: -1})
	}
	var names []string
	if fc != nil {
		names = fc.Results
	}
	if fc != nil && !env.inLet && (env.ghost || (fc.Pure && shortKey(key) != e.unit && !e.inPureInst[key] && len(env.bound) == 0)) {
		// a contracted pure function applied in a specification: what its (separately proved)
		// contract says about this application may be used. Not for the function being verified
		// itself (that would assume the goal), and not re-entrantly.
		if e.inPureInst == nil {
			e.inPureInst = map[string]bool{}
		}
		e.inPureInst[key] = true
		env.instantiate(key, fc, fn, sig, args, vals)
		delete(e.inPureInst, key)
	}
	if len(vals) == 1 {
		return vals[0], nil
	}
	return &Val{Tup: vals, TupNames: names, ConstLen: -1}, nil
}

func (env *Env) applyMethod(recv *Val, name string, argsE []*Expr) (*Val, error) {
	e := env.enc
	if recv.Typ == nil {
		return nil, fmt.Errorf("method call on untyped value")
	}
	// walk through embedded fields to find the method
	obj, path, _ := types.LookupFieldOrMethod(recv.Typ, true, nil, name)
	if obj == nil {
		// unexported methods need the package
		if n, ok := derefType(recv.Typ).(*types.Named); ok && n.Obj().Pkg() != nil {
			obj, path, _ = types.LookupFieldOrMethod(recv.Typ, true, n.Obj().Pkg(), name)
		}
	}
	fo, ok := obj.(*types.Func)
	if !ok {
		return nil, fmt.Errorf("type %s has no method %s", recv.Typ, name)
	}
	// receiver adjustment through embedded fields
	cur := recv
	for _, i := range path[:len(path)-1] {
		t := cur.Typ
		if pt, isPtr := t.Underlying().(*types.Pointer); isPtr {
			a := &Addr{Base: cur.T, CellT: pt.Elem()}
			cur = &Val{T: e.load(env.st, a), Typ: pt.Elem(), ConstLen: -1}
			t = pt.Elem()
		}
		st := t.Underlying().(*types.Struct)
		cur = &Val{T: e.ctx.structField(t, cur.T, i), Typ: st.Field(i).Type(), ConstLen: -1}
	}
	sig := fo.Type().(*types.Signature)
	if sig.Recv() != nil && !isIface(cur.Typ) {
		// pointer receiver on addressable embedded value is not supported; value/pointer must match
		rt := sig.Recv().Type()
		if _, wantPtr := rt.Underlying().(*types.Pointer); wantPtr {
			if _, isPtr := cur.Typ.Underlying().(*types.Pointer); !isPtr {
				if cur != recv {
					return nil, fmt.Errorf("method %s needs an addressable receiver", name)
				}
			}
		} else if pt, isPtr := cur.Typ.Underlying().(*types.Pointer); isPtr {
			a := &Addr{Base: cur.T, CellT: pt.Elem()}
			cur = &Val{T: e.load(env.st, a), Typ: pt.Elem(), ConstLen: -1}
		}
	}
	return env.applyGoFunc(fo, cur, argsE)
}

func (env *Env) evalBuiltinCall(name string, argsE []*Expr) (*Val, error, bool) {
	e := env.enc
	c := e.ctx
	arg := func(i int) (*Val, error) { return env.eval(argsE[i]) }
	switch name {
	case "len", "cap":
		v, err := arg(0)
		if err != nil {
			return nil, err, true
		}
		switch v.Typ.Underlying().(type) {
		case *types.Slice:
			if name == "cap" {
				return &Val{T: "(s.cap " + v.T + ")", Typ: tInt, ConstLen: -1}, nil, true
			}
			return &Val{T: "(s.len " + v.T + ")", Typ: tInt, ConstLen: -1}, nil, true
		case *types.Basic:
			if isString(v.Typ) {
				return &Val{T: "(slen " + v.T + ")", Typ: tInt, ConstLen: -1}, nil, true
			}
		case *types.Map:
			mt := v.Typ.Underlying().(*types.Map)
			hn, hs, _, _ := c.mapHeaps(v.Typ)
			card := c.declFun(fmt.Sprintf("card$%d", c.typeID(mt)), []string{fmt.Sprintf("(Array %s Bool)", c.sortOf(mt.Key()))}, sortBV64)
			return &Val{T: ite(eq(v.T, "nil"), "#x0000000000000000", "("+card+" "+sel(e.heapGet(env.st, hn, hs), v.T)+")"), Typ: tInt, ConstLen: -1}, nil, true
		}
		return nil, fmt.Errorf("len of %s is not supported in contracts", v.Typ), true
	case "has":
		m, err := arg(0)
		if err != nil {
			return nil, err, true
		}
		mt, ok := m.Typ.Underlying().(*types.Map)
		if !ok {
			return nil, fmt.Errorf("has: not a map"), true
		}
		k, err := arg(1)
		if err != nil {
			return nil, err, true
		}
		if k, err = env.fitTo(k, mt.Key()); err != nil {
			return nil, err, true
		}
		hn, hs, _, _ := c.mapHeaps(m.Typ)
		return boolVal(and(not(eq(m.T, "nil")), sel(sel(e.heapGet(env.st, hn, hs), m.T), k.T))), nil, true
	case "keys":
		// the key set of a map as a value (Array K Bool); compare with setof(...)
		m, err := arg(0)
		if err != nil {
			return nil, err, true
		}
		mt, ok := m.Typ.Underlying().(*types.Map)
		if !ok {
			return nil, fmt.Errorf("keys: not a map"), true
		}
		hn, hs, _, _ := c.mapHeaps(m.Typ)
		return &Val{T: sel(e.heapGet(env.st, hn, hs), m.T), Typ: types.NewMap(mt.Key(), types.Typ[types.Bool]), ConstLen: -1, IsSet: true}, nil, true
	case "setof":
		// setof(k1, k2, ...): the finite set of the given keys; needs at least one element
		if len(argsE) == 0 {
			return nil, fmt.Errorf("setof needs at least one element"), true
		}
		first, err := arg(0)
		if err != nil {
			return nil, err, true
		}
		kt := first.Typ
		term := fmt.Sprintf("((as const (Array %s Bool)) false)", c.sortOf(kt))
		for i := range argsE {
			v, err := arg(i)
			if err != nil {
				return nil, err, true
			}
			term = store(term, v.T, "true")
		}
		return &Val{T: term, Typ: types.NewMap(kt, types.Typ[types.Bool]), ConstLen: -1, IsSet: true}, nil, true
	case "emptymap":
		m, err := arg(0)
		if err != nil {
			return nil, err, true
		}
		mt, ok := m.Typ.Underlying().(*types.Map)
		if !ok {
			return nil, fmt.Errorf("emptymap: not a map"), true
		}
		hn, hs, _, _ := c.mapHeaps(m.Typ)
		return boolVal(and(not(eq(m.T, "nil")), eq(sel(e.heapGet(env.st, hn, hs), m.T), fmt.Sprintf("((as const (Array %s Bool)) false)", c.sortOf(mt.Key()))))), nil, true
	case "typeis":
		v, err := arg(0)
		if err != nil {
			return nil, err, true
		}
		t, err := env.res.resolveTypeSrc(argsE[1].TypeSrc)
		if err != nil {
			return nil, err, true
		}
		return boolVal(c.isType(t, v.T)), nil, true
	case "fresh":
		v, err := arg(0)
		if err != nil {
			return nil, err, true
		}
		ref := v.T
		if _, ok := v.Typ.Underlying().(*types.Slice); ok {
			ref = "(s.arr " + v.T + ")"
		}
		if mi := env.memoFresh; mi != nil {
			// handed out before by the same function for the same arguments in the same state
			same := []string{sel(e.memoHeap(env.old, "ponce$"+mi.key), ref),
				eq(sel(e.heapGet(env.old, "pbt$"+mi.key, "(Array Ref "+sortTok+")"), ref), mi.tok)}
			for j, a := range mi.args {
				same = append(same, eq(sel(e.heapGet(env.old, fmt.Sprintf("pba$%s$%d", mi.key, j), "(Array Ref "+c.sortOf(a.Typ)+")"), ref), a.T))
			}
			return boolVal(and(not(eq(ref, "nil")), or(not(sel(e.allocArr(env.old), ref)), and(same...)))), nil, true
		}
		return boolVal(and(not(eq(ref, "nil")), not(sel(e.allocArr(env.old), ref)))), nil, true
	case "built":
		// built(x): x was made by an ordinary allocation of this call (not handed out by a pure function)
		v, err := arg(0)
		if err != nil {
			return nil, err, true
		}
		ref := v.T
		if _, ok := v.Typ.Underlying().(*types.Slice); ok {
			ref = "(s.arr " + v.T + ")"
		}
		return boolVal(and(not(eq(ref, "nil")), not(sel(e.allocArr(env.old), ref)), not(c.memoBorn(ref)))), nil, true
	case "sameArray":
		a, err := arg(0)
		if err != nil {
			return nil, err, true
		}
		b, err := arg(1)
		if err != nil {
			return nil, err, true
		}
		return boolVal(eq("(s.arr "+a.T+")", "(s.arr "+b.T+")")), nil, true
	case "any":
		// any(x): the value x boxed into an empty interface
		v, err := arg(0)
		if err != nil {
			return nil, err, true
		}
		bv, err := env.fitTo(v, types.NewInterfaceType(nil, nil))
		if err != nil {
			return nil, err, true
		}
		if v.Untyped {
			return nil, fmt.Errorf("any() of an untyped literal"), true
		}
		return &Val{T: bv.T, Typ: types.NewInterfaceType(nil, nil), ConstLen: -1}, nil, true
	case "alive":
		// allocated in the current state
		v, err := arg(0)
		if err != nil {
			return nil, err, true
		}
		ref := v.T
		if _, ok := v.Typ.Underlying().(*types.Slice); ok {
			ref = "(s.arr " + v.T + ")"
		}
		return boolVal(sel(e.allocArr(env.st), ref)), nil, true
	case "allocated":
		v, err := arg(0)
		if err != nil {
			return nil, err, true
		}
		return boolVal(sel(e.allocArr(env.old), v.T)), nil, true
	case "ite":
		cnd, err := env.evalBool(argsE[0])
		if err != nil {
			return nil, err, true
		}
		a, err := arg(1)
		if err != nil {
			return nil, err, true
		}
		b, err := arg(2)
		if err != nil {
			return nil, err, true
		}
		if a, err = env.coerce(a, b.Typ); err != nil {
			return nil, err, true
		}
		if b, err = env.coerce(b, a.Typ); err != nil {
			return nil, err, true
		}
		return &Val{T: ite(cnd, a.T, b.T), Typ: a.Typ, ConstLen: -1}, nil, true
	case "hasPrefix":
		a, err := arg(0)
		if err != nil {
			return nil, err, true
		}
		b, err := arg(1)
		if err != nil {
			return nil, err, true
		}
		return boolVal("(hasPrefix " + a.T + " " + b.T + ")"), nil, true
	case "visited":
		if env.loop == nil || env.loop.mapRange == nil {
			return nil, fmt.Errorf("visited() outside a map range loop"), true
		}
		k, err := arg(0)
		if err != nil {
			return nil, err, true
		}
		rs := env.frame.rangeSt[env.loop.mapRange]
		return boolVal(sel(rs.visited, k.T)), nil, true
	case "zeroOf":
		t, err := env.res.resolveTypeSrc(argsE[1].TypeSrc)
		if err != nil {
			return nil, err, true
		}
		return &Val{T: c.zero(t), Typ: t, ConstLen: -1}, nil, true
	case "jsonDecode", "jsonDecodeErr":
		sv, err := arg(0)
		if err != nil {
			return nil, err, true
		}
		t, err := env.res.resolveTypeSrc(argsE[1].TypeSrc)
		if err != nil {
			return nil, err, true
		}
		tid := c.typeID(t)
		if name == "jsonDecode" {
			fn := c.declFun(fmt.Sprintf("jsonDec$%d", tid), []string{sortStr}, c.sortOf(t))
			return &Val{T: "(" + fn + " " + sv.T + ")", Typ: t, ConstLen: -1}, nil, true
		}
		fn := c.declFun(fmt.Sprintf("jsonErr$%d", tid), []string{sortStr}, sortIface)
		return &Val{T: "(" + fn + " " + sv.T + ")", Typ: types.Universe.Lookup("error").Type(), ConstLen: -1}, nil, true
	case "jsonMapHas", "jsonMapGet":
		// contents of a map decoded from JSON text into an empty map of type T
		sv, err := arg(0)
		if err != nil {
			return nil, err, true
		}
		kv, err := arg(1)
		if err != nil {
			return nil, err, true
		}
		t, err := env.res.resolveTypeSrc(argsE[2].TypeSrc)
		if err != nil {
			return nil, err, true
		}
		mt, ok := t.Underlying().(*types.Map)
		if !ok {
			return nil, fmt.Errorf("%s: not a map type", name), true
		}
		if kv, err = env.fitTo(kv, mt.Key()); err != nil {
			return nil, err, true
		}
		kf, vf := jsonMapFuns(c, t)
		if name == "jsonMapHas" {
			return boolVal(sel("("+kf+" "+sv.T+")", kv.T)), nil, true
		}
		return &Val{T: ite(sel("("+kf+" "+sv.T+")", kv.T), sel("("+vf+" "+sv.T+")", kv.T), c.zero(mt.Elem())), Typ: mt.Elem(), ConstLen: -1}, nil, true
	case "deref":
		v, err := arg(0)
		if err != nil {
			return nil, err, true
		}
		pt, ok := v.Typ.Underlying().(*types.Pointer)
		if !ok {
			return nil, fmt.Errorf("deref of non-pointer"), true
		}
		a := &Addr{Base: v.T, CellT: pt.Elem()}
		return &Val{T: e.load(env.st, a), Typ: pt.Elem(), ConstLen: -1}, nil, true
	case "tok":
		return &Val{T: env.st.tok, Typ: nil, ConstLen: -1}, nil, true
	}
	return nil, nil, false
}

type memoInfo struct {
	key  string
	args []*Val
	tok  string
}
