package main

import (
	"flag"
	"fmt"
	"os"
	"path/filepath"
	"sort"
	"strings"
	"time"
)

func envOr(k, d string) string {
	if v := os.Getenv(k); v != "" {
		return v
	}
	return d
}

func main() {
	if len(os.Args) < 2 {
		fmt.Fprintln(os.Stderr, "usage: govc check <property> [--tier quick|thorough] | unit <key>... | list")
		os.Exit(2)
	}
	cmd := os.Args[1]
	fs := flag.NewFlagSet(cmd, flag.ExitOnError)
	repo := fs.String("repo", envOr("GOVC_REPO", "/repo"), "repository under verification")
	verif := fs.String("verif", envOr("GOVC_VERIF", "/verif"), "verification directory")
	tier := fs.String("tier", envOr("VERIF_TIER", "quick"), "quick | thorough")
	verbose := fs.Bool("v", false, "verbose")
	mode := fs.String("mode", "", "unit mode: '', sweep, own")
	dump := fs.Bool("dump", false, "keep and print SMT file names")
	timeout := fs.Int("timeout", 10, "per-obligation solver timeout (s)")
	only := fs.String("only", "", "unit: solve only obligations whose name contains this")
	var pos []string
	args := os.Args[2:]
	// allow flags after positionals
	for len(args) > 0 {
		if strings.HasPrefix(args[0], "-") {
			fs.Parse(args)
			args = fs.Args()
			continue
		}
		pos = append(pos, args[0])
		args = args[1:]
	}
	switch cmd {
	case "unit":
		t0 := time.Now()
		p, err := loadProgram(*repo, *verif)
		if err != nil {
			fmt.Fprintln(os.Stderr, "load:", err)
			os.Exit(2)
		}
		fmt.Printf("loaded in %.1fs\n", time.Since(t0).Seconds())
		var units []*Unit
		for _, k := range pos {
			key := expandKey(p, k)
			if strings.HasPrefix(key, "lemma:") {
				units = append(units, p.verifyLemma(strings.TrimPrefix(key, "lemma:")))
			} else {
				units = append(units, p.verifyFunc(key, *mode))
			}
		}
		if *only != "" {
			for _, u := range units {
				if u.Enc == nil {
					continue
				}
				var keep []*Obligation
				for _, o := range u.Enc.obls {
					if strings.Contains(o.Name, *only) {
						keep = append(keep, o)
					}
				}
				u.Enc.obls = keep
			}
		}
		work := filepath.Join(*verif, "work", "unit")
		os.RemoveAll(work)
		solveAll(units, solveOpts{WorkDir: work, TimeoutS: *timeout, Retry: false, All: *tier == "thorough"})
		bad := 0
		for _, u := range units {
			fmt.Printf("== %s (%s)\n", u.Key, u.Kind)
			if u.Err != "" {
				fmt.Println("   ERROR:", u.Err)
				bad++
				continue
			}
			for _, o := range u.Enc.obls {
				ok := o.Result == "unsat"
				if o.IsCover {
					ok = o.Result != "unsat"
				}
				if o.Kind == "cover.soft" {
					if !ok && *verbose {
						fmt.Printf("   note: %s is unreachable under the contracts (%s)\n", o.Name, o.Pos)
					}
					continue
				}
				mark := "ok  "
				if !ok {
					mark = "FAIL"
					bad++
				}
				if !ok || *verbose {
					fmt.Printf("   %s %-8s %-10s %6.2fs %s  %s\n", mark, o.Result, o.Solver, o.Seconds, o.Name, o.Pos)
					if !ok && *dump {
						fmt.Printf("        %s\n", o.File)
					}
				}
			}
			fmt.Printf("   %d obligations\n", len(u.Enc.obls))
			if len(u.Enc.unknownCalls) > 0 {
				var ks []string
				for k, n := range u.Enc.unknownCalls {
					ks = append(ks, fmt.Sprintf("%s×%d", shortKey(k), n))
				}
				sort.Strings(ks)
				fmt.Println("   havocked calls:", strings.Join(ks, ", "))
			}
		}
		if bad > 0 {
			os.Exit(1)
		}
	case "bindings":
		p, err := loadProgram(*repo, *verif)
		if err != nil {
			fmt.Fprintln(os.Stderr, "load:", err)
			os.Exit(2)
		}
		if err := p.writeBindings(*verif); err != nil {
			fmt.Fprintln(os.Stderr, err)
			os.Exit(2)
		}
	case "list":
		p, err := loadProgram(*repo, *verif)
		if err != nil {
			fmt.Fprintln(os.Stderr, "load:", err)
			os.Exit(2)
		}
		var ks []string
		for k := range p.fnByKey {
			if len(pos) == 0 || strings.Contains(k, pos[0]) {
				ks = append(ks, k)
			}
		}
		sort.Strings(ks)
		for _, k := range ks {
			fmt.Println(k)
		}
	case "check":
		if len(pos) != 1 {
			fmt.Fprintln(os.Stderr, "usage: govc check <property>")
			os.Exit(2)
		}
		os.Exit(runCheck(pos[0], *repo, *verif, *tier, *verbose))
	case "replay":
		if len(pos) != 1 {
			fmt.Fprintln(os.Stderr, "usage: govc replay <path>")
			os.Exit(2)
		}
		os.Exit(runReplayFile(pos[0], *repo, *verif))
	default:
		fmt.Fprintln(os.Stderr, "unknown command", cmd)
		os.Exit(2)
	}
}

// expandKey lets the command line use short keys ("versions/1_0/operationapplier.(Applier).getAnchorUntil").
func expandKey(p *Program, k string) string {
	if strings.HasPrefix(k, "lemma:") {
		return k
	}
	if p.fnByKey[k] != nil {
		return k
	}
	full := repoModule + "/pkg/" + k
	if p.fnByKey[full] != nil {
		return full
	}
	// suffix match
	var found []string
	for key := range p.fnByKey {
		if strings.HasSuffix(key, k) {
			found = append(found, key)
		}
	}
	if len(found) == 1 {
		return found[0]
	}
	return k
}
