package main

// Goal-directed instantiation. The negated goal is skolemised and every
// universally quantified assumption is instantiated at the skolem constants and
// at the ground index terms that occur in the query. Instances of assumed
// facts are consequences of them, so an unsat answer of the instantiated,
// quantifier-free query is a proof. (z3's E-matching does not fire on
// patterns that contain bit-vector arithmetic such as (bvadd (s.off s) i).)

import (
	"fmt"
	"sort"
	"strings"
)

type instCtx struct {
	c       *Ctx
	decls   []string
	skolems map[string][]string // sort -> constants
	n       int
	must    map[string]bool // when set: only tuples that use at least one of these terms
	// byBase: slice term -> ground index terms used with that slice in the quantifier-free part; an
	// index variable that only indexes certain slices is instantiated, besides constants introduced by
	// the engine, at the ground terms seen with those slices
	byBase map[string]map[string]bool
}

func sxAtom(s string) *sx  { return &sx{atom: s} }
func sxList(xs ...*sx) *sx { return &sx{list: xs} }

func isQuant(x *sx) bool {
	return x.list != nil && len(x.list) == 3 && (x.list[0].atom == "forall" || x.list[0].atom == "exists")
}

func containsQuant(x *sx) bool {
	if x.list == nil {
		return false
	}
	if isQuant(x) {
		return true
	}
	for _, e := range x.list {
		if containsQuant(e) {
			return true
		}
	}
	return false
}

func substSx(x *sx, m map[string]*sx) *sx {
	if x.list == nil {
		if r, ok := m[x.atom]; ok {
			return r
		}
		return x
	}
	// respect shadowing by inner binders
	if (isQuant(x) || (len(x.list) == 3 && x.list[0].atom == "let")) && x.list[1].list != nil {
		inner := m
		shadow := false
		for _, b := range x.list[1].list {
			if b.list != nil && len(b.list) > 0 {
				if _, ok := m[b.list[0].atom]; ok {
					shadow = true
				}
			}
		}
		if shadow {
			inner = map[string]*sx{}
			for k, v := range m {
				inner[k] = v
			}
			for _, b := range x.list[1].list {
				if b.list != nil && len(b.list) > 0 {
					delete(inner, b.list[0].atom)
				}
			}
		}
		out := &sx{list: make([]*sx, len(x.list))}
		out.list[0] = x.list[0]
		if x.list[0].atom == "let" {
			// binding terms are evaluated in the outer scope
			bl := &sx{list: []*sx{}}
			for _, b := range x.list[1].list {
				bl.list = append(bl.list, sxList(b.list[0], substSx(b.list[1], m)))
			}
			out.list[1] = bl
		} else {
			out.list[1] = x.list[1]
		}
		out.list[2] = substSx(x.list[2], inner)
		return out
	}
	out := &sx{list: make([]*sx, len(x.list))}
	for i, e := range x.list {
		out.list[i] = substSx(e, m)
	}
	return out
}

// stripAttr removes (! body :pattern ...) wrappers.
func stripAttr(x *sx) *sx {
	if x.list != nil && len(x.list) >= 2 && x.list[0].atom == "!" {
		return stripAttr(x.list[1])
	}
	return x
}

// skolemise rewrites a formula in the given polarity (true = asserted).
// Existentials in positive position and universals in negative position get
// fresh constants.
// expandMixed rewrites (= A B) and (ite C A B) over formulas that contain
// quantifiers into implications, so that every quantifier has a polarity.
func expandMixed(x *sx) *sx {
	if x.list == nil || len(x.list) == 0 {
		return x
	}
	if x.list[0].atom == "=" && len(x.list) == 3 && (containsQuant(x.list[1]) || containsQuant(x.list[2])) {
		a, b := x.list[1], x.list[2]
		return sxList(sxAtom("and"), sxList(sxAtom("=>"), a, b), sxList(sxAtom("=>"), b, a))
	}
	if x.list[0].atom == "ite" && len(x.list) == 4 && (containsQuant(x.list[2]) || containsQuant(x.list[3])) && !containsQuant(x.list[1]) {
		c, a, b := x.list[1], x.list[2], x.list[3]
		return sxList(sxAtom("and"), sxList(sxAtom("=>"), c, a), sxList(sxAtom("=>"), sxList(sxAtom("not"), c), b))
	}
	return x
}

func (ic *instCtx) skolemise(x *sx, pos bool) *sx {
	if x.list == nil || len(x.list) == 0 {
		return x
	}
	x = expandMixed(x)
	head := x.list[0].atom
	switch head {
	case "not":
		if len(x.list) == 2 {
			return sxList(x.list[0], ic.skolemise(x.list[1], !pos))
		}
	case "and", "or":
		out := &sx{list: []*sx{x.list[0]}}
		for _, e := range x.list[1:] {
			out.list = append(out.list, ic.skolemise(e, pos))
		}
		return out
	case "=>":
		if len(x.list) == 3 {
			return sxList(x.list[0], ic.skolemise(x.list[1], !pos), ic.skolemise(x.list[2], pos))
		}
	case "!":
		return ic.skolemise(stripAttr(x), pos)
	case "let":
		if len(x.list) == 3 {
			// inline the let so that quantifiers in the body can be reached
			m := map[string]*sx{}
			for _, b := range x.list[1].list {
				m[b.list[0].atom] = b.list[1]
			}
			return ic.skolemise(substSx(x.list[2], m), pos)
		}
	case "forall", "exists":
		if len(x.list) == 3 && ((head == "exists" && pos) || (head == "forall" && !pos)) {
			m := map[string]*sx{}
			for _, b := range x.list[1].list {
				ic.n++
				name := fmt.Sprintf("sk!%d", ic.n)
				srt := b.list[1].String()
				ic.decls = append(ic.decls, fmt.Sprintf("(declare-const %s %s)", name, srt))
				ic.skolems[srt] = append(ic.skolems[srt], name)
				m[b.list[0].atom] = sxAtom(name)
			}
			return ic.skolemise(substSx(stripAttr(x.list[2]), m), pos)
		}
	}
	return x
}

// groundIndexTerms harvests bit-vector terms used as element indices in the
// quantifier-free part of the query.
func groundIndexTerms(x *sx, bound map[string]bool, out map[string]bool, byBase map[string]map[string]bool) {
	if x.list == nil {
		return
	}
	if isQuant(x) {
		nb := map[string]bool{}
		for k := range bound {
			nb[k] = true
		}
		for _, b := range x.list[1].list {
			nb[b.list[0].atom] = true
		}
		groundIndexTerms(x.list[2], nb, out, byBase)
		return
	}
	if len(x.list) == 3 && x.list[0].atom == "bvadd" && x.list[1].list != nil && len(x.list[1].list) == 2 && x.list[1].list[0].atom == "s.off" {
		idx := x.list[2]
		if !mentionsAny(idx, bound) {
			s := idx.String()
			if len(s) < 200 {
				out[s] = true
				if byBase != nil && !mentionsAny(x.list[1].list[1], bound) {
					b := x.list[1].list[1].String()
					if byBase[b] == nil {
						byBase[b] = map[string]bool{}
					}
					byBase[b][s] = true
				}
			}
		}
	}
	if len(x.list) == 2 && x.list[0].atom == "s.len" && x.list[1].list == nil && strings.Contains(x.list[1].atom, "@loop") {
		// the length of a slice variable carried by a loop: the position the next append writes
		if !bound[x.list[1].atom] {
			out[x.String()] = true
		}
	}
	for _, e := range x.list {
		groundIndexTerms(e, bound, out, byBase)
	}
}

// groundMapKeys harvests ground terms used as keys in map-heap lookups:
// (select (select MH$n.. m) key). Result: heap base name -> keys.
func groundMapKeys(x *sx, bound map[string]bool, out map[string]map[string]bool) {
	if x.list == nil {
		return
	}
	if isQuant(x) {
		nb := map[string]bool{}
		for k := range bound {
			nb[k] = true
		}
		for _, b := range x.list[1].list {
			nb[b.list[0].atom] = true
		}
		groundMapKeys(x.list[2], nb, out)
		return
	}
	if len(x.list) == 3 && x.list[0].atom == "select" && x.list[1].list == nil && strings.HasPrefix(x.list[1].atom, "alloc") && !mentionsAny(x.list[2], bound) {
		if out["$ref"] == nil {
			out["$ref"] = map[string]bool{}
		}
		if k := x.list[2].String(); len(k) < 200 {
			out["$ref"][k] = true
		}
	}
	if len(x.list) == 3 && x.list[0].atom == "select" && x.list[1].list != nil && len(x.list[1].list) == 3 && x.list[1].list[0].atom == "select" {
		h := x.list[1].list[1]
		if h.list == nil && (strings.HasPrefix(h.atom, "MH$") || strings.HasPrefix(h.atom, "MV$")) && !mentionsAny(x.list[2], bound) {
			base := h.atom
			if i := strings.IndexAny(base, "!@"); i > 0 {
				base = base[:i]
			}
			base = "M" + base[2:] // MH$n and MV$n share keys
			if out[base] == nil {
				out[base] = map[string]bool{}
			}
			if k := x.list[2].String(); len(k) < 300 {
				out[base][k] = true
			}
		}
	}
	for _, e := range x.list {
		groundMapKeys(e, bound, out)
	}
}

func mentionsAny(x *sx, names map[string]bool) bool {
	if x.list == nil {
		return names[x.atom]
	}
	for _, e := range x.list {
		if mentionsAny(e, names) {
			return true
		}
	}
	return false
}

// instantiate returns instances of the universally quantified parts of an
// asserted formula (positive polarity) at the candidate terms.
func (ic *instCtx) instantiate(x *sx, pos bool, cands map[string][]string, budget *int) *sx {
	if x.list == nil || len(x.list) == 0 {
		return x
	}
	x = expandMixed(x)
	head := x.list[0].atom
	switch head {
	case "not":
		if len(x.list) == 2 {
			return sxList(x.list[0], ic.instantiate(x.list[1], !pos, cands, budget))
		}
	case "and", "or":
		out := &sx{list: []*sx{x.list[0]}}
		for _, e := range x.list[1:] {
			out.list = append(out.list, ic.instantiate(e, pos, cands, budget))
		}
		return out
	case "=>":
		if len(x.list) == 3 {
			return sxList(x.list[0], ic.instantiate(x.list[1], !pos, cands, budget), ic.instantiate(x.list[2], pos, cands, budget))
		}
	case "!":
		return ic.instantiate(stripAttr(x), pos, cands, budget)
	case "let":
		if len(x.list) == 3 && containsQuant(x.list[2]) {
			m := map[string]*sx{}
			for _, b := range x.list[1].list {
				m[b.list[0].atom] = b.list[1]
			}
			return ic.instantiate(substSx(x.list[2], m), pos, cands, budget)
		}
	case "forall", "exists":
		if len(x.list) != 3 {
			return x
		}
		univ := (head == "forall" && pos) || (head == "exists" && !pos)
		if !univ {
			// an existential we assume: a witness exists (skolem constant)
			if !containsFreeBound(x) {
				return ic.skolemise(x, pos)
			}
			return x
		}
		vars := x.list[1].list
		var lists [][]string
		total := 1
		for _, b := range vars {
			cs := cands[b.list[1].String()]
			if false && b.list[1].String() == sortBV64 && len(ic.byBase) > 0 { // pruning disabled: it dropped instances other proofs need
				cs = ic.pruneIndexCands(x.list[2], b.list[0].atom, cs)
			}
			if len(cs) == 0 {
				return sxAtom(ternary(pos, "true", "false")) // no instance: drop (weakening)
			}
			lists = append(lists, cs)
			total *= len(cs)
		}
		if total > *budget {
			return sxAtom(ternary(pos, "true", "false"))
		}
		*budget -= total
		conj := &sx{list: []*sx{sxAtom(ternary(pos, "and", "or"))}}
		idx := make([]int, len(vars))
		for {
			m := map[string]*sx{}
			uses := ic.must == nil
			for i, b := range vars {
				m[b.list[0].atom] = sxAtom(lists[i][idx[i]])
				if ic.must[lists[i][idx[i]]] {
					uses = true
				}
			}
			if uses {
				inst := substSx(stripAttr(x.list[2]), m)
				save := ic.must
				ic.must = nil // nested quantifiers of a selected instance are instantiated fully
				conj.list = append(conj.list, ic.instantiate(inst, pos, cands, budget))
				ic.must = save
			}
			k := len(vars) - 1
			for k >= 0 {
				idx[k]++
				if idx[k] < len(lists[k]) {
					break
				}
				idx[k] = 0
				k--
			}
			if k < 0 {
				break
			}
		}
		if len(conj.list) == 1 {
			return sxAtom(ternary(pos, "true", "false"))
		}
		if len(conj.list) == 2 {
			return conj.list[1]
		}
		return conj
	}
	if containsQuant(x) {
		// quantifier under an operator of mixed polarity (=, ite, let): dropping the
		// whole conjunct is a weakening only at top level; here keep it opaque
		return sxAtom("?")
	}
	return x
}

func containsFreeBound(x *sx) bool { return false }

func ternary(c bool, a, b string) string {
	if c {
		return a
	}
	return b
}

func hasOpaque(x *sx) bool {
	if x.list == nil {
		return x.atom == "?"
	}
	for _, e := range x.list {
		if hasOpaque(e) {
			return true
		}
	}
	return false
}

// instantiatedQuery builds the quantifier-free, goal-directed query.
func (c *Ctx) instantiatedQuery(goalNeg string, extra []string, nAsserts int, skip ...map[string]bool) (string, bool) {
	var skipTags map[string]bool
	if len(skip) > 0 {
		skipTags = skip[0]
	}
	if nAsserts <= 0 || nAsserts > len(c.asserts) {
		nAsserts = len(c.asserts)
	}
	ic := &instCtx{c: c, skolems: map[string][]string{}, byBase: map[string]map[string]bool{}}
	gs := parseSx(goalNeg)
	if len(gs) != 1 {
		return "", false
	}
	goal := ic.skolemise(gs[0], true)
	// candidate terms
	ground := map[string]bool{}
	groundIndexTerms(goal, map[string]bool{}, ground, ic.byBase)
	var parsed []*sx
	var quantFacts []string
	for _, a := range c.litFacts {
		if hasQuant(a) {
			quantFacts = append(quantFacts, a)
		}
	}
	var keepVerbatim []string
	for _, a := range append(append(append([]string{}, c.assertsFor(nAsserts, skipTags)...), extra...), quantFacts...) {
		if strings.HasPrefix(a, "(forall ((") && (strings.Contains(a, ":pattern ((mk$") || strings.Contains(a, ":pattern ((as$")) {
			// boxing / unboxing round trips of interface values: one variable, a pattern that is a
			// plain function application -- E-matching instantiates these reliably, keep them as they are
			keepVerbatim = append(keepVerbatim, a)
			continue
		}
		ps := parseSx(a)
		if len(ps) != 1 {
			return "", false
		}
		parsed = append(parsed, ps[0])
		if !hasQuant(a) {
			groundIndexTerms(ps[0], map[string]bool{}, ground, ic.byBase)
		}
	}
	cands := map[string][]string{}
	for srt, ks := range ic.skolems {
		cands[srt] = append(cands[srt], ks...)
	}
	// keys looked up in maps are candidates for variables of the map's key sort
	var harvestedNew []string // key terms added by the harvests after the first one
	harvestKeys := func(list []*sx, onlyWith map[string]bool) {
		mk := map[string]map[string]bool{}
		for _, p := range list {
			groundMapKeys(p, map[string]bool{}, mk)
		}
		var bases []string
		for base := range mk {
			bases = append(bases, base)
		}
		sort.Strings(bases)
		for _, base := range bases {
			keys := mk[base]
			srt := ""
			if base == "$ref" {
				srt = sortRef
			}
			for _, d := range c.declOrder {
				// (declare-const MH$5!0 (Array Ref (Array Str Bool)))
				if strings.HasPrefix(d, "(declare-const MH"+base[1:]+"!") || strings.HasPrefix(d, "(declare-const MH"+base[1:]+"@") {
					if i := strings.Index(d, "(Array Ref (Array "); i > 0 {
						rest := d[i+len("(Array Ref (Array "):]
						if strings.HasPrefix(rest, "(") {
							dd := 0
							for j, r := range rest {
								if r == '(' {
									dd++
								} else if r == ')' {
									dd--
									if dd == 0 {
										srt = rest[:j+1]
										break
									}
								}
							}
						} else if j := strings.Index(rest, " "); j > 0 {
							srt = rest[:j]
						}
					}
					break
				}
			}
			if srt == "" || srt == sortBV64 {
				continue
			}
			var ks []string
			for k := range keys {
				if onlyWith != nil {
					hit := false
					for w := range onlyWith {
						if strings.Contains(k, w) {
							hit = true
						}
					}
					if !hit {
						continue
					}
				}
				ks = append(ks, k)
			}
			sort.Strings(ks)
			if len(ks) > 16 {
				ks = ks[:16]
			}
			have := map[string]bool{}
			for _, k := range cands[srt] {
				have[k] = true
			}
			for _, k := range ks {
				if !have[k] {
					cands[srt] = append(cands[srt], k)
					harvestedNew = append(harvestedNew, k)
				}
			}
		}
	}
	harvestKeys(append([]*sx{goal}, parsed...), nil)
	harvestedNew = nil
	var gl []string
	for g := range ground {
		gl = append(gl, g)
	}
	// simple terms (named constants) first
	sort.Slice(gl, func(i, j int) bool {
		ai, aj := strings.HasPrefix(gl[i], "("), strings.HasPrefix(gl[j], "(")
		if ai != aj {
			return !ai
		}
		if len(gl[i]) != len(gl[j]) {
			return len(gl[i]) < len(gl[j])
		}
		return gl[i] < gl[j]
	})
	if len(gl) > 12 {
		gl = gl[:12]
	}
	seen := map[string]bool{}
	for _, k := range cands[sortBV64] {
		seen[k] = true
	}
	for _, g := range gl {
		if !seen[g] {
			cands[sortBV64] = append(cands[sortBV64], g)
		}
	}
	// two rounds: existentials assumed inside instances introduce new skolems, which are
	// candidates for the goal's universals and for a second round over the assumptions
	var body strings.Builder
	budget := 1500
	var lastInsts []*sx
	round := func() {
		lastInsts = nil
		for _, p := range parsed {
			if !containsQuant(p) {
				continue
			}
			inst := ic.instantiate(p, true, cands, &budget)
			if hasOpaque(inst) || containsQuant(inst) {
				continue // cannot be used: dropping an assumption is sound
			}
			lastInsts = append(lastInsts, inst)
			body.WriteString("(assert " + inst.String() + ")\n")
		}
	}
	for _, a := range keepVerbatim {
		body.WriteString("(assert " + a + ")\n")
	}
	for _, p := range parsed {
		if !containsQuant(p) {
			body.WriteString("(assert " + p.String() + ")\n")
		}
	}
	known := map[string]int{}
	for srt, ks := range ic.skolems {
		known[srt] = len(ks)
	}
	// newSkolems moves the witnesses introduced since the last call into the candidate sets
	newSkolems := func() map[string]bool {
		must := map[string]bool{}
		for srt, ks := range ic.skolems {
			if len(ks) > known[srt] {
				for _, k := range ks[known[srt]:] {
					must[k] = true
				}
				cands[srt] = append(cands[srt], ks[known[srt]:]...)
				known[srt] = len(ks)
			}
		}
		return must
	}
	goalSk := map[string]bool{}
	for _, ks := range ic.skolems {
		for _, k := range ks {
			goalSk[k] = true
		}
	}
	round()
	must := newSkolems()
	// map keys built from the goal's own constants or the new witnesses (e.g. the id of the j-th key)
	// are candidates too
	first := map[string]bool{}
	for k := range goalSk {
		first[k] = true
	}
	for k := range must {
		first[k] = true
	}
	harvestKeys(lastInsts, first)
	for _, k := range harvestedNew {
		must[k] = true // instances at a newly found key term are new too
	}
	harvestedNew = nil
	// universals left in the (skolemised, asserted) negated goal are instantiated too: that weakens
	// the goal side, which is sound for an unsat answer. Existentials inside those instances
	// introduce witnesses of their own, which later rounds over the assumptions may use.
	goal0 := goal
	goalInst := ic.instantiate(goal0, true, cands, &budget)
	for k := range newSkolems() {
		must[k] = true
	}
	harvestKeys([]*sx{goalInst}, must)
	for r := 0; r < 2 && len(must) > 0 && len(must) <= 24 && body.Len() < 120000; r++ {
		// further rounds: only instances that use a witness introduced by the round before
		budget += 1500
		ic.must = must
		round()
		ic.must = nil
		must = newSkolems()
		harvestKeys(lastInsts, must)
		if len(must) > 0 {
			budget += 500
			goalInst = ic.instantiate(goal0, true, cands, &budget)
			for k := range newSkolems() {
				must[k] = true
			}
			harvestKeys([]*sx{goalInst}, must)
		}
	}
	goal = goalInst
	if hasOpaque(goal) || containsQuant(goal) {
		return "", false
	}
	body.WriteString("(assert " + goal.String() + ")\n")
	var b strings.Builder
	b.WriteString("(set-option :produce-models true)\n(set-logic ALL)\n")
	for _, d := range c.declOrder {
		b.WriteString(d + "\n")
	}
	for _, d := range ic.decls {
		b.WriteString(d + "\n")
	}
	for _, a := range c.litFacts {
		if hasQuant(a) {
			continue // instantiated above
		}
		b.WriteString("(assert " + a + ")\n")
	}
	for _, a := range c.finalAxioms() {
		b.WriteString("(assert " + a + ")\n")
	}
	bodyS := body.String()
	for _, g := range axiomGroups {
		hit := false
		for _, t := range g.triggers {
			if strings.Contains(bodyS, t) {
				hit = true
			}
		}
		if hit {
			for _, a := range g.axioms {
				b.WriteString("(assert " + a + ")\n")
			}
		}
	}
	b.WriteString(bodyS)
	b.WriteString("(check-sat)\n")
	return b.String(), true
}

// pruneIndexCands: if variable v occurs in the body only as an index into slices whose terms are
// ground, keep the candidates that are engine constants (skolems, witnesses), lengths, or ground index
// terms seen with one of those slices. Fewer instances, same proofs: instances are only ever dropped.
func (ic *instCtx) pruneIndexCands(body *sx, v string, cs []string) []string {
	bases := map[string]bool{}
	other := false
	var walk func(x *sx, underIndex bool)
	walk = func(x *sx, underIndex bool) {
		if x.list == nil {
			if x.atom == v && !underIndex {
				other = true
			}
			return
		}
		if len(x.list) == 3 && x.list[0].atom == "bvadd" && x.list[1].list != nil && len(x.list[1].list) == 2 && x.list[1].list[0].atom == "s.off" && x.list[2].list == nil && x.list[2].atom == v {
			bases[x.list[1].list[1].String()] = true
			return
		}
		for _, e := range x.list {
			walk(e, false)
		}
	}
	walk(body, false)
	if len(bases) == 0 {
		return cs
	}
	allowed := map[string]bool{}
	for b := range bases {
		for t := range ic.byBase[b] {
			allowed[t] = true
		}
	}
	var out []string
	for _, c := range cs {
		if strings.HasPrefix(c, "sk!") || strings.HasPrefix(c, "(s.len ") || c == "#x0000000000000000" || allowed[c] || ic.must[c] {
			out = append(out, c)
		}
	}
	_ = other
	if len(out) == 0 {
		return cs
	}
	return out
}
