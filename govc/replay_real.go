package main

// Generic realizer: turns a solver model for a failed `ensures` obligation of
// a function whose inputs are scalars, strings, slices of scalars and structs
// of those into a Go test that calls the real function and evaluates the
// failed clause at run time. The test is injected with `go test -overlay`.

import (
	"encoding/json"
	"fmt"
	"go/types"
	"os"
	"path/filepath"
	"strconv"
	"strings"

	"golang.org/x/tools/go/ssa"
)

func init() { realizers = append(realizers, scalarRealizer) }

type leaf struct {
	term string // SMT term to evaluate
	kind string // int bool str strlen isnil slicelen
	bits int
	sign bool
	goLHS string // Go l-value / variable this leaf sets
	typ  types.Type
}

// sexpr parsing ------------------------------------------------------------

type sx struct {
	atom string
	list []*sx
}

func parseSx(s string) []*sx {
	var stack [][]*sx
	cur := []*sx{}
	i := 0
	for i < len(s) {
		c := s[i]
		switch {
		case c == '(':
			stack = append(stack, cur)
			cur = []*sx{}
			i++
		case c == ')':
			n := &sx{list: cur}
			if n.list == nil {
				n.list = []*sx{}
			}
			if len(stack) == 0 {
				return cur
			}
			cur = append(stack[len(stack)-1], n)
			stack = stack[:len(stack)-1]
			i++
		case c == ' ' || c == '\n' || c == '\t' || c == '\r':
			i++
		case c == '|':
			j := strings.IndexByte(s[i+1:], '|')
			if j < 0 {
				return cur
			}
			cur = append(cur, &sx{atom: s[i : i+j+2]})
			i += j + 2
		case c == '"':
			j := i + 1
			for j < len(s) && s[j] != '"' {
				j++
			}
			cur = append(cur, &sx{atom: s[i : j+1]})
			i = j + 1
		case c == ';':
			for i < len(s) && s[i] != '\n' {
				i++
			}
		default:
			j := i
			for j < len(s) && !strings.ContainsRune("() \n\t\r", rune(s[j])) {
				j++
			}
			cur = append(cur, &sx{atom: s[i:j]})
			i = j
		}
	}
	return cur
}

func (x *sx) String() string {
	if x.list == nil {
		return x.atom
	}
	var parts []string
	for _, e := range x.list {
		parts = append(parts, e.String())
	}
	return "(" + strings.Join(parts, " ") + ")"
}

func bvValue(x *sx) (uint64, bool) {
	if x.list == nil {
		a := x.atom
		if strings.HasPrefix(a, "#x") {
			v, err := strconv.ParseUint(a[2:], 16, 64)
			return v, err == nil
		}
		if strings.HasPrefix(a, "#b") {
			v, err := strconv.ParseUint(a[2:], 2, 64)
			return v, err == nil
		}
		return 0, false
	}
	if len(x.list) == 3 && x.list[0].atom == "_" && strings.HasPrefix(x.list[1].atom, "bv") {
		v, err := strconv.ParseUint(x.list[1].atom[2:], 10, 64)
		return v, err == nil
	}
	return 0, false
}

// getValues asks the solver for the values of terms in the model of the query in file.
func getValues(query, file string, terms []string) (map[string]*sx, error) {
	q := query + "(get-value (" + strings.Join(terms, "\n ") + "))\n"
	tmp := file + ".values.smt2"
	os.WriteFile(tmp, []byte(q), 0o644)
	a := runSolver(solvers[0], tmp, 20)
	if a.result != "sat" {
		return nil, fmt.Errorf("solver answered %s when asked for values", a.result)
	}
	rest := a.out[strings.Index(a.out, "\n")+1:]
	top := parseSx(rest)
	out := map[string]*sx{}
	if len(top) == 0 {
		return nil, fmt.Errorf("no values returned")
	}
	pairs := top[0].list
	if len(pairs) != len(terms) {
		return nil, fmt.Errorf("value list mismatch (%d for %d)", len(pairs), len(terms))
	}
	for i, pr := range pairs {
		if len(pr.list) == 2 {
			out[terms[i]] = pr.list[1]
		}
	}
	return out, nil
}

// Go source generation -----------------------------------------------------

type goGen struct {
	p       *Program
	pkg     *types.Package
	imports map[string]string // path -> alias
	err     error
}

func (g *goGen) typeStr(t types.Type) string {
	return types.TypeString(t, func(p *types.Package) string {
		if p == g.pkg {
			return ""
		}
		alias := "vp_" + strings.NewReplacer("/", "_", ".", "_", "-", "_").Replace(p.Path())
		g.imports[p.Path()] = alias
		return alias
	})
}

// specToGo compiles a contract expression to Go source. Unsupported constructs set g.err.
func (g *goGen) specToGo(e *Expr, env map[string]string, specs map[string]*SpecFunc) string {
	switch e.Op {
	case "int":
		return e.Int.String()
	case "str":
		return strconv.Quote(e.Str)
	case "bool":
		return fmt.Sprint(e.Bool)
	case "nil":
		return "nil"
	case "id":
		if v, ok := env[e.Name]; ok {
			return v
		}
		return e.Name
	case "old":
		return g.specToGo(e.Args[0], env, specs)
	case "un":
		return "(" + e.Name + g.specToGo(e.Args[0], env, specs) + ")"
	case "bin":
		a, b := g.specToGo(e.Args[0], env, specs), g.specToGo(e.Args[1], env, specs)
		switch e.Name {
		case "==>":
			return "(!(" + a + ") || (" + b + "))"
		case "<==>":
			return "((" + a + ") == (" + b + "))"
		}
		return "(" + a + " " + e.Name + " " + b + ")"
	case "sel":
		return g.specToGo(e.Args[0], env, specs) + "." + e.Name
	case "idx":
		return g.specToGo(e.Args[0], env, specs) + "[" + g.specToGo(e.Args[1], env, specs) + "]"
	case "call":
		fn := e.Args[0]
		if fn.Op == "id" {
			switch fn.Name {
			case "ite":
				// typed through an immediately invoked generic helper
				return "vpIte(" + g.specToGo(e.Args[1], env, specs) + ", " + g.specToGo(e.Args[2], env, specs) + ", " + g.specToGo(e.Args[3], env, specs) + ")"
			case "len", "int", "int64", "uint64", "uint", "int32", "uint32", "string", "uint8", "byte":
				var as []string
				for _, a := range e.Args[1:] {
					as = append(as, g.specToGo(a, env, specs))
				}
				return fn.Name + "(" + strings.Join(as, ", ") + ")"
			}
			if sf := specs[fn.Name]; sf != nil && sf.Body != nil {
				n := map[string]string{}
				for k, v := range env {
					n[k] = v
				}
				for i, p := range sf.Params {
					// bind through typed conversion so untyped literals get the right type
					n[p.Name] = "(" + p.TypeSrc + "(" + g.specToGo(e.Args[1+i], env, specs) + "))"
				}
				return "(" + sf.RetSrc + "(" + g.specToGo(sf.Body, n, specs) + "))"
			}
		}
		g.err = fmt.Errorf("clause uses %s, which has no executable form", fn)
		return "false"
	}
	g.err = fmt.Errorf("clause construct %s has no executable form", e.Op)
	return "false"
}

func scalarRealizer(p *Program, u *Unit, o *Obligation, repo, verif, dir string) *replayResult {
	if u.Kind != "func" || o.Kind != "ensures" || o.Contract == nil || u.Enc == nil || u.Enc.topFrame == nil {
		return nil
	}
	fn := u.Enc.topFrame.fn
	if fn.Parent() != nil || fn.Pkg == nil {
		return nil
	}
	fc := o.Contract
	var clause *Clause
	for _, en := range fc.Ensures {
		if clauseLabel(en) == o.Label {
			clause = en
		}
	}
	if clause == nil {
		return nil
	}
	e := u.Enc
	c := e.ctx
	g := &goGen{p: p, pkg: fn.Pkg.Pkg, imports: map[string]string{}}
	var leaves []leaf
	var setup []string
	ok := true
	st0 := e.topFrame.entrySt
	var walk func(goExpr, term string, t types.Type, depth int)
	walk = func(goExpr, term string, t types.Type, depth int) {
		switch ut := t.Underlying().(type) {
		case *types.Basic:
			if w, s, isInt := intInfo(t); isInt {
				leaves = append(leaves, leaf{term: term, kind: "int", bits: w, sign: s, goLHS: goExpr, typ: t})
			} else if isBool(t) {
				leaves = append(leaves, leaf{term: term, kind: "bool", goLHS: goExpr, typ: t})
			} else if isString(t) {
				leaves = append(leaves, leaf{term: term, kind: "str", goLHS: goExpr, typ: t})
			}
		case *types.Struct:
			for i := 0; i < ut.NumFields(); i++ {
				walk(goExpr+"."+ut.Field(i).Name(), c.structField(t, term, i), ut.Field(i).Type(), depth)
			}
		case *types.Pointer:
			if depth >= 2 {
				return
			}
			if _, isStruct := ut.Elem().Underlying().(*types.Struct); !isStruct {
				return
			}
			leaves = append(leaves, leaf{term: eq(term, "nil"), kind: "isnil", goLHS: goExpr, typ: t})
			a := &Addr{Base: term, CellT: ut.Elem()}
			walk("(*"+goExpr+")", e.load(st0, a), ut.Elem(), depth+1)
		case *types.Slice:
			if _, isBasic := ut.Elem().Underlying().(*types.Basic); !isBasic {
				return
			}
			leaves = append(leaves, leaf{term: "(s.len " + term + ")", kind: "slicelen", goLHS: goExpr, typ: t})
			n, s := c.elemHeap(ut.Elem())
			h := e.heapGet(st0, n, s)
			for k := 0; k < 4; k++ {
				walk(fmt.Sprintf("%s[%d]", goExpr, k), sel(sel(h, "(s.arr "+term+")"), "(bvadd (s.off "+term+") "+bv64(int64(k))+")"), ut.Elem(), depth)
			}
		}
	}
	var callArgs []string
	recvExpr := ""
	hasRecv := fn.Signature.Recv() != nil
	names := map[string]string{}
	for i, prm := range fn.Params {
		var val *Val
		for n, v := range e.topFrame.params {
			if e.topFrame.vals[prm] == v {
				names[n] = fmt.Sprintf("vp_a%d", i)
				val = v
			}
		}
		if val == nil {
			return nil
		}
		gv := fmt.Sprintf("vp_a%d", i)
		setup = append(setup, fmt.Sprintf("var %s %s", gv, g.typeStr(prm.Type())))
		walk(gv, val.T, prm.Type(), 0)
		if hasRecv && i == 0 {
			recvExpr = gv
		} else {
			callArgs = append(callArgs, gv)
		}
	}
	if !ok || len(leaves) == 0 {
		return nil
	}
	var terms []string
	for _, l := range leaves {
		terms = append(terms, l.term)
		if l.kind == "str" {
			terms = append(terms, "(slen "+l.term+")")
		}
	}
	// string literals: to recognise model values that coincide with program constants
	for _, s := range c.strOrder {
		terms = append(terms, c.strLits[s])
	}
	goalNeg := and(o.Guard, not(o.Goal))
	vals, err := getValues(c.queryN(goalNeg, o.Extra, false, true, 0, o.SkipTags), o.File, dedup(terms))
	if err != nil {
		return &replayResult{Attempted: true, Note: "could not extract values from the model: " + err.Error()}
	}
	litOf := map[string]string{}
	for _, s := range c.strOrder {
		if v := vals[c.strLits[s]]; v != nil {
			litOf[v.String()] = s
		}
	}
	inputs := map[string]string{}
	var assigns []string
	nilPtrs := map[string]bool{}
	strSeq := map[string]int{}
	// first pass: which pointers are nil / slice lengths
	sliceLen := map[string]int{}
	for _, l := range leaves {
		v := vals[l.term]
		if v == nil {
			continue
		}
		switch l.kind {
		case "isnil":
			if v.atom == "true" {
				nilPtrs[l.goLHS] = true
			}
		case "slicelen":
			if n, ok := bvValue(v); ok {
				if n > 4 {
					n = 4
				}
				sliceLen[l.goLHS] = int(n)
			}
		}
	}
	underNil := func(goExpr string) bool {
		for p := range nilPtrs {
			if strings.Contains(goExpr, "(*"+p+")") {
				return true
			}
		}
		return false
	}
	for _, l := range leaves {
		v := vals[l.term]
		if v == nil || underNil(l.goLHS) {
			continue
		}
		// element of a slice beyond its length?
		if i := strings.LastIndex(l.goLHS, "["); i > 0 && strings.HasSuffix(l.goLHS, "]") {
			base := l.goLHS[:i]
			k, _ := strconv.Atoi(l.goLHS[i+1 : len(l.goLHS)-1])
			if n, isSl := sliceLen[base]; isSl && k >= n {
				continue
			}
		}
		switch l.kind {
		case "isnil":
			if v.atom != "true" {
				pt := l.typ.Underlying().(*types.Pointer)
				assigns = append(assigns, fmt.Sprintf("%s = new(%s)", l.goLHS, g.typeStr(pt.Elem())))
				inputs[l.goLHS] = "non-nil"
			} else {
				inputs[l.goLHS] = "nil"
			}
		case "slicelen":
			assigns = append(assigns, fmt.Sprintf("%s = make(%s, %d)", l.goLHS, g.typeStr(l.typ), sliceLen[l.goLHS]))
			inputs["len("+l.goLHS+")"] = fmt.Sprint(sliceLen[l.goLHS])
		case "int":
			n, ok := bvValue(v)
			if !ok {
				continue
			}
			var lit string
			if l.sign {
				sv := int64(n)
				if l.bits < 64 && n&(1<<uint(l.bits-1)) != 0 {
					sv = int64(n) - (1 << uint(l.bits))
				}
				lit = fmt.Sprint(sv)
			} else {
				lit = fmt.Sprint(n)
			}
			assigns = append(assigns, fmt.Sprintf("%s = %s(%s)", l.goLHS, g.typeStr(l.typ), lit))
			inputs[l.goLHS] = lit
		case "bool":
			assigns = append(assigns, fmt.Sprintf("%s = %s", l.goLHS, v.atom))
			inputs[l.goLHS] = v.atom
		case "str":
			var s string
			if lit, isLit := litOf[v.String()]; isLit {
				s = lit
			} else {
				ln := uint64(0)
				if lv := vals["(slen "+l.term+")"]; lv != nil {
					ln, _ = bvValue(lv)
				}
				if ln > 4096 {
					return &replayResult{Attempted: true, Note: fmt.Sprintf("model needs a %d-byte string; skipped", ln)}
				}
				id, seen := strSeq[v.String()]
				if !seen {
					id = len(strSeq)
					strSeq[v.String()] = id
				}
				// distinct abstract strings get distinct contents of the model's length
				b := []byte(strings.Repeat("a", int(ln)))
				tag := []byte(fmt.Sprintf("%d", id))
				for k := 0; k < len(tag) && k < len(b); k++ {
					b[len(b)-1-k] = tag[len(tag)-1-k]
				}
				s = string(b)
			}
			assigns = append(assigns, fmt.Sprintf("%s = %s(%s)", l.goLHS, g.typeStr(l.typ), strconv.Quote(s)))
			inputs[l.goLHS] = strconv.Quote(trunc(s, 80))
		}
	}
	// clause
	env := map[string]string{}
	for n, gv := range names {
		env[n] = gv
	}
	var resNames []string
	nres := fn.Signature.Results().Len()
	for i := 0; i < nres; i++ {
		rn := fmt.Sprintf("vp_r%d", i)
		resNames = append(resNames, rn)
		if i < len(fc.Results) {
			env[fc.Results[i]] = rn
		}
	}
	cond := g.specToGo(clause.E, env, p.Specs)
	if g.err != nil {
		return &replayResult{Attempted: true, Note: "clause cannot be evaluated at run time: " + g.err.Error(), Inputs: inputs}
	}
	call := fn.Name() + "(" + strings.Join(callArgs, ", ") + ")"
	if hasRecv {
		call = recvExpr + "." + call
	}
	var src strings.Builder
	src.WriteString("package " + fn.Pkg.Pkg.Name() + "\n\nimport (\n\t\"testing\"\n")
	for path, alias := range g.imports {
		fmt.Fprintf(&src, "\t%s %q\n", alias, path)
	}
	src.WriteString(")\n\n")
	src.WriteString("func vpIte[T any](c bool, a, b T) T {\n\tif c {\n\t\treturn a\n\t}\n\treturn b\n}\n\n")
	src.WriteString("// generated by /verif/govc from a solver counterexample\nfunc TestVerifReplay(t *testing.T) {\n")
	for _, s := range setup {
		src.WriteString("\t" + s + "\n")
	}
	for _, a := range assigns {
		src.WriteString("\t" + a + "\n")
	}
	if nres > 0 {
		src.WriteString("\t" + strings.Join(resNames, ", ") + " := " + call + "\n")
		for _, rn := range resNames {
			src.WriteString("\t_ = " + rn + "\n")
		}
	} else {
		src.WriteString("\t" + call + "\n")
	}
	fmt.Fprintf(&src, "\tif !(%s) {\n\t\tt.Fatalf(\"VERIF-REPLAY-FAIL clause violated on the real code: %%s\", %s)\n\t}\n}\n", cond, strconv.Quote(clause.Text))
	os.MkdirAll(dir, 0o755)
	testFile := filepath.Join(dir, sanitizeFile(o.Name)+"_test.go")
	os.WriteFile(testFile, []byte(src.String()), 0o644)
	rel, _ := filepath.Rel(repoModule, fn.Pkg.Pkg.Path())
	pkgDir := strings.TrimPrefix(fn.Pkg.Pkg.Path(), repoModule+"/")
	_ = rel
	ovFile := filepath.Join(dir, sanitizeFile(o.Name)+"_overlay.json")
	ov := map[string]map[string]string{"Replace": {filepath.Join(repo, pkgDir, "zz_verif_replay_test.go"): testFile}}
	ovData, _ := json.Marshal(ov)
	os.WriteFile(ovFile, ovData, 0o644)
	cmd := fmt.Sprintf("cd %s && ulimit -v 8000000 && go test -overlay %s -vet=off -count=1 -timeout 60s -run '^TestVerifReplay$' ./%s", repo, ovFile, pkgDir)
	out, code := shell(cmd, repo, 120)
	rr := &replayResult{Attempted: true, Inputs: inputs, TestFile: testFile, Cmd: cmd, Output: trunc(out, 4000)}
	if code != 0 && strings.Contains(out, "VERIF-REPLAY-FAIL") {
		rr.Reproduced = true
		rr.Note = "the real function violates the clause on the model's input"
	} else if code != 0 {
		rr.Note = "replay test did not build or failed for another reason"
	} else {
		rr.Note = "the model's input does not violate the clause on the real code (abstraction in the model)"
	}
	return rr
}

var _ = ssa.Value(nil)
