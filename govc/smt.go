package main

// SMT-LIB term construction, sort registry and declaration bookkeeping.
// Terms are plain s-expression strings.

import (
	"fmt"
	"go/types"
	"sort"
	"strings"
)

const (
	sortRef   = "Ref"
	sortIface = "Iface"
	sortSlice = "Slice"
	sortStr   = "Str"
	sortTok   = "Tok"
	sortBV64  = "(_ BitVec 64)"
)

// Ctx collects declarations and assertions for one verification unit (one
// function under contract, one lemma, ...). Everything that is common to all
// obligations of the unit lives here; each obligation adds a negated goal.
type Ctx struct {
	prog *Program

	declOrder []string          // declaration text in order
	declared  map[string]bool   // name -> declared
	asserts   []string          // assumptions (function encoding, callee ensures, axioms)
	tags      map[int]string    // index into asserts -> tag (see assertTagged)
	typeIDs   map[string]int    // type string -> small id
	rtags     map[string]int    // heap name -> tag of the objects kept in it
	typeByID  []types.Type      // id -> type
	structDT  map[string]string // struct type string -> datatype sort name
	strLits   map[string]string // literal -> const name
	strOrder  []string
	fresh     int
	usesFP    bool
	usesQuant bool
	lateDecls []string // axioms to be emitted after all declarations
	litFacts  []string // ground facts about literals (not scanned for axiom triggers)
}

func newCtx(p *Program) *Ctx {
	c := &Ctx{prog: p, declared: map[string]bool{}, typeIDs: map[string]int{}, structDT: map[string]string{}, strLits: map[string]string{}}
	c.typeByID = append(c.typeByID, nil) // id 0 = nil interface
	c.prelude()
	return c
}

func (c *Ctx) prelude() {
	c.rawDecl("(declare-sort Ref 0)")
	c.rawDecl("(declare-sort Iface 0)")
	c.rawDecl("(declare-sort Str 0)")
	c.rawDecl("(declare-sort Tok 0)")
	c.rawDecl("(declare-datatypes ((Slice 0)) (((mk-slice (s.arr Ref) (s.off (_ BitVec 64)) (s.len (_ BitVec 64)) (s.cap (_ BitVec 64))))))")
	c.rawDecl("(declare-const nil Ref)")
	c.rawDecl("(declare-const nilIface Iface)")
	c.rawDecl("(declare-fun itype (Iface) Int)")
	c.rawDecl("(declare-fun slen (Str) (_ BitVec 64))")
	c.rawDecl("(declare-fun scat (Str Str) Str)")
	c.rawDecl("(declare-fun hasPrefix (Str Str) Bool)")
	c.rawDecl("(declare-const str!empty Str)")
	c.strLits[""] = "str!empty"
	c.strOrder = append(c.strOrder, "")
	c.litFacts = append(c.litFacts, "(= (itype nilIface) 0)", "(= (slen str!empty) #x0000000000000000)")
}

// axiomGroups are quantified background axioms that are added to a query only
// when one of their trigger symbols occurs in it (keeps arithmetic-only
// queries quantifier-free).
var axiomGroups = []struct {
	triggers []string
	axioms   []string
}{
	{[]string{"(itype ", "(mk$", "(as$"}, []string{
		"(forall ((x Iface)) (! (=> (= (itype x) 0) (= x nilIface)) :pattern ((itype x))))",
		"(forall ((x Iface)) (! (>= (itype x) 0) :pattern ((itype x))))",
	}},
	{[]string{"(slen ", "(scat ", "(hasPrefix "}, []string{
		"(forall ((s Str)) (! (and (bvsge (slen s) #x0000000000000000) (=> (= (slen s) #x0000000000000000) (= s str!empty))) :pattern ((slen s))))",
	}},
	{[]string{"(scat "}, []string{
		"(forall ((a Str) (b Str)) (! (= (slen (scat a b)) (bvadd (slen a) (slen b))) :pattern ((scat a b))))",
		"(forall ((a Str)) (! (= (scat a str!empty) a) :pattern ((scat a str!empty))))",
		"(forall ((a Str)) (! (= (scat str!empty a) a) :pattern ((scat str!empty a))))",
	}},
	{[]string{"(hasPrefix "}, []string{
		"(forall ((a Str) (b Str)) (! (hasPrefix (scat a b) a) :pattern ((scat a b))))",
		"(forall ((a Str)) (! (hasPrefix a a) :pattern ((hasPrefix a a))))",
	}},
}

func (c *Ctx) rawDecl(s string) { c.declOrder = append(c.declOrder, s) }

func (c *Ctx) assert(s string) {
	if s == "true" {
		return
	}
	c.asserts = append(c.asserts, s)
}

// assertTagged records an assumption that individual obligations may leave out (loop invariants a
// clause says it does not need). Leaving an assumption out is always sound.
func (c *Ctx) assertTagged(s, tag string) {
	if s == "true" {
		return
	}
	if c.tags == nil {
		c.tags = map[int]string{}
	}
	c.tags[len(c.asserts)] = tag
	c.asserts = append(c.asserts, s)
}

// assertsFor: the first n assumptions without those whose tag is in skip.
func (c *Ctx) assertsFor(n int, skip map[string]bool) []string {
	if n <= 0 || n > len(c.asserts) {
		n = len(c.asserts)
	}
	if len(skip) == 0 || len(c.tags) == 0 {
		return c.asserts[:n]
	}
	out := make([]string, 0, n)
	for i, a := range c.asserts[:n] {
		if t, ok := c.tags[i]; ok && skip[t] {
			continue
		}
		out = append(out, a)
	}
	return out
}

// declConst declares a constant once.
func (c *Ctx) declConst(name, sort string) string {
	name = quoteSym(name)
	if !c.declared[name] {
		c.declared[name] = true
		c.rawDecl(fmt.Sprintf("(declare-const %s %s)", name, sort))
	}
	return name
}

func (c *Ctx) declFun(name string, args []string, ret string) string {
	name = quoteSym(name)
	if !c.declared[name] {
		c.declared[name] = true
		c.rawDecl(fmt.Sprintf("(declare-fun %s (%s) %s)", name, strings.Join(args, " "), ret))
	}
	return name
}

func (c *Ctx) freshName(prefix string) string {
	c.fresh++
	return fmt.Sprintf("%s!%d", prefix, c.fresh)
}

func (c *Ctx) freshConst(prefix, sort string) string {
	return c.declConst(c.freshName(prefix), sort)
}

// define introduces a named constant equal to term (keeps terms small).
func (c *Ctx) define(prefix, sort, term string) string {
	if len(term) < 40 && !strings.Contains(term, "(ite") {
		return term
	}
	if sort == "?" || sort == "TUPLE" {
		return term
	}
	n := c.freshConst(prefix, sort)
	c.assert(fmt.Sprintf("(= %s %s)", n, term))
	return n
}

func quoteSym(s string) string {
	ok := true
	for _, r := range s {
		if !(r >= 'a' && r <= 'z' || r >= 'A' && r <= 'Z' || r >= '0' && r <= '9' || strings.ContainsRune("_.!$@#%^&*-+<>=/?~", r)) {
			ok = false
			break
		}
	}
	if ok && s != "" {
		return s
	}
	return "|" + strings.ReplaceAll(strings.ReplaceAll(s, "|", "!"), "\\", "!") + "|"
}

// ---------------------------------------------------------------------------
// sorts

func bvSort(n int) string { return fmt.Sprintf("(_ BitVec %d)", n) }

func bvLit(v uint64, n int) string {
	if n%4 == 0 {
		return fmt.Sprintf("#x%0*x", n/4, v&maskN(n))
	}
	return fmt.Sprintf("(_ bv%d %d)", v&maskN(n), n)
}

func maskN(n int) uint64 {
	if n >= 64 {
		return ^uint64(0)
	}
	return (uint64(1) << uint(n)) - 1
}

func bv64(v int64) string { return bvLit(uint64(v), 64) }

// intWidth returns bit width and signedness of an integer basic type.
func intInfo(t types.Type) (width int, signed bool, ok bool) {
	b, isB := t.Underlying().(*types.Basic)
	if !isB {
		return 0, false, false
	}
	switch b.Kind() {
	case types.Int8:
		return 8, true, true
	case types.Int16:
		return 16, true, true
	case types.Int32:
		return 32, true, true
	case types.Int64, types.Int, types.UntypedInt, types.UntypedRune:
		return 64, true, true
	case types.Uint8:
		return 8, false, true
	case types.Uint16:
		return 16, false, true
	case types.Uint32:
		return 32, false, true
	case types.Uint64, types.Uint, types.Uintptr:
		return 64, false, true
	}
	return 0, false, false
}

func isString(t types.Type) bool {
	b, ok := t.Underlying().(*types.Basic)
	return ok && (b.Kind() == types.String || b.Kind() == types.UntypedString)
}
func isBool(t types.Type) bool {
	b, ok := t.Underlying().(*types.Basic)
	return ok && (b.Kind() == types.Bool || b.Kind() == types.UntypedBool)
}
func isFloat(t types.Type) bool {
	b, ok := t.Underlying().(*types.Basic)
	return ok && (b.Kind() == types.Float64 || b.Kind() == types.Float32 || b.Kind() == types.UntypedFloat)
}
func isIface(t types.Type) bool {
	_, ok := t.Underlying().(*types.Interface)
	return ok
}
func isRefLike(t types.Type) bool {
	switch u := t.Underlying().(type) {
	case *types.Pointer, *types.Map, *types.Chan, *types.Signature:
		return true
	case *types.Basic:
		return u.Kind() == types.UnsafePointer || u.Kind() == types.UntypedNil
	}
	return false
}

// sortOf maps a Go type to an SMT sort.
func (c *Ctx) sortOf(t types.Type) string {
	switch u := t.Underlying().(type) {
	case *types.Basic:
		if w, _, ok := intInfo(t); ok {
			return bvSort(w)
		}
		switch {
		case isBool(t):
			return "Bool"
		case isString(t):
			return sortStr
		case u.Kind() == types.Float64 || u.Kind() == types.UntypedFloat:
			c.usesFP = true
			return "(_ FloatingPoint 11 53)"
		case u.Kind() == types.Float32:
			c.usesFP = true
			return "(_ FloatingPoint 8 24)"
		case u.Kind() == types.UnsafePointer || u.Kind() == types.UntypedNil:
			return sortRef
		case u.Kind() == types.Complex128 || u.Kind() == types.Complex64:
			return sortRef
		}
	case *types.Pointer, *types.Map, *types.Chan, *types.Signature:
		return sortRef
	case *types.Interface:
		return sortIface
	case *types.Slice:
		return sortSlice
	case *types.Struct:
		return c.structSort(t)
	case *types.Array:
		return fmt.Sprintf("(Array (_ BitVec 64) %s)", c.sortOf(u.Elem()))
	case *types.Tuple:
		return "TUPLE"
	}
	panic(fmt.Sprintf("sortOf: unsupported type %s", t))
}

func typeKey(t types.Type) string { return types.TypeString(t, nil) }

// structSort declares (once) a datatype for a struct type.
func (c *Ctx) structSort(t types.Type) string {
	key := typeKey(t)
	if n, ok := c.structDT[key]; ok {
		return n
	}
	st := t.Underlying().(*types.Struct)
	id := len(c.structDT)
	name := fmt.Sprintf("S%d", id)
	c.structDT[key] = name
	// declare field sorts first (may recurse into other structs; pointers break cycles)
	var fields []string
	for i := 0; i < st.NumFields(); i++ {
		fields = append(fields, fmt.Sprintf("(%s.f%d %s)", name, i, c.sortOf(st.Field(i).Type())))
	}
	if len(fields) == 0 {
		c.rawDecl(fmt.Sprintf("(declare-datatypes ((%s 0)) (((mk-%s))))  ; %s", name, name, shortType(key)))
	} else {
		c.rawDecl(fmt.Sprintf("(declare-datatypes ((%s 0)) (((mk-%s %s))))  ; %s", name, name, strings.Join(fields, " "), shortType(key)))
	}
	return name
}

func shortType(s string) string {
	s = strings.ReplaceAll(s, "github.com/trustbloc/sidetree-go/pkg/", "")
	s = strings.ReplaceAll(s, "\n", " ")
	if len(s) > 120 {
		s = s[:120] + "..."
	}
	return s
}

func (c *Ctx) structField(t types.Type, term string, i int) string {
	return fmt.Sprintf("(%s.f%d %s)", c.structSort(t), i, term)
}

// structUpdate returns term with field i replaced by v.
func (c *Ctx) structUpdate(t types.Type, term string, i int, v string) string {
	st := t.Underlying().(*types.Struct)
	name := c.structSort(t)
	parts := make([]string, st.NumFields())
	for k := 0; k < st.NumFields(); k++ {
		if k == i {
			parts[k] = v
		} else {
			parts[k] = fmt.Sprintf("(%s.f%d %s)", name, k, term)
		}
	}
	return fmt.Sprintf("(mk-%s %s)", name, strings.Join(parts, " "))
}

// zero value of a type.
func (c *Ctx) zero(t types.Type) string {
	switch u := t.Underlying().(type) {
	case *types.Basic:
		if w, _, ok := intInfo(t); ok {
			return bvLit(0, w)
		}
		switch {
		case isBool(t):
			return "false"
		case isString(t):
			return "str!empty"
		case isFloat(t):
			c.usesFP = true
			if u.Kind() == types.Float32 {
				return "(_ +zero 8 24)"
			}
			return "(_ +zero 11 53)"
		}
		return "nil"
	case *types.Pointer, *types.Map, *types.Chan, *types.Signature:
		return "nil"
	case *types.Interface:
		return "nilIface"
	case *types.Slice:
		return "(mk-slice nil #x0000000000000000 #x0000000000000000 #x0000000000000000)"
	case *types.Struct:
		name := c.structSort(t)
		if u.NumFields() == 0 {
			return "mk-" + name
		}
		var parts []string
		for i := 0; i < u.NumFields(); i++ {
			parts = append(parts, c.zero(u.Field(i).Type()))
		}
		return fmt.Sprintf("(mk-%s %s)", name, strings.Join(parts, " "))
	case *types.Array:
		return fmt.Sprintf("((as const %s) %s)", c.sortOf(t), c.zero(u.Elem()))
	}
	panic("zero: unsupported " + t.String())
}

// ---------------------------------------------------------------------------
// type ids and interface boxing

func (c *Ctx) typeID(t types.Type) int {
	k := typeKey(t)
	if id, ok := c.typeIDs[k]; ok {
		return id
	}
	id := len(c.typeByID)
	c.typeIDs[k] = id
	c.typeByID = append(c.typeByID, t)
	return id
}

func (c *Ctx) mkName(t types.Type) string { return fmt.Sprintf("mk$%d", c.typeID(t)) }
func (c *Ctx) asName(t types.Type) string { return fmt.Sprintf("as$%d", c.typeID(t)) }

func (c *Ctx) declBox(t types.Type) {
	id := c.typeID(t)
	mk := fmt.Sprintf("mk$%d", id)
	if c.declared[mk] {
		return
	}
	s := c.sortOf(t)
	c.declFun(mk, []string{s}, sortIface)
	c.declFun(fmt.Sprintf("as$%d", id), []string{sortIface}, s)
	c.rawDecl(fmt.Sprintf("; type id %d = %s", id, shortType(typeKey(t))))
	c.usesQuant = true
	c.assert(fmt.Sprintf("(forall ((v %s)) (! (and (= (as$%d (mk$%d v)) v) (= (itype (mk$%d v)) %d)) :pattern ((mk$%d v))))", s, id, id, id, id, id))
	c.assert(fmt.Sprintf("(forall ((x Iface)) (! (=> (= (itype x) %d) (= (mk$%d (as$%d x)) x)) :pattern ((as$%d x))))", id, id, id, id))
}

// box wraps a concrete value into an interface value.
func (c *Ctx) box(t types.Type, term string) string {
	c.declBox(t)
	return fmt.Sprintf("(%s %s)", c.mkName(t), term)
}

func (c *Ctx) unbox(t types.Type, term string) string {
	c.declBox(t)
	return fmt.Sprintf("(%s %s)", c.asName(t), term)
}

func (c *Ctx) isType(t types.Type, term string) string {
	c.declBox(t)
	return fmt.Sprintf("(= (itype %s) %d)", term, c.typeID(t))
}

// ---------------------------------------------------------------------------
// strings

func (c *Ctx) strLit(s string) string {
	if n, ok := c.strLits[s]; ok {
		return n
	}
	n := fmt.Sprintf("str!%d", len(c.strLits))
	c.strLits[s] = n
	c.strOrder = append(c.strOrder, s)
	c.rawDecl(fmt.Sprintf("(declare-const %s Str) ; %q", n, trunc(s, 60)))
	c.litFacts = append(c.litFacts, fmt.Sprintf("(= (slen %s) %s)", n, bv64(int64(len(s)))))
	return n
}

func trunc(s string, n int) string {
	if len(s) > n {
		return s[:n] + "..."
	}
	return s
}

// finalAxioms are added when the query text is produced.
func (c *Ctx) finalAxioms() []string {
	var out []string
	if len(c.lateDecls) > 1 {
		// distinct package-level variables live at distinct addresses
		out = append(out, "(distinct "+strings.Join(c.lateDecls, " ")+")")
	}
	if len(c.strOrder) > 1 {
		var names []string
		for _, s := range c.strOrder {
			names = append(names, c.strLits[s])
		}
		out = append(out, "(distinct "+strings.Join(names, " ")+")")
		// prefix facts between literals
		for _, a := range c.strOrder {
			for _, b := range c.strOrder {
				if a == b {
					continue
				}
				if strings.HasPrefix(a, b) {
					out = append(out, fmt.Sprintf("(hasPrefix %s %s)", c.strLits[a], c.strLits[b]))
				} else {
					out = append(out, fmt.Sprintf("(not (hasPrefix %s %s))", c.strLits[a], c.strLits[b]))
				}
			}
		}
	}
	return out
}

// ---------------------------------------------------------------------------
// heap array names

func (c *Ctx) cellHeap(t types.Type) (name, sort string) {
	id := c.typeID(t)
	return fmt.Sprintf("H$%d", id), fmt.Sprintf("(Array Ref %s)", c.sortOf(t))
}

func (c *Ctx) elemHeap(t types.Type) (name, sort string) {
	id := c.typeID(t)
	return fmt.Sprintf("E$%d", id), fmt.Sprintf("(Array Ref (Array (_ BitVec 64) %s))", c.sortOf(t))
}

func mapKeyType(m *types.Map) types.Type { return m.Key() }

// refHeap names the heap that holds the contents of the object a value of type t refers to
// (backing array, map, pointee): objects kept in different heaps are different objects.
func (c *Ctx) refHeap(t types.Type) string {
	switch u := t.Underlying().(type) {
	case *types.Slice:
		n, _ := c.elemHeap(u.Elem())
		return n
	case *types.Map:
		n, _, _, _ := c.mapHeaps(t)
		return n
	case *types.Pointer:
		n, _ := c.cellHeap(u.Elem())
		return n
	}
	return "?" + t.String()
}

func (c *Ctx) addrHeap(a *Addr) string {
	if a.Elem {
		n, _ := c.elemHeap(a.CellT)
		return n
	}
	n, _ := c.cellHeap(a.CellT)
	return n
}

// memoBorn(r): r was allocated by a call of a memoising function (fixed at allocation, so no
// loop or call changes it).
func (c *Ctx) memoBorn(r string) string {
	if !c.declared["fun:memoborn"] {
		c.declared["fun:memoborn"] = true
		c.rawDecl("(declare-fun memoborn (Ref) Bool)")
	}
	return "(memoborn " + r + ")"
}

// rtagID: the tag (an integer literal) of a heap name; rtag maps an object to the tag of its heap.
func (c *Ctx) rtagID(heap string) string {
	if !c.declared["fun:rtag"] {
		c.declared["fun:rtag"] = true
		c.rawDecl("(declare-fun rtag (Ref) Int)")
	}
	if c.rtags == nil {
		c.rtags = map[string]int{}
	}
	id, ok := c.rtags[heap]
	if !ok {
		id = len(c.rtags) + 1
		c.rtags[heap] = id
	}
	return fmt.Sprint(id)
}

func (c *Ctx) mapHeaps(t types.Type) (has, hasSort, val, valSort string) {
	m := t.Underlying().(*types.Map)
	id := c.typeID(m)
	ks := c.sortOf(m.Key())
	vs := c.sortOf(m.Elem())
	return fmt.Sprintf("MH$%d", id), fmt.Sprintf("(Array Ref (Array %s Bool))", ks),
		fmt.Sprintf("MV$%d", id), fmt.Sprintf("(Array Ref (Array %s %s))", ks, vs)
}

// ---------------------------------------------------------------------------
// query text

func hasQuant(a string) bool {
	return strings.Contains(a, "(forall ") || strings.Contains(a, "(exists ")
}

func (c *Ctx) quantifiedAssumptions() int {
	n := 0
	for _, a := range c.asserts {
		if hasQuant(a) {
			n++
		}
	}
	return n
}

// query renders the SMT-LIB text. With relax set, every quantified assumption
// is dropped: an unsat answer of the relaxed query is still a proof (fewer
// assumptions), and its sat answers come with a usable model.
func (c *Ctx) query(goalNeg string, extra []string, wantModel bool, relax bool) string {
	return c.queryN(goalNeg, extra, wantModel, relax, len(c.asserts))
}

// queryN uses only the first n assumptions (those established before the obligation's program point).
func (c *Ctx) queryN(goalNeg string, extra []string, wantModel bool, relax bool, n int, skip ...map[string]bool) string {
	var body strings.Builder
	var sk map[string]bool
	if len(skip) > 0 {
		sk = skip[0]
	}
	for _, a := range c.assertsFor(n, sk) {
		if relax && hasQuant(a) {
			continue
		}
		body.WriteString("(assert ")
		body.WriteString(a)
		body.WriteString(")\n")
	}
	for _, a := range extra {
		body.WriteString("(assert ")
		body.WriteString(a)
		body.WriteString(")\n")
	}
	if goalNeg != "" {
		body.WriteString("(assert ")
		body.WriteString(goalNeg)
		body.WriteString(")\n")
	}
	bodyS := body.String()
	scanS := bodyS
	var b strings.Builder
	b.WriteString("(set-option :produce-models true)\n")
	b.WriteString("(set-logic ALL)\n")
	for _, d := range c.declOrder {
		b.WriteString(d)
		b.WriteByte('\n')
	}
	for _, a := range c.litFacts {
		if relax && hasQuant(a) {
			continue
		}
		b.WriteString("(assert " + a + ")\n")
		if hasQuant(a) {
			scanS += a
		}
	}
	for _, a := range c.finalAxioms() {
		b.WriteString("(assert " + a + ")\n")
	}
	if !relax {
		for _, g := range axiomGroups {
			hit := false
			for _, t := range g.triggers {
				if strings.Contains(scanS, t) {
					hit = true
				}
			}
			if hit {
				for _, a := range g.axioms {
					b.WriteString("(assert " + a + ")\n")
				}
			}
		}
	}
	b.WriteString(bodyS)
	b.WriteString("(check-sat)\n")
	if wantModel {
		b.WriteString("(get-model)\n")
	}
	return b.String()
}

// needsFull reports whether the full query differs from the relaxed one.
func (c *Ctx) needsFull(goalNeg string, extra []string, n int) bool {
	if n <= 0 || n > len(c.asserts) {
		n = len(c.asserts)
	}
	for _, a := range c.asserts[:n] {
		if hasQuant(a) {
			return true
		}
	}
	for _, a := range c.litFacts {
		if hasQuant(a) {
			return true
		}
	}
	text := goalNeg + strings.Join(extra, " ") + strings.Join(c.asserts[:n], " ")
	for _, g := range axiomGroups {
		for _, t := range g.triggers {
			if strings.Contains(text, t) {
				return true
			}
		}
	}
	return false
}

func and(xs ...string) string {
	var ys []string
	for _, x := range xs {
		if x == "true" || x == "" {
			continue
		}
		if x == "false" {
			return "false"
		}
		ys = append(ys, x)
	}
	switch len(ys) {
	case 0:
		return "true"
	case 1:
		return ys[0]
	}
	return "(and " + strings.Join(ys, " ") + ")"
}

func or(xs ...string) string {
	var ys []string
	for _, x := range xs {
		if x == "false" || x == "" {
			continue
		}
		if x == "true" {
			return "true"
		}
		ys = append(ys, x)
	}
	switch len(ys) {
	case 0:
		return "false"
	case 1:
		return ys[0]
	}
	return "(or " + strings.Join(ys, " ") + ")"
}

func not(x string) string {
	switch x {
	case "true":
		return "false"
	case "false":
		return "true"
	}
	if strings.HasPrefix(x, "(not ") && balanced(x[5:len(x)-1]) {
		return x[5 : len(x)-1]
	}
	return "(not " + x + ")"
}

func balanced(s string) bool {
	d := 0
	for i, r := range s {
		switch r {
		case '(':
			d++
		case ')':
			d--
			if d < 0 {
				return false
			}
			if d == 0 && i != len(s)-1 {
				return false
			}
		case ' ':
			if d == 0 {
				return false
			}
		}
	}
	return d == 0
}

func implies(a, b string) string {
	if a == "true" {
		return b
	}
	if a == "false" || b == "true" {
		return "true"
	}
	return "(=> " + a + " " + b + ")"
}

func ite(c, a, b string) string {
	if c == "true" {
		return a
	}
	if c == "false" {
		return b
	}
	if a == b {
		return a
	}
	return "(ite " + c + " " + a + " " + b + ")"
}

func eq(a, b string) string {
	if a == b {
		return "true"
	}
	return "(= " + a + " " + b + ")"
}

func sel(arr, idx string) string      { return "(select " + arr + " " + idx + ")" }
func store(arr, idx, v string) string { return "(store " + arr + " " + idx + " " + v + ")" }

func sortedKeys[V any](m map[string]V) []string {
	var ks []string
	for k := range m {
		ks = append(ks, k)
	}
	sort.Strings(ks)
	return ks
}
