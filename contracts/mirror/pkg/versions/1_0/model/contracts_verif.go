//go:build verif

// Contracts for package model (comment-only; read by /verif/govc).

package model

//@ func GetUniqueSuffix(model, algs) (ret, err)
//@   pure
