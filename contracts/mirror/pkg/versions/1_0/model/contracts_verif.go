//go:build verif

// Contracts for package model (comment-only; read by /verif/govc).

package model

// C03: the unique suffix is the model multihash of the suffix data under the FIRST configured algorithm
//@ func GetUniqueSuffix(model, algs) (ret, err)
//@   pure
//@   let h, herr := hashing.CalculateModelMultihash(model, algs[0])
//@   ensures [iff] (err == nil) == (len(algs) > 0 && herr == nil)
//@   ensures [suffix] err == nil ==> ret == h
