//go:build verif

// Contracts for package model (comment-only; read by /verif/govc).

package model

// C03: the unique suffix is the model multihash of the suffix data under the FIRST configured algorithm
//@ func GetUniqueSuffix(model, algs) (ret, err)
//@   pure
//@   let h, herr := hashing.CalculateModelMultihash(model, algs[0])
//@   ensures [iff] (err == nil) == (len(algs) > 0 && herr == nil)
//@   ensures [suffix] err == nil ==> ret == h

// C08: the anchored form keeps suffix, type and anchor origin of the request it is made from, and
// exists exactly for the four request types (when the request can be canonicalised)
//@ func GetAnchoredOperation(op) (ret, err)
//@   requires op != nil
//@   modifies nothing
//@   ensures [atomic] (err != nil ==> ret == nil) && (err == nil ==> ret != nil)
//@   ensures [keeps] err == nil ==> ret.Type == op.Type && ret.UniqueSuffix == op.UniqueSuffix && ret.AnchorOrigin == op.AnchorOrigin
//@   ensures [types] err == nil ==> op.Type == operation.TypeCreate || op.Type == operation.TypeUpdate || op.Type == operation.TypeRecover || op.Type == operation.TypeDeactivate
