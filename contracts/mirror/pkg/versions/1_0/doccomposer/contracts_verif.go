//go:build verif

// Contracts for package doccomposer (comment-only; read by /verif/govc).
//
// C12 (no input mutation, atomic failure): frame contracts. `modifies nothing` = every write
// performed by the call (including all inlined helpers and contracted callees) targets an object
// allocated during the call; `modifies mapcontent(doc)` additionally allows entries of doc itself.
// ApplyPatches works on a deep copy, so the per-action functions, which edit their `doc` in place,
// only ever see the copy.

package doccomposer

//@ spec func inStrings(l []string, x string) bool = exists r int :: 0 <= r && r < len(l) && l[r] == x

//@ func deepCopy(doc) (ret, err)
//@   modifies nothing
//@   ensures [atomic] (err != nil ==> ret == nil) && (err == nil ==> ret != nil)
//@   ensures [fresh] err == nil ==> fresh(ret)

//@ func (c *DocumentComposer) ApplyPatches(doc, patches) (ret, err)
//@   modifies nothing
//@   ensures [atomic] (err != nil ==> ret == nil) && (err == nil ==> ret != nil)
//@   ensures [fresh] err == nil ==> fresh(ret)
//@   loop 0 invariant [copy] result != nil && fresh(result)

//@ func applyPatch(doc, p) (ret, err)
//@   requires doc != nil
//@   modifies mapcontent(doc)
//@   ensures [atomic] (err != nil ==> ret == nil) && (err == nil ==> ret != nil)
//@   ensures [result] err == nil ==> ret == doc || fresh(ret)
// C10: the six list actions edit the document they are given, replace and ietf-json-patch return a new one
//@   let act, aerr := p.GetAction()
//@   ensures [in-place] err == nil && (act == patch.AddPublicKeys || act == patch.RemovePublicKeys || act == patch.AddServiceEndpoints ||
//@        act == patch.RemoveServiceEndpoints || act == patch.AddAlsoKnownAs || act == patch.RemoveAlsoKnownAs) ==> ret == doc
//@   ensures [new-doc] err == nil && (act == patch.Replace || act == patch.JSONPatch) ==> fresh(ret)
//@   ensures [known-action] err == nil ==> aerr == nil && (act == patch.Replace || act == patch.JSONPatch || act == patch.AddPublicKeys || act == patch.RemovePublicKeys ||
//@        act == patch.AddServiceEndpoints || act == patch.RemoveServiceEndpoints || act == patch.AddAlsoKnownAs || act == patch.RemoveAlsoKnownAs)

//@ func applyJSON(doc, entry) (ret, err)
//@   modifies nothing
//@   ensures [atomic] (err != nil ==> ret == nil) && (err == nil ==> ret != nil)
//@   ensures [fresh] err == nil ==> fresh(ret)

// C10 replace: the result is a new document with the key list and the service list and nothing else
// (whatever the previous document held is gone: the previous document is not even an argument)
//@ func applyRecover(replaceDoc) (ret, err)
//@   modifies nothing
//@   ensures [atomic] (err != nil ==> ret == nil) && (err == nil ==> ret != nil)
//@   ensures [fresh] err == nil ==> fresh(ret)
//@   ensures [only] err == nil ==> (forall k string :: has(ret, k) <==> (k == "publicKey" || k == "service"))

// C10 add-public-keys: insert or replace by id, keeping the existing order and appending new entries.
// K: the keys before, A: the keys of the patch, M: the set of ids of K, N: the list stored afterwards.
// N keeps the length and the ids of K position by position; a position holds the old key or a patch
// key with the same id, and it holds a patch key whenever the patch has one with that id; behind the
// first len(K) positions come exactly the patch keys whose id is not in M.
//@ func applyAddPublicKeys(doc, entry) (ret, err)
//@   requires doc != nil
//@   modifies mapcontent(doc)
//@   hide document.ParsePublicKeys[nonlist, all]
//@   hide sliceToMapPK[members]
//@   let K := document.ParsePublicKeys(doc["publicKey"])
//@   let A := document.ParsePublicKeys(entry)
//@   let M := sliceToMapPK(K)
//@   ensures [result] err == nil && ret == doc
//@   ensures [list] typeis(doc["publicKey"], []interface{}) && len(doc["publicKey"].([]interface{})) >= len(K)
//@   ensures [ids] uses [len, ids] forall i int :: 0 <= i && i < len(K) ==> typeis(doc["publicKey"].([]interface{})[i], map[string]interface{}) &&
//@        document.strEntry(doc["publicKey"].([]interface{})[i].(map[string]interface{}), "id") == document.strEntry(K[i], "id")
//@   ensures [origin] uses [len, origin] forall i int :: 0 <= i && i < len(K) ==> doc["publicKey"].([]interface{})[i] == any(map[string]interface{}(K[i])) ||
//@        (exists a int :: 0 <= a && a < len(A) && doc["publicKey"].([]interface{})[i] == any(map[string]interface{}(A[a])) && document.strEntry(A[a], "id") == document.strEntry(K[i], "id"))
//@   ensures [replaced] uses [len, replaced] forall i int, a int :: 0 <= i && i < len(K) && 0 <= a && a < len(A) && document.strEntry(A[a], "id") == document.strEntry(K[i], "id") ==>
//@        (exists b int :: 0 <= b && b < len(A) && doc["publicKey"].([]interface{})[i] == any(map[string]interface{}(A[b])) && document.strEntry(A[b], "id") == document.strEntry(K[i], "id"))
//@   ensures [appended] uses [len, appended] forall a int :: 0 <= a && a < len(A) && !has(M, document.strEntry(A[a], "id")) ==>
//@        (exists n int :: len(K) <= n && n < len(doc["publicKey"].([]interface{})) && doc["publicKey"].([]interface{})[n] == any(map[string]interface{}(A[a])))
//@   ensures [tail] uses [len, tail] forall n int :: len(K) <= n && n < len(doc["publicKey"].([]interface{})) ==>
//@        (exists a int :: 0 <= a && a < len(A) && !has(M, document.strEntry(A[a], "id")) && doc["publicKey"].([]interface{})[n] == any(map[string]interface{}(A[a])))
//@   loop 0 invariant [own] newPublicKeys == nil || fresh(newPublicKeys)
//@   loop 0 invariant [apart] uses [own, len] newPublicKeys == nil || (!sameArray(newPublicKeys, K) && !sameArray(newPublicKeys, A))
//@   loop 0 invariant [len] uses [] $k <= len(A) && existingPublicKeysMap == M && len(newPublicKeys) >= len(K)
//@   loop 0 invariant [ids] uses [apart, len] forall i int :: 0 <= i && i < len(K) ==> document.strEntry(newPublicKeys[i], "id") == document.strEntry(K[i], "id")
//@   loop 0 invariant [mapped] uses [apart, len] forall i int :: 0 <= i && i < len(K) ==> has(M, document.strEntry(K[i], "id"))
//@   loop 0 invariant [origin] uses [apart, len, ids] forall i int :: 0 <= i && i < len(K) ==> newPublicKeys[i] == K[i] ||
//@        (exists a int :: 0 <= a && a < $k && newPublicKeys[i] == A[a] && document.strEntry(A[a], "id") == document.strEntry(K[i], "id"))
//@   loop 0 invariant [replaced] uses [apart, len, ids, mapped] forall i int, a int :: 0 <= i && i < len(K) && 0 <= a && a < $k && document.strEntry(A[a], "id") == document.strEntry(K[i], "id") ==>
//@        (exists b int :: 0 <= b && b < $k && newPublicKeys[i] == A[b] && document.strEntry(A[b], "id") == document.strEntry(K[i], "id"))
//@   loop 0 invariant [appended] uses [apart, len, tail] forall a int :: 0 <= a && a < $k && !has(M, document.strEntry(A[a], "id")) ==>
//@        (exists n int :: len(K) <= n && n < len(newPublicKeys) && newPublicKeys[n] == A[a])
//@   loop 0 invariant [tail] uses [apart, len] forall n int :: len(K) <= n && n < len(newPublicKeys) ==>
//@        (exists a int :: 0 <= a && a < $k && !has(M, document.strEntry(A[a], "id")) && newPublicKeys[n] == A[a])

// C10 remove-public-keys: delete by id, ignore unknown ids. K: the keys of the document before, S: the
// set of ids to remove, N: the list stored afterwards. Every entry of N is a key of K, no entry of N
// has an id in S, and every key of K whose id is not in S is an entry of N.
//@ func applyRemovePublicKeys(doc, entry) (ret, err)
//@   requires doc != nil
//@   modifies mapcontent(doc)
// (what the list parsers and the set builder guarantee about their results is not needed here)
//@   hide document.ParsePublicKeys[nonlist, all]
//@   hide document.ParseServices[nonlist, all]
//@   hide document.StringArray[nonlist, bound, strings, all]
//@   hide sliceToMap[members, contains]
//@   let K := document.ParsePublicKeys(doc["publicKey"])
//@   let S := sliceToMap(document.StringArray(entry))
//@   ensures [result] err == nil && ret == doc
//@   ensures [list] typeis(doc["publicKey"], []interface{})
//@   ensures [subset] forall a int :: 0 <= a && a < len(doc["publicKey"].([]interface{})) ==>
//@        (exists j int :: 0 <= j && j < len(K) && !has(S, document.strEntry(K[j], "id")) && doc["publicKey"].([]interface{})[a] == any(map[string]interface{}(K[j])))
//@   ensures [keeps] forall j int :: 0 <= j && j < len(K) && !has(S, document.strEntry(K[j], "id")) ==>
//@        (exists a int :: 0 <= a && a < len(doc["publicKey"].([]interface{})) && doc["publicKey"].([]interface{})[a] == any(map[string]interface{}(K[j])))
//@   loop 0 invariant [own] newPublicKeys == nil || fresh(newPublicKeys)
//@   loop 0 invariant [subset] $k <= len(K) && keysToRemove == S && (forall a int :: 0 <= a && a < len(newPublicKeys) ==>
//@        (exists j int :: 0 <= j && j < $k && !has(S, document.strEntry(K[j], "id")) && newPublicKeys[a] == any(map[string]interface{}(K[j]))))
//@   loop 0 invariant [keeps] forall j int :: 0 <= j && j < $k && !has(S, document.strEntry(K[j], "id")) ==>
//@        (exists a int :: 0 <= a && a < len(newPublicKeys) && newPublicKeys[a] == any(map[string]interface{}(K[j])))

// C10 add-services: as add-public-keys, on the service list.
// K: the services before, A: the services of the patch, M: the set of ids of K, N: the list stored afterwards.
// N keeps the length and the ids of K position by position; a position holds the old key or a patch
// key with the same id, and it holds a patch key whenever the patch has one with that id; behind the
// first len(K) positions come exactly the patch keys whose id is not in M.
//@ func applyAddServiceEndpoints(doc, entry) (ret, err)
//@   requires doc != nil
//@   modifies mapcontent(doc)
//@   hide document.ParseServices[nonlist, all]
//@   hide sliceToMapServices[members]
//@   let K := document.ParseServices(doc["service"])
//@   let A := document.ParseServices(entry)
//@   let M := sliceToMapServices(K)
//@   ensures [result] err == nil && ret == doc
//@   ensures [list] typeis(doc["service"], []interface{}) && len(doc["service"].([]interface{})) >= len(K)
//@   ensures [ids] uses [len, ids] forall i int :: 0 <= i && i < len(K) ==> typeis(doc["service"].([]interface{})[i], map[string]interface{}) &&
//@        document.strEntry(doc["service"].([]interface{})[i].(map[string]interface{}), "id") == document.strEntry(K[i], "id")
//@   ensures [origin] uses [len, origin] forall i int :: 0 <= i && i < len(K) ==> doc["service"].([]interface{})[i] == any(map[string]interface{}(K[i])) ||
//@        (exists a int :: 0 <= a && a < len(A) && doc["service"].([]interface{})[i] == any(map[string]interface{}(A[a])) && document.strEntry(A[a], "id") == document.strEntry(K[i], "id"))
//@   ensures [replaced] uses [len, replaced] forall i int, a int :: 0 <= i && i < len(K) && 0 <= a && a < len(A) && document.strEntry(A[a], "id") == document.strEntry(K[i], "id") ==>
//@        (exists b int :: 0 <= b && b < len(A) && doc["service"].([]interface{})[i] == any(map[string]interface{}(A[b])) && document.strEntry(A[b], "id") == document.strEntry(K[i], "id"))
//@   ensures [appended] uses [len, appended] forall a int :: 0 <= a && a < len(A) && !has(M, document.strEntry(A[a], "id")) ==>
//@        (exists n int :: len(K) <= n && n < len(doc["service"].([]interface{})) && doc["service"].([]interface{})[n] == any(map[string]interface{}(A[a])))
//@   ensures [tail] uses [len, tail] forall n int :: len(K) <= n && n < len(doc["service"].([]interface{})) ==>
//@        (exists a int :: 0 <= a && a < len(A) && !has(M, document.strEntry(A[a], "id")) && doc["service"].([]interface{})[n] == any(map[string]interface{}(A[a])))
//@   loop 0 invariant [own] newServices == nil || fresh(newServices)
//@   loop 0 invariant [apart] uses [own, len] newServices == nil || (!sameArray(newServices, K) && !sameArray(newServices, A))
//@   loop 0 invariant [len] uses [] $k <= len(A) && existingServicesMap == M && len(newServices) >= len(K)
//@   loop 0 invariant [ids] uses [apart, len] forall i int :: 0 <= i && i < len(K) ==> document.strEntry(newServices[i], "id") == document.strEntry(K[i], "id")
//@   loop 0 invariant [mapped] uses [apart, len] forall i int :: 0 <= i && i < len(K) ==> has(M, document.strEntry(K[i], "id"))
//@   loop 0 invariant [origin] uses [apart, len, ids] forall i int :: 0 <= i && i < len(K) ==> newServices[i] == K[i] ||
//@        (exists a int :: 0 <= a && a < $k && newServices[i] == A[a] && document.strEntry(A[a], "id") == document.strEntry(K[i], "id"))
//@   loop 0 invariant [replaced] uses [apart, len, ids, mapped] forall i int, a int :: 0 <= i && i < len(K) && 0 <= a && a < $k && document.strEntry(A[a], "id") == document.strEntry(K[i], "id") ==>
//@        (exists b int :: 0 <= b && b < $k && newServices[i] == A[b] && document.strEntry(A[b], "id") == document.strEntry(K[i], "id"))
//@   loop 0 invariant [appended] uses [apart, len, tail] forall a int :: 0 <= a && a < $k && !has(M, document.strEntry(A[a], "id")) ==>
//@        (exists n int :: len(K) <= n && n < len(newServices) && newServices[n] == A[a])
//@   loop 0 invariant [tail] uses [apart, len] forall n int :: len(K) <= n && n < len(newServices) ==>
//@        (exists a int :: 0 <= a && a < $k && !has(M, document.strEntry(A[a], "id")) && newServices[n] == A[a])

// C10 remove-services: as remove-public-keys, on the service list
//@ func applyRemoveServiceEndpoints(doc, entry) (ret, err)
//@   requires doc != nil
//@   modifies mapcontent(doc)
// (what the list parsers and the set builder guarantee about their results is not needed here)
//@   hide document.ParsePublicKeys[nonlist, all]
//@   hide document.ParseServices[nonlist, all]
//@   hide document.StringArray[nonlist, bound, strings, all]
//@   hide sliceToMap[members, contains]
//@   let K := document.ParseServices(doc["service"])
//@   let S := sliceToMap(document.StringArray(entry))
//@   ensures [result] err == nil && ret == doc
//@   ensures [list] typeis(doc["service"], []interface{})
//@   ensures [subset] forall a int :: 0 <= a && a < len(doc["service"].([]interface{})) ==>
//@        (exists j int :: 0 <= j && j < len(K) && !has(S, document.strEntry(K[j], "id")) && doc["service"].([]interface{})[a] == any(map[string]interface{}(K[j])))
//@   ensures [keeps] forall j int :: 0 <= j && j < len(K) && !has(S, document.strEntry(K[j], "id")) ==>
//@        (exists a int :: 0 <= a && a < len(doc["service"].([]interface{})) && doc["service"].([]interface{})[a] == any(map[string]interface{}(K[j])))
//@   loop 0 invariant [own] newServices == nil || fresh(newServices)
//@   loop 0 invariant [subset] $k <= len(K) && servicesToRemove == S && (forall a int :: 0 <= a && a < len(newServices) ==>
//@        (exists j int :: 0 <= j && j < $k && !has(S, document.strEntry(K[j], "id")) && newServices[a] == any(map[string]interface{}(K[j]))))
//@   loop 0 invariant [keeps] forall j int :: 0 <= j && j < $k && !has(S, document.strEntry(K[j], "id")) ==>
//@        (exists a int :: 0 <= a && a < len(newServices) && newServices[a] == any(map[string]interface{}(K[j])))

// C10 add-also-known-as: ordered set union. E: the URIs before, U: the URIs of the patch, S: the set of
// E, N: the list stored afterwards. N starts with E unchanged; behind it come URIs of U that are not
// in E, and every URI of U that is not in E is among them.
//@ func applyAddAlsoKnownAs(doc, entry) (ret, err)
//@   requires doc != nil
//@   modifies mapcontent(doc)
//@   hide document.StringArray[nonlist, bound, strings, all]
//@   hide sliceToMap[members, contains]
//@   let E := document.StringArray(doc["alsoKnownAs"])
//@   let U := document.StringArray(entry)
//@   let S := sliceToMap(E)
//@   ensures [result] err == nil && ret == doc
//@   ensures [list] typeis(doc["alsoKnownAs"], []interface{})
//@   ensures [prefix] len(doc["alsoKnownAs"].([]interface{})) >= len(E) && (forall i int :: 0 <= i && i < len(E) ==> doc["alsoKnownAs"].([]interface{})[i] == any(E[i]))
//@   ensures [added] forall a int :: len(E) <= a && a < len(doc["alsoKnownAs"].([]interface{})) ==>
//@        (exists u int :: 0 <= u && u < len(U) && !has(S, U[u]) && doc["alsoKnownAs"].([]interface{})[a] == any(U[u]))
//@   ensures [all-new] forall u int :: 0 <= u && u < len(U) && !has(S, U[u]) ==>
//@        (exists a int :: len(E) <= a && a < len(doc["alsoKnownAs"].([]interface{})) && doc["alsoKnownAs"].([]interface{})[a] == any(U[u]))
//@   loop 0 invariant [own] newURIs == nil || fresh(newURIs)
// (the list under construction shares no memory with the lists it is built from)
//@   loop 0 invariant [apart] newURIs == nil || (!sameArray(newURIs, U) && !sameArray(newURIs, E))
//@   loop 0 invariant [prefix] $k <= len(U) && existingURIs == S && len(newURIs) >= len(E) && (forall i int :: 0 <= i && i < len(E) ==> newURIs[i] == E[i])
//@   loop 0 invariant [added] forall a int :: len(E) <= a && a < len(newURIs) ==>
//@        (exists u int :: 0 <= u && u < $k && !has(S, U[u]) && newURIs[a] == U[u])
//@   loop 0 invariant [all-new] forall u int :: 0 <= u && u < $k && !has(S, U[u]) ==>
//@        (exists a int :: len(E) <= a && a < len(newURIs) && newURIs[a] == U[u])

// C10 remove-also-known-as: ordered set difference. K: the URIs before, S: the set to remove
//@ func applyRemoveAlsoKnownAs(doc, entry) (ret, err)
//@   requires doc != nil
//@   modifies mapcontent(doc)
// (what the list parsers and the set builder guarantee about their results is not needed here)
//@   hide document.ParsePublicKeys[nonlist, all]
//@   hide document.ParseServices[nonlist, all]
//@   hide document.StringArray[nonlist, bound, strings, all]
//@   hide sliceToMap[members, contains]
//@   let K := document.StringArray(doc["alsoKnownAs"])
//@   let S := sliceToMap(document.StringArray(entry))
//@   ensures [result] err == nil && ret == doc
//@   ensures [list] typeis(doc["alsoKnownAs"], []interface{})
//@   ensures [subset] forall a int :: 0 <= a && a < len(doc["alsoKnownAs"].([]interface{})) ==>
//@        (exists j int :: 0 <= j && j < len(K) && !has(S, K[j]) && doc["alsoKnownAs"].([]interface{})[a] == any(K[j]))
//@   ensures [keeps] forall j int :: 0 <= j && j < len(K) && !has(S, K[j]) ==>
//@        (exists a int :: 0 <= a && a < len(doc["alsoKnownAs"].([]interface{})) && doc["alsoKnownAs"].([]interface{})[a] == any(K[j]))
//@   loop 0 invariant [own] newURIs == nil || fresh(newURIs)
//@   loop 0 invariant [subset] $k <= len(K) && urisToRemove == S && (forall a int :: 0 <= a && a < len(newURIs) ==>
//@        (exists j int :: 0 <= j && j < $k && !has(S, K[j]) && newURIs[a] == any(K[j])))
//@   loop 0 invariant [keeps] forall j int :: 0 <= j && j < $k && !has(S, K[j]) ==>
//@        (exists a int :: 0 <= a && a < len(newURIs) && newURIs[a] == any(K[j]))

// C10: replace by id, in place: every entry with the id of `key` becomes `key`, every other entry
// (and the order of all entries) stays
//@ func updateKey(keys, key)
//@   modifies elems(keys)
//@   ensures [replace] forall i int :: 0 <= i && i < len(keys) ==>
//@        keys[i] == ite(document.strEntry(old(keys[i]), "id") == document.strEntry(key, "id"), key, old(keys[i]))
//@   loop 0 invariant [done] forall i int :: 0 <= i && i < $k ==>
//@        keys[i] == ite(document.strEntry(old(keys[i]), "id") == document.strEntry(key, "id"), key, old(keys[i]))
//@   loop 0 invariant [todo] forall i int :: $k <= i && i < len(keys) ==> keys[i] == old(keys[i])

//@ func updateService(services, service)
//@   modifies elems(services)
//@   ensures [replace] forall i int :: 0 <= i && i < len(services) ==>
//@        services[i] == ite(document.strEntry(old(services[i]), "id") == document.strEntry(service, "id"), service, old(services[i]))
//@   loop 0 invariant [done] forall i int :: 0 <= i && i < $k ==>
//@        services[i] == ite(document.strEntry(old(services[i]), "id") == document.strEntry(service, "id"), service, old(services[i]))
//@   loop 0 invariant [todo] forall i int :: $k <= i && i < len(services) ==> services[i] == old(services[i])

// the list stored in the document has the same entries in the same order
//@ func convertPublicKeys(pubKeys) (values)
//@   modifies nothing
//@   ensures [own] values == nil || fresh(values)
//@   ensures [same] len(values) == len(pubKeys) && (forall i int :: 0 <= i && i < len(pubKeys) ==> values[i] == any(map[string]interface{}(pubKeys[i])))
//@   loop 0 invariant [own] values == nil || fresh(values)
//@   loop 0 invariant [same] len(values) == $k && $k <= len(pubKeys) && (forall i int :: 0 <= i && i < $k ==> values[i] == any(map[string]interface{}(pubKeys[i])))

//@ func convertServices(services) (values)
//@   modifies nothing
//@   ensures [own] values == nil || fresh(values)
//@   ensures [same] len(values) == len(services) && (forall i int :: 0 <= i && i < len(services) ==> values[i] == any(map[string]interface{}(services[i])))
//@   loop 0 invariant [own] values == nil || fresh(values)
//@   loop 0 invariant [same] len(values) == $k && $k <= len(services) && (forall i int :: 0 <= i && i < $k ==> values[i] == any(map[string]interface{}(services[i])))

//@ func interfaceArray(values) (iArr)
//@   modifies nothing
//@   ensures [own] iArr == nil || fresh(iArr)
//@   ensures [same] len(iArr) == len(values) && (forall i int :: 0 <= i && i < len(values) ==> iArr[i] == any(values[i]))
//@   loop 0 invariant [own] iArr == nil || fresh(iArr)
//@   loop 0 invariant [same] len(iArr) == $k && $k <= len(values) && (forall i int :: 0 <= i && i < $k ==> iArr[i] == any(values[i]))

// the set of the listed strings (a function of the list: contracts refer to it as sliceToMap(l))
//@ func sliceToMap(ids) (values)
//@   pure
//@   modifies nothing
//@   ensures [own] values != nil && fresh(values)
//@   ensures [members] forall x string :: has(values, x) <==> (exists i int :: 0 <= i && i < len(ids) && ids[i] == x)
//@   ensures [contains] forall i int :: 0 <= i && i < len(ids) ==> has(values, ids[i])
//@   loop 0 invariant [own] values != nil && fresh(values)
//@   loop 0 invariant [members] $k <= len(ids) && (forall x string :: has(values, x) <==> (exists i int :: 0 <= i && i < $k && ids[i] == x))

// the set of the ids of the listed keys (a function of the list)
//@ func sliceToMapPK(publicKeys) (values)
//@   pure
//@   modifies nothing
//@   ensures [own] values != nil && fresh(values)
//@   ensures [members] forall x string :: has(values, x) <==> (exists i int :: 0 <= i && i < len(publicKeys) && document.strEntry(publicKeys[i], "id") == x)
//@   ensures [contains] forall i int :: 0 <= i && i < len(publicKeys) ==> has(values, document.strEntry(publicKeys[i], "id"))
//@   loop 0 invariant [own] values != nil && fresh(values)
//@   loop 0 invariant [members] $k <= len(publicKeys) && (forall x string :: has(values, x) <==> (exists i int :: 0 <= i && i < $k && document.strEntry(publicKeys[i], "id") == x))

//@ func sliceToMapServices(services) (values)
//@   pure
//@   modifies nothing
//@   ensures [own] values != nil && fresh(values)
//@   ensures [members] forall x string :: has(values, x) <==> (exists i int :: 0 <= i && i < len(services) && document.strEntry(services[i], "id") == x)
//@   ensures [contains] forall i int :: 0 <= i && i < len(services) ==> has(values, document.strEntry(services[i], "id"))
//@   loop 0 invariant [own] values != nil && fresh(values)
//@   loop 0 invariant [members] $k <= len(services) && (forall x string :: has(values, x) <==> (exists i int :: 0 <= i && i < $k && document.strEntry(services[i], "id") == x))
