//go:build verif

// Contracts for package doccomposer (comment-only; read by /verif/govc).
//
// C12 (no input mutation, atomic failure): frame contracts. `modifies nothing` = every write
// performed by the call (including all inlined helpers and contracted callees) targets an object
// allocated during the call; `modifies mapcontent(doc)` additionally allows entries of doc itself.
// ApplyPatches works on a deep copy, so the per-action functions, which edit their `doc` in place,
// only ever see the copy.

package doccomposer

//@ func deepCopy(doc) (ret, err)
//@   modifies nothing
//@   ensures [atomic] (err != nil ==> ret == nil) && (err == nil ==> ret != nil)
//@   ensures [fresh] err == nil ==> fresh(ret)

//@ func (c *DocumentComposer) ApplyPatches(doc, patches) (ret, err)
//@   modifies nothing
//@   ensures [atomic] (err != nil ==> ret == nil) && (err == nil ==> ret != nil)
//@   ensures [fresh] err == nil ==> fresh(ret)
//@   loop 0 invariant [copy] result != nil && fresh(result)

//@ func applyPatch(doc, p) (ret, err)
//@   requires doc != nil
//@   modifies mapcontent(doc)
//@   ensures [atomic] (err != nil ==> ret == nil) && (err == nil ==> ret != nil)
//@   ensures [result] err == nil ==> ret == doc || fresh(ret)

//@ func applyJSON(doc, entry) (ret, err)
//@   modifies nothing
//@   ensures [atomic] (err != nil ==> ret == nil) && (err == nil ==> ret != nil)
//@   ensures [fresh] err == nil ==> fresh(ret)

//@ func applyRecover(replaceDoc) (ret, err)
//@   modifies nothing
//@   ensures [atomic] (err != nil ==> ret == nil) && (err == nil ==> ret != nil)
//@   ensures [fresh] err == nil ==> fresh(ret)

//@ func applyAddPublicKeys(doc, entry) (ret, err)
//@   requires doc != nil
//@   modifies mapcontent(doc)
//@   ensures [result] err == nil && ret == doc
//@   loop 0 invariant [own] newPublicKeys == nil || fresh(newPublicKeys)

//@ func applyRemovePublicKeys(doc, entry) (ret, err)
//@   requires doc != nil
//@   modifies mapcontent(doc)
//@   ensures [result] err == nil && ret == doc
//@   loop 0 invariant [own] newPublicKeys == nil || fresh(newPublicKeys)

//@ func applyAddServiceEndpoints(doc, entry) (ret, err)
//@   requires doc != nil
//@   modifies mapcontent(doc)
//@   ensures [result] err == nil && ret == doc
//@   loop 0 invariant [own] newServices == nil || fresh(newServices)

//@ func applyRemoveServiceEndpoints(doc, entry) (ret, err)
//@   requires doc != nil
//@   modifies mapcontent(doc)
//@   ensures [result] err == nil && ret == doc
//@   loop 0 invariant [own] newServices == nil || fresh(newServices)

//@ func applyAddAlsoKnownAs(doc, entry) (ret, err)
//@   requires doc != nil
//@   modifies mapcontent(doc)
//@   ensures [result] err == nil && ret == doc
//@   loop 0 invariant [own] newURIs == nil || fresh(newURIs)

//@ func applyRemoveAlsoKnownAs(doc, entry) (ret, err)
//@   requires doc != nil
//@   modifies mapcontent(doc)
//@   ensures [result] err == nil && ret == doc
//@   loop 0 invariant [own] newURIs == nil || fresh(newURIs)

//@ func updateKey(keys, key)
//@   modifies elems(keys)

//@ func updateService(services, service)
//@   modifies elems(services)

//@ func convertPublicKeys(pubKeys) (values)
//@   modifies nothing
//@   ensures [own] values == nil || fresh(values)
//@   loop 0 invariant [own] values == nil || fresh(values)

//@ func convertServices(services) (values)
//@   modifies nothing
//@   ensures [own] values == nil || fresh(values)
//@   loop 0 invariant [own] values == nil || fresh(values)

//@ func interfaceArray(values) (iArr)
//@   modifies nothing
//@   ensures [own] iArr == nil || fresh(iArr)
//@   loop 0 invariant [own] iArr == nil || fresh(iArr)

//@ func sliceToMap(ids) (values)
//@   modifies nothing
//@   ensures [own] values != nil && fresh(values)
//@   loop 0 invariant [own] values != nil && fresh(values)

//@ func sliceToMapPK(publicKeys) (values)
//@   modifies nothing
//@   ensures [own] values != nil && fresh(values)
//@   loop 0 invariant [own] values != nil && fresh(values)

//@ func sliceToMapServices(services) (values)
//@   modifies nothing
//@   ensures [own] values != nil && fresh(values)
//@   loop 0 invariant [own] values != nil && fresh(values)
