//go:build verif

// Contracts for package doccomposer (comment-only; read by /verif/govc).
//
// C12 (no input mutation, atomic failure): frame contracts. `modifies nothing` = every write
// performed by the call (including all inlined helpers and contracted callees) targets an object
// allocated during the call; `modifies mapcontent(doc)` additionally allows entries of doc itself.
// ApplyPatches works on a deep copy, so the per-action functions, which edit their `doc` in place,
// only ever see the copy.

package doccomposer

//@ spec func inStrings(l []string, x string) bool = exists r int :: 0 <= r && r < len(l) && l[r] == x

//@ func deepCopy(doc) (ret, err)
//@   modifies nothing
//@   ensures [atomic] (err != nil ==> ret == nil) && (err == nil ==> ret != nil)
//@   ensures [fresh] err == nil ==> fresh(ret)

//@ func (c *DocumentComposer) ApplyPatches(doc, patches) (ret, err)
//@   modifies nothing
//@   ensures [atomic] (err != nil ==> ret == nil) && (err == nil ==> ret != nil)
//@   ensures [fresh] err == nil ==> fresh(ret)
//@   loop 0 invariant [copy] result != nil && fresh(result)

//@ func applyPatch(doc, p) (ret, err)
//@   requires doc != nil
//@   modifies mapcontent(doc)
//@   ensures [atomic] (err != nil ==> ret == nil) && (err == nil ==> ret != nil)
//@   ensures [result] err == nil ==> ret == doc || fresh(ret)

//@ func applyJSON(doc, entry) (ret, err)
//@   modifies nothing
//@   ensures [atomic] (err != nil ==> ret == nil) && (err == nil ==> ret != nil)
//@   ensures [fresh] err == nil ==> fresh(ret)

//@ func applyRecover(replaceDoc) (ret, err)
//@   modifies nothing
//@   ensures [atomic] (err != nil ==> ret == nil) && (err == nil ==> ret != nil)
//@   ensures [fresh] err == nil ==> fresh(ret)

//@ func applyAddPublicKeys(doc, entry) (ret, err)
//@   requires doc != nil
//@   modifies mapcontent(doc)
//@   ensures [result] err == nil && ret == doc
//@   loop 0 invariant [own] newPublicKeys == nil || fresh(newPublicKeys)

// C10 remove-public-keys: delete by id, ignore unknown ids. K: the keys of the document before, S: the
// set of ids to remove, N: the list stored afterwards. Every entry of N is a key of K, no entry of N
// has an id in S, and every key of K whose id is not in S is an entry of N.
//@ func applyRemovePublicKeys(doc, entry) (ret, err)
//@   requires doc != nil
//@   modifies mapcontent(doc)
// (what the list parsers and the set builder guarantee about their results is not needed here)
//@   hide document.ParsePublicKeys[nonlist, all]
//@   hide document.ParseServices[nonlist, all]
//@   hide document.StringArray[nonlist, bound, strings, all]
//@   hide sliceToMap[members, contains]
//@   let K := document.ParsePublicKeys(doc["publicKey"])
//@   let S := sliceToMap(document.StringArray(entry))
//@   ensures [result] err == nil && ret == doc
//@   ensures [list] typeis(doc["publicKey"], []interface{})
//@   ensures [subset] forall a int :: 0 <= a && a < len(doc["publicKey"].([]interface{})) ==>
//@        (exists j int :: 0 <= j && j < len(K) && !has(S, document.strEntry(K[j], "id")) && doc["publicKey"].([]interface{})[a] == any(map[string]interface{}(K[j])))
//@   ensures [keeps] forall j int :: 0 <= j && j < len(K) && !has(S, document.strEntry(K[j], "id")) ==>
//@        (exists a int :: 0 <= a && a < len(doc["publicKey"].([]interface{})) && doc["publicKey"].([]interface{})[a] == any(map[string]interface{}(K[j])))
//@   loop 0 invariant [own] newPublicKeys == nil || fresh(newPublicKeys)
//@   loop 0 invariant [subset] $k <= len(K) && keysToRemove == S && (forall a int :: 0 <= a && a < len(newPublicKeys) ==>
//@        (exists j int :: 0 <= j && j < $k && !has(S, document.strEntry(K[j], "id")) && newPublicKeys[a] == any(map[string]interface{}(K[j]))))
//@   loop 0 invariant [keeps] forall j int :: 0 <= j && j < $k && !has(S, document.strEntry(K[j], "id")) ==>
//@        (exists a int :: 0 <= a && a < len(newPublicKeys) && newPublicKeys[a] == any(map[string]interface{}(K[j])))

//@ func applyAddServiceEndpoints(doc, entry) (ret, err)
//@   requires doc != nil
//@   modifies mapcontent(doc)
//@   ensures [result] err == nil && ret == doc
//@   loop 0 invariant [own] newServices == nil || fresh(newServices)

// C10 remove-services: as remove-public-keys, on the service list
//@ func applyRemoveServiceEndpoints(doc, entry) (ret, err)
//@   requires doc != nil
//@   modifies mapcontent(doc)
// (what the list parsers and the set builder guarantee about their results is not needed here)
//@   hide document.ParsePublicKeys[nonlist, all]
//@   hide document.ParseServices[nonlist, all]
//@   hide document.StringArray[nonlist, bound, strings, all]
//@   hide sliceToMap[members, contains]
//@   let K := document.ParseServices(doc["service"])
//@   let S := sliceToMap(document.StringArray(entry))
//@   ensures [result] err == nil && ret == doc
//@   ensures [list] typeis(doc["service"], []interface{})
//@   ensures [subset] forall a int :: 0 <= a && a < len(doc["service"].([]interface{})) ==>
//@        (exists j int :: 0 <= j && j < len(K) && !has(S, document.strEntry(K[j], "id")) && doc["service"].([]interface{})[a] == any(map[string]interface{}(K[j])))
//@   ensures [keeps] forall j int :: 0 <= j && j < len(K) && !has(S, document.strEntry(K[j], "id")) ==>
//@        (exists a int :: 0 <= a && a < len(doc["service"].([]interface{})) && doc["service"].([]interface{})[a] == any(map[string]interface{}(K[j])))
//@   loop 0 invariant [own] newServices == nil || fresh(newServices)
//@   loop 0 invariant [subset] $k <= len(K) && servicesToRemove == S && (forall a int :: 0 <= a && a < len(newServices) ==>
//@        (exists j int :: 0 <= j && j < $k && !has(S, document.strEntry(K[j], "id")) && newServices[a] == any(map[string]interface{}(K[j]))))
//@   loop 0 invariant [keeps] forall j int :: 0 <= j && j < $k && !has(S, document.strEntry(K[j], "id")) ==>
//@        (exists a int :: 0 <= a && a < len(newServices) && newServices[a] == any(map[string]interface{}(K[j])))

//@ func applyAddAlsoKnownAs(doc, entry) (ret, err)
//@   requires doc != nil
//@   modifies mapcontent(doc)
//@   ensures [result] err == nil && ret == doc
//@   loop 0 invariant [own] newURIs == nil || fresh(newURIs)

// C10 remove-also-known-as: ordered set difference. K: the URIs before, S: the set to remove
//@ func applyRemoveAlsoKnownAs(doc, entry) (ret, err)
//@   requires doc != nil
//@   modifies mapcontent(doc)
// (what the list parsers and the set builder guarantee about their results is not needed here)
//@   hide document.ParsePublicKeys[nonlist, all]
//@   hide document.ParseServices[nonlist, all]
//@   hide document.StringArray[nonlist, bound, strings, all]
//@   hide sliceToMap[members, contains]
//@   let K := document.StringArray(doc["alsoKnownAs"])
//@   let S := sliceToMap(document.StringArray(entry))
//@   ensures [result] err == nil && ret == doc
//@   ensures [list] typeis(doc["alsoKnownAs"], []interface{})
//@   ensures [subset] forall a int :: 0 <= a && a < len(doc["alsoKnownAs"].([]interface{})) ==>
//@        (exists j int :: 0 <= j && j < len(K) && !has(S, K[j]) && doc["alsoKnownAs"].([]interface{})[a] == any(K[j]))
//@   ensures [keeps] forall j int :: 0 <= j && j < len(K) && !has(S, K[j]) ==>
//@        (exists a int :: 0 <= a && a < len(doc["alsoKnownAs"].([]interface{})) && doc["alsoKnownAs"].([]interface{})[a] == any(K[j]))
//@   loop 0 invariant [own] newURIs == nil || fresh(newURIs)
//@   loop 0 invariant [subset] $k <= len(K) && urisToRemove == S && (forall a int :: 0 <= a && a < len(newURIs) ==>
//@        (exists j int :: 0 <= j && j < $k && !has(S, K[j]) && newURIs[a] == any(K[j])))
//@   loop 0 invariant [keeps] forall j int :: 0 <= j && j < $k && !has(S, K[j]) ==>
//@        (exists a int :: 0 <= a && a < len(newURIs) && newURIs[a] == any(K[j]))

// C10: replace by id, in place: every entry with the id of `key` becomes `key`, every other entry
// (and the order of all entries) stays
//@ func updateKey(keys, key)
//@   modifies elems(keys)
//@   ensures [replace] forall i int :: 0 <= i && i < len(keys) ==>
//@        keys[i] == ite(document.strEntry(old(keys[i]), "id") == document.strEntry(key, "id"), key, old(keys[i]))
//@   loop 0 invariant [done] forall i int :: 0 <= i && i < $k ==>
//@        keys[i] == ite(document.strEntry(old(keys[i]), "id") == document.strEntry(key, "id"), key, old(keys[i]))
//@   loop 0 invariant [todo] forall i int :: $k <= i && i < len(keys) ==> keys[i] == old(keys[i])

//@ func updateService(services, service)
//@   modifies elems(services)
//@   ensures [replace] forall i int :: 0 <= i && i < len(services) ==>
//@        services[i] == ite(document.strEntry(old(services[i]), "id") == document.strEntry(service, "id"), service, old(services[i]))
//@   loop 0 invariant [done] forall i int :: 0 <= i && i < $k ==>
//@        services[i] == ite(document.strEntry(old(services[i]), "id") == document.strEntry(service, "id"), service, old(services[i]))
//@   loop 0 invariant [todo] forall i int :: $k <= i && i < len(services) ==> services[i] == old(services[i])

// the list stored in the document has the same entries in the same order
//@ func convertPublicKeys(pubKeys) (values)
//@   modifies nothing
//@   ensures [own] values == nil || fresh(values)
//@   ensures [same] len(values) == len(pubKeys) && (forall i int :: 0 <= i && i < len(pubKeys) ==> values[i] == any(map[string]interface{}(pubKeys[i])))
//@   loop 0 invariant [own] values == nil || fresh(values)
//@   loop 0 invariant [same] len(values) == $k && $k <= len(pubKeys) && (forall i int :: 0 <= i && i < $k ==> values[i] == any(map[string]interface{}(pubKeys[i])))

//@ func convertServices(services) (values)
//@   modifies nothing
//@   ensures [own] values == nil || fresh(values)
//@   ensures [same] len(values) == len(services) && (forall i int :: 0 <= i && i < len(services) ==> values[i] == any(map[string]interface{}(services[i])))
//@   loop 0 invariant [own] values == nil || fresh(values)
//@   loop 0 invariant [same] len(values) == $k && $k <= len(services) && (forall i int :: 0 <= i && i < $k ==> values[i] == any(map[string]interface{}(services[i])))

//@ func interfaceArray(values) (iArr)
//@   modifies nothing
//@   ensures [own] iArr == nil || fresh(iArr)
//@   ensures [same] len(iArr) == len(values) && (forall i int :: 0 <= i && i < len(values) ==> iArr[i] == any(values[i]))
//@   loop 0 invariant [own] iArr == nil || fresh(iArr)
//@   loop 0 invariant [same] len(iArr) == $k && $k <= len(values) && (forall i int :: 0 <= i && i < $k ==> iArr[i] == any(values[i]))

// the set of the listed strings (a function of the list: contracts refer to it as sliceToMap(l))
//@ func sliceToMap(ids) (values)
//@   pure
//@   modifies nothing
//@   ensures [own] values != nil && fresh(values)
//@   ensures [members] forall x string :: has(values, x) <==> (exists i int :: 0 <= i && i < len(ids) && ids[i] == x)
//@   ensures [contains] forall i int :: 0 <= i && i < len(ids) ==> has(values, ids[i])
//@   loop 0 invariant [own] values != nil && fresh(values)
//@   loop 0 invariant [members] $k <= len(ids) && (forall x string :: has(values, x) <==> (exists i int :: 0 <= i && i < $k && ids[i] == x))

// the set of the ids of the listed keys
//@ func sliceToMapPK(publicKeys) (values)
//@   modifies nothing
//@   ensures [own] values != nil && fresh(values)
//@   ensures [members] forall x string :: has(values, x) <==> (exists i int :: 0 <= i && i < len(publicKeys) && document.strEntry(publicKeys[i], "id") == x)
//@   ensures [contains] forall i int :: 0 <= i && i < len(publicKeys) ==> has(values, document.strEntry(publicKeys[i], "id"))
//@   loop 0 invariant [own] values != nil && fresh(values)
//@   loop 0 invariant [members] $k <= len(publicKeys) && (forall x string :: has(values, x) <==> (exists i int :: 0 <= i && i < $k && document.strEntry(publicKeys[i], "id") == x))

//@ func sliceToMapServices(services) (values)
//@   modifies nothing
//@   ensures [own] values != nil && fresh(values)
//@   ensures [members] forall x string :: has(values, x) <==> (exists i int :: 0 <= i && i < len(services) && document.strEntry(services[i], "id") == x)
//@   ensures [contains] forall i int :: 0 <= i && i < len(services) ==> has(values, document.strEntry(services[i], "id"))
//@   loop 0 invariant [own] values != nil && fresh(values)
//@   loop 0 invariant [members] $k <= len(services) && (forall x string :: has(values, x) <==> (exists i int :: 0 <= i && i < $k && document.strEntry(services[i], "id") == x))
