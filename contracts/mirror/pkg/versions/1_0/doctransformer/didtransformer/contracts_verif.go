//go:build verif

// Contracts for package didtransformer (comment-only; read by /verif/govc).

package didtransformer

//@ func (t *Transformer) TransformDocument(rm, info) (ret, err)
//@   requires t != nil && doctransformer.wfModel(rm) && doctransformer.wfInfo(info)
//@   requires info != nil && has(info, "id") ==> typeis(info["id"], string)
//@   ensures [atomic] (err != nil ==> ret == nil) && (err == nil ==> ret != nil)

// helpers of TransformDocument are verified in place (inlined); the loop clauses state what stays
// true while the per-key / per-service work runs
//@ func (t *Transformer) processKeys(internal, resolutionResult) (err)
//@   loop 0 invariant resolutionResult != nil && resolutionResult.Document != nil
//@   loop 1 invariant resolutionResult != nil && resolutionResult.Document != nil
//@   loop 2 invariant resolutionResult != nil && resolutionResult.Document != nil

//@ func (t *Transformer) processServices(internal, resolutionResult)
//@   loop 0 invariant resolutionResult != nil && resolutionResult.Document != nil
//@   loop 1 invariant resolutionResult != nil && resolutionResult.Document != nil
