//go:build verif

// Contracts for package didtransformer (comment-only; read by /verif/govc).

package didtransformer

//@ func (t *Transformer) TransformDocument(rm, info) (ret, err)
//@   requires t != nil && doctransformer.wfModel(rm) && doctransformer.wfInfo(info)
//@   requires info != nil && has(info, "id") ==> typeis(info["id"], string)
//@   ensures [atomic] (err != nil ==> ret == nil) && (err == nil ==> ret != nil)
// ownership (C20): the only pre-existing memory a transformation writes is its own input -- the
// operation lists of rm are ordered in place by the metadata step; the transformer itself is read-only
//@   modifies elems(rm.PublishedOperations)
//@   modifies elems(rm.UnpublishedOperations)

// the context list stored in a document under "@context", when it is a list of values
//@ spec func ctxSlice(m map[string]interface{}) []interface{} =
//@   ite(typeis(m["@context"], []interface{}), m["@context"].([]interface{}), zeroOf(0, []interface{}))

// the helpers fill in the result document they are handed (and may extend its context list in
// place); the loop clauses state what stays true while the per-key / per-service work runs
//@ func (t *Transformer) processKeys(internal, resolutionResult) (err)
//@   requires t != nil && resolutionResult != nil && resolutionResult.Document != nil
//@   modifies mapcontent(resolutionResult.Document)
//@   modifies elems(ctxSlice(resolutionResult.Document))
//@   loop 0 invariant resolutionResult != nil && resolutionResult.Document != nil
//@   loop 1 invariant resolutionResult != nil && resolutionResult.Document != nil
//@   loop 2 invariant resolutionResult != nil && resolutionResult.Document != nil
// the per-purpose lists are built by this call: appending to them never writes memory that existed before
//@   loop 0 invariant [purposes.fresh] purposes != nil && (forall k string :: has(purposes, k) ==> purposes[k] == nil || built(purposes[k]))
//@   loop 1 invariant [purposes.fresh] purposes != nil && (forall k string :: has(purposes, k) ==> purposes[k] == nil || built(purposes[k]))

//@ func (t *Transformer) processServices(internal, resolutionResult)
//@   requires t != nil && resolutionResult != nil && resolutionResult.Document != nil
//@   modifies mapcontent(resolutionResult.Document)
//@   loop 0 invariant resolutionResult != nil && resolutionResult.Document != nil
//@   loop 1 invariant resolutionResult != nil && resolutionResult.Document != nil
