//go:build verif

// Contracts for package doctransformer (comment-only; read by /verif/govc).

package doctransformer

// what the metadata builder needs of a resolution model handed in by the caller (an object built by
// the applier / the operation processor, not something derived from untrusted bytes)
//@ spec func wfModel(rm *protocol.ResolutionModel) bool = rm != nil ==>
//@     (forall i int :: 0 <= i && i < len(rm.PublishedOperations) ==> rm.PublishedOperations[i] != nil && allocated(rm.PublishedOperations[i])) &&
//@     (forall i int :: 0 <= i && i < len(rm.UnpublishedOperations) ==> rm.UnpublishedOperations[i] != nil && allocated(rm.UnpublishedOperations[i])) &&
//@     (!sameArray(rm.PublishedOperations, rm.UnpublishedOperations) || len(rm.PublishedOperations) == 0 || len(rm.UnpublishedOperations) == 0)
//@ spec func wfInfo(info protocol.TransformationInfo) bool = info != nil && has(info, "published") ==> typeis(info["published"], bool)

//@ func (v *Transformer) TransformDocument(rm, info) (ret, err)
//@   requires v != nil && wfModel(rm) && wfInfo(info)
//@   ensures [atomic] (err != nil ==> ret == nil) && (err == nil ==> ret != nil)
// ownership (C20): only the input model is written -- its operation lists are ordered in place and
// its document receives the id; the transformer itself is read-only
//@   modifies elems(rm.PublishedOperations)
//@   modifies elems(rm.UnpublishedOperations)
//@   modifies mapcontent(rm.Doc)
