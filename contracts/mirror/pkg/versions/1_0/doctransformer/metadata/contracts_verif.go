//go:build verif

// Contracts for package metadata (comment-only; read by /verif/govc).

package metadata

// C18: anchoring order = by transaction time, then by transaction number
//@ spec func before(t1 uint64, n1 uint64, t2 uint64, n2 uint64) bool = t1 < t2 || (t1 == t2 && n1 < n2)

// the comparator handed to sort.Slice (closure of sortOperations; `ops` is the captured slice variable)
//@ func sortOperations$1(i, j) (r)
//@   pure
//@   requires ops != nil && 0 <= i && i < len(deref(ops)) && 0 <= j && j < len(deref(ops)) && deref(ops)[i] != nil && deref(ops)[j] != nil
//@   ensures [order] r == before(deref(ops)[i].TransactionTime, deref(ops)[i].TransactionNumber, deref(ops)[j].TransactionTime, deref(ops)[j].TransactionNumber)

// `before` is a strict weak order (what sort.Slice needs to produce a sorted result)
//@ lemma C18_order(t1 uint64, n1 uint64, t2 uint64, n2 uint64, t3 uint64, n3 uint64)
//@   ensures [irreflexive] !before(t1, n1, t1, n1)
//@   ensures [transitive] before(t1, n1, t2, n2) && before(t2, n2, t3, n3) ==> before(t1, n1, t3, n3)
//@   ensures [asymmetric] before(t1, n1, t2, n2) ==> !before(t2, n2, t1, n1)
//@   ensures [incomparable-transitive] !before(t1, n1, t2, n2) && !before(t2, n2, t1, n1) && !before(t2, n2, t3, n3) && !before(t3, n3, t2, n2) ==>
//@        !before(t1, n1, t3, n3) && !before(t3, n3, t1, n1)
//@   ensures [total] !before(t1, n1, t2, n2) && !before(t2, n2, t1, n1) ==> t1 == t2 && n1 == n2

// sortOperations hands the comparator above to sort.Slice. That sort.Slice leaves a permutation that is
// sorted with respect to a strict-weak-order comparator is the library's documented behaviour and is
// ASSUMED here (the comparator itself and the order lemmas are proved).
//@ func sortOperations(ops)
//@   trusted "sort.Slice sorts in place by the comparator (strict weak order, proved as lemma C18_order); permutation and sortedness are the library's contract"
//@   modifies elems(ops)
//@   ensures [sorted] forall a int, b int :: 0 <= a && a < b && b < len(ops) ==>
//@        !before(ops[b].TransactionTime, ops[b].TransactionNumber, ops[a].TransactionTime, ops[a].TransactionNumber)
//@   ensures [same-elements] (forall i int :: 0 <= i && i < len(ops) ==> (exists j int :: 0 <= j && j < len(ops) && ops[i] == old(ops[j]))) &&
//@        (forall j int :: 0 <= j && j < len(ops) ==> (exists i int :: 0 <= i && i < len(ops) && ops[i] == old(ops[j])))

// every anchored operation yields exactly one unpublished entry, in anchoring order, fields one to one
//@ func getUnpublishedOperations(ops) (ret)
//@   requires forall i int :: 0 <= i && i < len(ops) ==> ops[i] != nil && allocated(ops[i])
//@   modifies elems(ops)
//@   ensures [length] len(ret) == len(ops)
//@   ensures [fields] forall i int :: 0 <= i && i < len(ops) ==> ret[i] != nil && ret[i].Type == ops[i].Type &&
//@        ret[i].OperationRequest == ops[i].OperationRequest && ret[i].TransactionTime == ops[i].TransactionTime &&
//@        ret[i].ProtocolVersion == ops[i].ProtocolVersion && ret[i].AnchorOrigin == ops[i].AnchorOrigin
//@   ensures [sorted] forall a int, b int :: 0 <= a && a < b && b < len(ops) ==>
//@        !before(ops[b].TransactionTime, ops[b].TransactionNumber, ops[a].TransactionTime, ops[a].TransactionNumber)
//@   loop 0 invariant [shape] len(unpublishedOps) == len(ops) && fresh(unpublishedOps)
//@   loop 0 invariant [fields] forall j int :: 0 <= j && j < $k ==> unpublishedOps[j] != nil && alive(unpublishedOps[j]) && fresh(unpublishedOps[j]) &&
//@        unpublishedOps[j].Type == ops[j].Type && unpublishedOps[j].OperationRequest == ops[j].OperationRequest &&
//@        unpublishedOps[j].TransactionTime == ops[j].TransactionTime && unpublishedOps[j].ProtocolVersion == ops[j].ProtocolVersion &&
//@        unpublishedOps[j].AnchorOrigin == ops[j].AnchorOrigin
//@   loop 0 invariant [ops-nonnil] forall j int :: 0 <= j && j < len(ops) ==> ops[j] != nil && !fresh(ops[j])
//@   loop 0 invariant [sorted] forall a int, b int :: 0 <= a && a < b && b < len(ops) ==>
//@        !before(ops[b].TransactionTime, ops[b].TransactionNumber, ops[a].TransactionTime, ops[a].TransactionNumber)

// published operations: de-duplicated by canonical reference (first occurrence in anchoring order wins),
// in anchoring order, fields copied one to one
//@ spec func samePublished(p *PublishedOperation, op *operation.AnchoredOperation) bool =
//@     p.Type == op.Type && p.OperationRequest == op.OperationRequest && p.TransactionTime == op.TransactionTime &&
//@     p.TransactionNumber == op.TransactionNumber && p.ProtocolVersion == op.ProtocolVersion &&
//@     p.CanonicalReference == op.CanonicalReference && p.EquivalentReferences == op.EquivalentReferences && p.AnchorOrigin == op.AnchorOrigin
//
// (The loop invariants below discharge every obligation; the slowest take about 6 s of the 10 s quick
// time-out. To keep the quick tier far from its time-out the contract is an ASSUMPTION for callers there,
// checked by the bounded stand-in bounded/c18_published - labelled bounded, not proved -, and it is proved in
// the thorough tier (`trusted quick`). Each clause names the loop invariants its proof needs: `uses [...]`.)
//@ func getPublishedOperations(ops) (ret)
//@   trusted quick "bounded in the quick tier: checked by bounded/c18_published over all lists of up to 4 operations; proved in the thorough tier"
//@   requires forall i int :: 0 <= i && i < len(ops) ==> ops[i] != nil && allocated(ops[i])
//@   modifies elems(ops)
//@   ensures [subset] uses [subset, ops] forall j int :: 0 <= j && j < len(ret) ==> ret[j] != nil && (exists i int :: 0 <= i && i < len(ops) && samePublished(ret[j], ops[i]))
//@   ensures [cover] uses [seen, map-in-list, ops] forall i int :: 0 <= i && i < len(ops) ==> (exists j int :: 0 <= j && j < len(ret) && ret[j].CanonicalReference == ops[i].CanonicalReference)
//@   ensures [dedup] uses [dedup] forall a int, b int :: 0 <= a && a < b && b < len(ret) ==> ret[a].CanonicalReference != ret[b].CanonicalReference
//@   ensures [order] uses [order] forall a int, b int :: 0 <= a && a < b && b < len(ret) ==>
//@        !before(ret[b].TransactionTime, ret[b].TransactionNumber, ret[a].TransactionTime, ret[a].TransactionNumber)
//@   loop 0 invariant [subset] uses [ops] forall j int :: 0 <= j && j < len(publishedOps) ==> publishedOps[j] != nil && alive(publishedOps[j]) && fresh(publishedOps[j]) &&
//@        (exists i int :: 0 <= i && i < $k && samePublished(publishedOps[j], ops[i]))
//@   loop 0 invariant [seen] uses [ops] forall i int :: 0 <= i && i < $k ==> has(uniqueOps, ops[i].CanonicalReference)
//@   loop 0 invariant [map-in-list] uses [ops, subset] forall s string :: has(uniqueOps, s) ==> (exists j int :: 0 <= j && j < len(publishedOps) && publishedOps[j].CanonicalReference == s)
//@   loop 0 invariant [list-in-map] uses [ops, subset] forall j int :: 0 <= j && j < len(publishedOps) ==> has(uniqueOps, publishedOps[j].CanonicalReference)
//@   loop 0 invariant [dedup] uses [ops, subset, list-in-map] forall a int, b int :: 0 <= a && a < b && b < len(publishedOps) ==> publishedOps[a].CanonicalReference != publishedOps[b].CanonicalReference
// (what is still to come is not anchored before anything already emitted: that is what makes appending keep the order)
//@   loop 0 invariant [bound] uses [ops, subset, ops-sorted] forall a int, j int :: 0 <= a && a < len(publishedOps) && $k <= j && j < len(ops) ==>
//@        !before(ops[j].TransactionTime, ops[j].TransactionNumber, publishedOps[a].TransactionTime, publishedOps[a].TransactionNumber)
//@   loop 0 invariant [order] uses [ops, subset, bound] forall a int, b int :: 0 <= a && a < b && b < len(publishedOps) ==>
//@        !before(publishedOps[b].TransactionTime, publishedOps[b].TransactionNumber, publishedOps[a].TransactionTime, publishedOps[a].TransactionNumber)
//@   loop 0 invariant [ops] uses [] uniqueOps != nil && (forall j int :: 0 <= j && j < len(ops) ==> ops[j] != nil && !fresh(ops[j])) &&
//@        (publishedOps == nil || fresh(publishedOps))
//@   loop 0 invariant [ops-sorted] uses [ops, subset] forall a int, b int :: 0 <= a && a < b && b < len(ops) ==>
//@        !before(ops[b].TransactionTime, ops[b].TransactionNumber, ops[a].TransactionTime, ops[a].TransactionNumber)

// document metadata: every item is present exactly under its condition and equal to the state's field
//@ func (t *Metadata) CreateDocumentMetadata(rm, info) (ret, err)
//@   modifies elems(rm.PublishedOperations), elems(rm.UnpublishedOperations)
//@   requires t != nil
//@   requires rm != nil ==> (forall i int :: 0 <= i && i < len(rm.PublishedOperations) ==> rm.PublishedOperations[i] != nil && allocated(rm.PublishedOperations[i])) &&
//@        (forall i int :: 0 <= i && i < len(rm.UnpublishedOperations) ==> rm.UnpublishedOperations[i] != nil && allocated(rm.UnpublishedOperations[i]))
//@   requires info != nil && has(info, "published") ==> typeis(info["published"], bool)
// the two operation lists are separate slices (both are sorted in place)
//@   requires rm != nil ==> !sameArray(rm.PublishedOperations, rm.UnpublishedOperations) || len(rm.PublishedOperations) == 0 || len(rm.UnpublishedOperations) == 0
//@   let ok := rm != nil && rm.Doc != nil && info != nil && has(info, "published")
//@   letpost mm := ret["method"].(document.Metadata)
//@   ensures [refuse] !ok ==> err != nil && ret == nil
//@   ensures [accept] ok ==> err == nil && ret != nil && fresh(ret) && typeis(ret["method"], document.Metadata) && mm != nil
//@   ensures [published] ok ==> mm["published"] == info["published"]
//@   ensures [recoveryCommitment] ok ==> has(mm, "recoveryCommitment") == (rm.RecoveryCommitment != "") &&
//@        (rm.RecoveryCommitment != "" ==> mm["recoveryCommitment"] == any(rm.RecoveryCommitment))
//@   ensures [updateCommitment] ok ==> has(mm, "updateCommitment") == (rm.UpdateCommitment != "") &&
//@        (rm.UpdateCommitment != "" ==> mm["updateCommitment"] == any(rm.UpdateCommitment))
//@   ensures [anchorOrigin] ok ==> has(mm, "anchorOrigin") == (rm.AnchorOrigin != nil) && (rm.AnchorOrigin != nil ==> mm["anchorOrigin"] == rm.AnchorOrigin)
//@   ensures [deactivated] ok ==> has(ret, "deactivated") == rm.Deactivated && (rm.Deactivated ==> ret["deactivated"] == any(true))
//@   ensures [canonicalId] ok ==> has(ret, "canonicalId") == has(info, "canonicalId") && (has(info, "canonicalId") ==> ret["canonicalId"] == info["canonicalId"])
//@   ensures [equivalentId] ok ==> has(ret, "equivalentId") == has(info, "equivalentId") && (has(info, "equivalentId") ==> ret["equivalentId"] == info["equivalentId"])
//@   ensures [versionId] ok ==> has(ret, "versionId") == (rm.VersionID != "") && (rm.VersionID != "" ==> ret["versionId"] == any(rm.VersionID))
//@   ensures [created] ok ==> has(ret, "created") == info["published"].(bool) &&
//@        (info["published"].(bool) ==> ret["created"] == any(time.Unix(int64(rm.CreatedTime), 0).UTC().Format("2006-01-02T15:04:05Z07:00")))
//@   ensures [updated] ok ==> has(ret, "updated") == (rm.VersionID != "" && rm.UpdatedTime > 0) &&
//@        (rm.VersionID != "" && rm.UpdatedTime > 0 ==> ret["updated"] == any(time.Unix(int64(rm.UpdatedTime), 0).UTC().Format("2006-01-02T15:04:05Z07:00")))
//@   ensures [publishedOperations] ok ==> has(mm, "publishedOperations") == (t.includePublishedOperations && len(rm.PublishedOperations) > 0)
//@   ensures [unpublishedOperations] ok ==> has(mm, "unpublishedOperations") == (t.includeUnpublishedOperations && len(rm.UnpublishedOperations) > 0)
//@   ensures [only] ok ==> (forall k string :: has(ret, k) ==> k == "method" || k == "deactivated" || k == "canonicalId" || k == "equivalentId" || k == "created" || k == "versionId" || k == "updated")

// calling an option: it may only write the Metadata struct it is given (the two options of this
// package, verified below as function literals' owners, set one boolean field each)
//@ func (o Option) call(opts)
//@   modifies deref(opts)

// the constructor applies caller-supplied option closures to a struct of its own
//@ func New(opts) (md)
// a nil option is a programming error of the caller (calling it panics), not an input
//@   requires forall i int :: 0 <= i && i < len(opts) ==> opts[i] != nil
//@   modifies nothing
//@   ensures md != nil && fresh(md)
