//go:build verif

// Contracts for package patchvalidator (comment-only; read by /verif/govc).

package patchvalidator

// ---------------------------------------------------------------------------
// package-level tables: proved on the package initialiser, assumed in every function of the
// package; a scan shows no function other than the initialiser assigns or updates them.

//@ spec func isPurpose(p string) bool = p == "authentication" || p == "assertionMethod" || p == "keyAgreement" || p == "capabilityDelegation" || p == "capabilityInvocation"
//@ spec func verificationType(t string) bool = t == "Bls12381G2Key2020" || t == "JsonWebKey2020" || t == "EcdsaSecp256k1VerificationKey2019" || t == "Ed25519VerificationKey2018" || t == "Ed25519VerificationKey2020"
//@ spec func agreementType(t string) bool = t == "Bls12381G2Key2020" || t == "JsonWebKey2020" || t == "EcdsaSecp256k1VerificationKey2019" || t == "X25519KeyAgreementKey2019"
//@ spec func generalType(t string) bool = verificationType(t) || t == "X25519KeyAgreementKey2019"
// the documented key-type x purpose matrix
//@ spec func typeAllowedFor(purpose string, t string) bool = (purpose == "keyAgreement" && agreementType(t)) || (purpose != "keyAgreement" && isPurpose(purpose) && verificationType(t))

//@ global invariant [regex] asciiRegex == regexp.MustCompile("^[A-Za-z0-9_-]+$") && asciiRegex != nil
//@ global invariant [purposes] allowedPurposes != nil && len(allowedPurposes) == 5 &&
//@      keys(allowedPurposes) == setof(document.KeyPurpose("authentication"), document.KeyPurpose("assertionMethod"), document.KeyPurpose("keyAgreement"),
//@           document.KeyPurpose("capabilityDelegation"), document.KeyPurpose("capabilityInvocation"))
//@ global invariant [general] allowedKeyTypesGeneral != nil && keys(allowedKeyTypesGeneral) ==
//@      setof("Bls12381G2Key2020", "JsonWebKey2020", "EcdsaSecp256k1VerificationKey2019", "Ed25519VerificationKey2018", "Ed25519VerificationKey2020", "X25519KeyAgreementKey2019")
//@ global invariant [verification] allowedKeyTypesVerification != nil && keys(allowedKeyTypesVerification) ==
//@      setof("Bls12381G2Key2020", "JsonWebKey2020", "EcdsaSecp256k1VerificationKey2019", "Ed25519VerificationKey2018", "Ed25519VerificationKey2020")
//@ global invariant [agreement] allowedKeyTypesAgreement != nil && keys(allowedKeyTypesAgreement) ==
//@      setof("Bls12381G2Key2020", "JsonWebKey2020", "EcdsaSecp256k1VerificationKey2019", "X25519KeyAgreementKey2019")
//@ global invariant [matrix] allowedKeyTypes != nil &&
//@      keys(allowedKeyTypes) == setof("authentication", "assertionMethod", "keyAgreement", "capabilityDelegation", "capabilityInvocation") &&
//@      allowedKeyTypes["authentication"] == allowedKeyTypesVerification && allowedKeyTypes["assertionMethod"] == allowedKeyTypesVerification &&
//@      allowedKeyTypes["keyAgreement"] == allowedKeyTypesAgreement && allowedKeyTypes["capabilityDelegation"] == allowedKeyTypesVerification &&
//@      allowedKeyTypes["capabilityInvocation"] == allowedKeyTypesVerification

// ---------------------------------------------------------------------------
// ids, services

//@ func contains(values, value) (r)
//@   pure
//@   ensures [iff] r == (exists i int :: 0 <= i && i < len(values) && values[i] == value)
//@   loop 0 invariant forall j int :: 0 <= j && j < $k ==> values[j] != value

// the id rule: at most 50 characters, all of [A-Za-z0-9_-], at least one (by the pattern)
//@ spec func idOK(id string) bool = len(id) <= 50 && asciiRegex.MatchString(id)
//
//@ func validateID(id) (err)
//@   pure
//@   ensures [iff] (err == nil) == idOK(id)

//@ func validateIds(ids) (err)
//@   pure
//@   ensures [iff] (err == nil) == (forall i int :: 0 <= i && i < len(ids) ==> idOK(ids[i]))
//@   loop 0 invariant forall j int :: 0 <= j && j < $k ==> idOK(ids[j])

//@ func validateServiceID(id) (err)
//@   pure
//@   ensures [iff] (err == nil) == (id != "" && idOK(id))

//@ func validateServiceType(serviceType) (err)
//@   pure
//@   ensures [iff] (err == nil) == (serviceType != "" && len(serviceType) <= 30)

//@ spec func uriOK(uri string) bool = uri != "" && url.ParseRequestURI(uri).1 == nil
//
//@ func validateURI(uri) (err)
//@   pure
//@   ensures [iff] (err == nil) == uriOK(uri)

//@ func validateURIs(uris) (err)
//@   pure
//@   ensures [iff] (err == nil) == (forall i int :: 0 <= i && i < len(uris) ==> uriOK(uris[i]))
//@   loop 0 invariant forall j int :: 0 <= j && j < $k ==> uriOK(uris[j])

// every string entry of an endpoint list must be a valid URI
//@ func validateServiceEndpointObjects(objs) (err)
//@   pure
//@   ensures [all] (err == nil) == (forall i int :: 0 <= i && i < len(objs) && typeis(objs[i], string) ==> uriOK(objs[i].(string)))
//@   loop 0 invariant forall j int :: 0 <= j && j < $k && typeis(objs[j], string) ==> uriOK(objs[j].(string))

//@ spec func endpointOK(ep interface{}) bool = ep != nil &&
//@     (typeis(ep, string) ==> uriOK(ep.(string))) &&
//@     (typeis(ep, []string) ==> validateURIs(ep.([]string)) == nil) &&
//@     (typeis(ep, []interface{}) ==> validateServiceEndpointObjects(ep.([]interface{})) == nil)
//
//@ func validateServiceEndpoint(serviceEndpoint) (err)
//@   pure
//@   ensures [iff] (err == nil) == endpointOK(serviceEndpoint)

//@ spec func serviceOK(s document.Service) bool =
//@     document.strEntry(s, "id") != "" && idOK(document.strEntry(s, "id")) &&
//@     document.strEntry(s, "type") != "" && len(document.strEntry(s, "type")) <= 30 && endpointOK(s["serviceEndpoint"])
//
//@ func validateService(service) (err)
//@   pure
//@   ensures [iff] (err == nil) == serviceOK(service)

//@ func validateServices(services) (err)
//@   pure
//@   ensures [iff] (err == nil) == ((forall i int :: 0 <= i && i < len(services) ==> serviceOK(services[i])) &&
//@        (forall i int, j int :: 0 <= i && i < j && j < len(services) ==> document.strEntry(services[i], "id") != document.strEntry(services[j], "id")))
//@   loop 0 invariant forall j int :: 0 <= j && j < $k ==> serviceOK(services[j])
//@   loop 0 invariant forall a int, b int :: 0 <= a && a < b && b < $k ==> document.strEntry(services[a], "id") != document.strEntry(services[b], "id")
//@   loop 0 invariant forall s string :: has(ids, s) == (exists a int :: 0 <= a && a < $k && document.strEntry(services[a], "id") == s)
//@   loop 0 invariant ids != nil

// ---------------------------------------------------------------------------
// keys

//@ func validateJWK(jwk) (err)
//@   pure
//@   ensures [iff] (err == nil) == (jwk != nil && document.docJWKValid(jwk))

// purposes: absent, or non-empty, at most five, all known
//@ func validateKeyPurposes(pubKey) (err)
//@   pure
//@   let ps := document.StringArray(pubKey["purposes"])
//@   ensures [iff] (err == nil) == (!(has(pubKey, "purposes") && len(ps) == 0) && len(ps) <= 5 &&
//@        (forall i int :: 0 <= i && i < len(ps) ==> isPurpose(ps[i])))
//@   loop 0 invariant forall j int :: 0 <= j && j < $k ==> isPurpose(ps[j])

//@ func validateKeyTypePurpose(pubKey) (r)
//@   pure
//@   let ps := document.StringArray(pubKey["purposes"])
//@   let t := document.strEntry(pubKey, "type")
//@   ensures [matrix] r == ((len(ps) == 0 ==> generalType(t)) && (forall i int :: 0 <= i && i < len(ps) ==> typeAllowedFor(ps[i], t)))
//@   loop 0 invariant forall j int :: 0 <= j && j < $k ==> typeAllowedFor(ps[j], t)

//@ func getRequiredArray(entry) (arr, err)
//@   pure
//@   ensures [iff] (err == nil) == (typeis(entry, []interface{}) && len(entry.([]interface{})) > 0)
//@   ensures [value] err == nil ==> arr == entry.([]interface{})

//@ func getRequiredMap(entry) (required, err)
//@   pure
//@   ensures [iff] (err == nil) == typeis(entry, map[string]interface{})
//@   ensures [value] err == nil ==> required == entry.(map[string]interface{})

// ---------------------------------------------------------------------------
// public keys

// the member rule of a key object: type and id present, exactly one of publicKeyJwk /
// publicKeyBase58, nothing else except purposes. The function builds its tables from slice
// literals and walks them with nested loops; every loop carries an invariant below.
//@ spec func propsOK(pk document.PublicKey) bool =
//@     has(pk, "type") && has(pk, "id") && (has(pk, "publicKeyJwk") != has(pk, "publicKeyBase58")) &&
//@     (forall k string :: has(pk, k) ==> k == "type" || k == "id" || k == "purposes" || k == "publicKeyJwk" || k == "publicKeyBase58")
//
// the tables the function builds from slice literals, as the loops see them
//@ spec func reqTable(l []string) bool = len(l) == 2 && l[0] == "type" && l[1] == "id"
//@ spec func groupTable(g [][]string) bool = len(g) == 1 && len(g[0]) == 2 && g[0][0] == "publicKeyJwk" && g[0][1] == "publicKeyBase58"
//@ spec func allowedTable(l []string) bool = len(l) == 5 && l[0] == "type" && l[1] == "id" && l[2] == "purposes" && l[3] == "publicKeyJwk" && l[4] == "publicKeyBase58"
//
//@ func validatePublicKeyProperties(pubKey) (err)
//@   pure
//@   ensures [iff] (err == nil) == propsOK(pubKey)
// loop 0: the allowed-member table is completed from the one-of group
//@   loop 0 invariant [tables] $k <= 1 && reqTable(requiredKeys) && groupTable(oneOfNKeys) && !sameArray(allowedKeys, requiredKeys) && !sameArray(allowedKeys, oneOfNKeys[0]) &&
//@        len(allowedKeys) == 3 + 2 * $k && allowedKeys[0] == "type" && allowedKeys[1] == "id" && allowedKeys[2] == "purposes" &&
//@        ($k == 1 ==> allowedKeys[3] == "publicKeyJwk" && allowedKeys[4] == "publicKeyBase58")
// loop 1: required members seen so far are present
//@   loop 1 invariant [required] $k <= 2 && reqTable(requiredKeys) && groupTable(oneOfNKeys) && allowedTable(allowedKeys) &&
//@        ($k >= 1 ==> has(pubKey, "type")) && ($k >= 2 ==> has(pubKey, "id"))
// loop 2 / 3: exactly one member of the group
//@   loop 2 invariant [group] $k <= 1 && groupTable(oneOfNKeys) && allowedTable(allowedKeys) && has(pubKey, "type") && has(pubKey, "id") &&
//@        ($k == 1 ==> has(pubKey, "publicKeyJwk") != has(pubKey, "publicKeyBase58"))
//@   loop 3 invariant [one] $k <= 2 && groupTable(oneOfNKeys) && allowedTable(allowedKeys) && has(pubKey, "type") && has(pubKey, "id") && sameArray(keyGroup, oneOfNKeys[0]) && len(keyGroup) == 2 &&
//@        ($k == 0 ==> !satisfied) && ($k == 1 ==> satisfied == has(pubKey, "publicKeyJwk")) &&
//@        ($k == 2 ==> satisfied == (has(pubKey, "publicKeyJwk") != has(pubKey, "publicKeyBase58")) && !(has(pubKey, "publicKeyJwk") && has(pubKey, "publicKeyBase58")))
// loop 4: every member seen so far is an allowed one
//@   loop 4 invariant [allowed] allowedTable(allowedKeys) && has(pubKey, "type") && has(pubKey, "id") && (has(pubKey, "publicKeyJwk") != has(pubKey, "publicKeyBase58")) &&
//@        (forall k string :: visited(k) ==> k == "type" || k == "id" || k == "purposes" || k == "publicKeyJwk" || k == "publicKeyBase58")

//@ spec func jwkOf(pk document.PublicKey) document.JWK =
//@     ite(typeis(pk["publicKeyJwk"], map[string]interface{}), document.JWK(pk["publicKeyJwk"].(map[string]interface{})), zeroOf(0, document.JWK))
// usable key material: a well-formed JWK, or base58 material for a type other than JsonWebKey2020
//@ spec func materialOK(pk document.PublicKey) bool =
//@     (jwkOf(pk) != nil && document.docJWKValid(jwkOf(pk))) ||
//@     (document.strEntry(pk, "publicKeyBase58") != "" && document.strEntry(pk, "type") != "JsonWebKey2020")
//@ spec func keyOK(pk document.PublicKey) bool =
//@     validatePublicKeyProperties(pk) == nil && idOK(document.strEntry(pk, "id")) && validateKeyPurposes(pk) == nil &&
//@     validateKeyTypePurpose(pk) && materialOK(pk)
//
//@ func validatePublicKeys(pubKeys) (err)
//@   pure
//@   ensures [accepts-only-valid] err == nil ==> (forall i int :: 0 <= i && i < len(pubKeys) ==> keyOK(pubKeys[i]))
//@   ensures [accepts-only-distinct] err == nil ==> (forall i int, j int :: 0 <= i && i < j && j < len(pubKeys) ==> document.strEntry(pubKeys[i], "id") != document.strEntry(pubKeys[j], "id"))
//@   ensures [refuses-only-invalid] err != nil ==> !((forall i int :: 0 <= i && i < len(pubKeys) ==> keyOK(pubKeys[i])) &&
//@        (forall i int, j int :: 0 <= i && i < j && j < len(pubKeys) ==> document.strEntry(pubKeys[i], "id") != document.strEntry(pubKeys[j], "id")))
//@   loop 0 invariant [all] forall j int :: 0 <= j && j < $k ==> keyOK(pubKeys[j])
//@   loop 0 invariant [distinct] forall a int, b int :: 0 <= a && a < b && b < $k ==> document.strEntry(pubKeys[a], "id") != document.strEntry(pubKeys[b], "id")
//@   loop 0 invariant [ids] forall s string :: has(ids, s) == (exists a int :: 0 <= a && a < $k && document.strEntry(pubKeys[a], "id") == s)
//@   loop 0 invariant [nonnil] ids != nil

// ---------------------------------------------------------------------------
// also-known-as

//@ func validate(uris) (err)
//@   pure
//@   ensures [iff] (err == nil) == ((forall i int :: 0 <= i && i < len(uris) ==> url.Parse(uris[i]).1 == nil) &&
//@        (forall i int, j int :: 0 <= i && i < j && j < len(uris) ==> url.Parse(uris[i]).0.String() != url.Parse(uris[j]).0.String()))
//@   loop 0 invariant [all] forall j int :: 0 <= j && j < $k ==> url.Parse(uris[j]).1 == nil
//@   loop 0 invariant [distinct] forall a int, b int :: 0 <= a && a < b && b < $k ==> url.Parse(uris[a]).0.String() != url.Parse(uris[b]).0.String()
//@   loop 0 invariant [ids] forall s string :: has(ids, s) == (exists a int :: 0 <= a && a < $k && url.Parse(uris[a]).0.String() == s)
//@   loop 0 invariant [nonnil] ids != nil

// ---------------------------------------------------------------------------
// per-action validators (the validator objects are stateless)

//@ func NewReplaceValidator() (v)
//@   pure
//@ func NewJSONValidator() (v)
//@   pure
//@ func NewAddPublicKeysValidator() (v)
//@   pure
//@ func NewRemovePublicKeysValidator() (v)
//@   pure
//@ func NewAddServicesValidator() (v)
//@   pure
//@ func NewRemoveServicesValidator() (v)
//@   pure
//@ func NewAlsoKnownAsValidator() (v)
//@   pure

//@ func (v *AddPublicKeysValidator) Validate(p) (err)
//@   pure
//@   let value, verr := p.GetValue()
//@   ensures [iff] (err == nil) == (verr == nil && typeis(value, []interface{}) && len(value.([]interface{})) > 0 && validatePublicKeys(document.ParsePublicKeys(value)) == nil)

//@ func (v *RemovePublicKeysValidator) Validate(p) (err)
//@   pure
//@   let value, verr := p.GetValue()
//@   ensures [iff] (err == nil) == (verr == nil && typeis(value, []interface{}) && len(value.([]interface{})) > 0 && validateIds(document.StringArray(value)) == nil)

//@ func (v *AddServicesValidator) Validate(p) (err)
//@   pure
//@   let value, verr := p.GetValue()
//@   ensures [iff] (err == nil) == (verr == nil && typeis(value, []interface{}) && len(value.([]interface{})) > 0 && validateServices(document.ParseServices(value)) == nil)

//@ func (v *RemoveServicesValidator) Validate(p) (err)
//@   pure
//@   let value, verr := p.GetValue()
//@   ensures [iff] (err == nil) == (verr == nil && typeis(value, []interface{}) && len(value.([]interface{})) > 0 && validateIds(document.StringArray(value)) == nil)

//@ func (v *AlsoKnownAsValidator) Validate(p) (err)
//@   pure
//@   let action, aerr := p.GetAction()
//@   let value, verr := p.GetValue()
//@   ensures [iff] (err == nil) == (aerr == nil && verr == nil && typeis(value, []interface{}) && len(value.([]interface{})) > 0 && validate(document.StringArray(value)) == nil)

// a replace document has only publicKeys / services members, both valid by the same rules
//@ func (v *ReplaceValidator) Validate(p) (err)
//@   pure
//@   let value, verr := p.GetValue()
//@   let m := value.(map[string]interface{})
//@   ensures [iff] (err == nil) == (verr == nil && typeis(value, map[string]interface{}) &&
//@        (forall k string :: has(m, k) ==> k == "services" || k == "publicKeys") &&
//@        validatePublicKeys(document.ParsePublicKeys(m["publicKeys"])) == nil && validateServices(document.ParseServices(m["services"])) == nil)
//@   loop 0 invariant forall k string :: visited(k) ==> k == "services" || k == "publicKeys"

// ---------------------------------------------------------------------------
// dispatch: each action goes to its own validator; nothing else is accepted
//@ func Validate(p) (err)
//@   pure
//@   let action, aerr := p.GetAction()
//@   ensures [action] aerr != nil ==> err != nil
//@   ensures [replace] aerr == nil && action == patch.Replace ==> err == NewReplaceValidator().Validate(p)
//@   ensures [json] aerr == nil && action == patch.JSONPatch ==> err == NewJSONValidator().Validate(p)
//@   ensures [addkeys] aerr == nil && action == patch.AddPublicKeys ==> err == NewAddPublicKeysValidator().Validate(p)
//@   ensures [removekeys] aerr == nil && action == patch.RemovePublicKeys ==> err == NewRemovePublicKeysValidator().Validate(p)
//@   ensures [addservices] aerr == nil && action == patch.AddServiceEndpoints ==> err == NewAddServicesValidator().Validate(p)
//@   ensures [removeservices] aerr == nil && action == patch.RemoveServiceEndpoints ==> err == NewRemoveServicesValidator().Validate(p)
//@   ensures [aka] aerr == nil && (action == patch.AddAlsoKnownAs || action == patch.RemoveAlsoKnownAs) ==> err == NewAlsoKnownAsValidator().Validate(p)
//@   ensures [other] aerr == nil && action != patch.Replace && action != patch.JSONPatch && action != patch.AddPublicKeys && action != patch.RemovePublicKeys &&
//@        action != patch.AddServiceEndpoints && action != patch.RemoveServiceEndpoints && action != patch.AddAlsoKnownAs && action != patch.RemoveAlsoKnownAs ==> err != nil


// ---------------------------------------------------------------------------
// C11: ietf-json-patch. A pointer is acceptable when it is empty or starts with '/', and does not
// start with /service or /publicKey. (That such a pointer cannot address the publicKey / service
// members for the patch library is lemma C11_pointer, posed in the solver's string theory.)
//@ spec func pointerOK(p string) bool = (p == "" || hasPrefix(p, "/")) && !hasPrefix(p, "/service") && !hasPrefix(p, "/publicKey")
//
//@ func validateJSONPointer(pointer) (err)
//@   pure
//@   ensures [iff] (err == nil) == pointerOK(pointer)

// the reference tokens of a pointer as the patch library reads them (escapes resolved, numeric tokens in
// one spelling): a function of the pointer text; that it matches the library's reading is exercised by the
// bounded runs (c11_apply, c19_fuzz), not proved
//@ func pointerTokens(pointer) (tokens)
//@   pure
//@   modifies nothing
//@   ensures [own] tokens == nil || fresh(tokens)
//
// proper prefix on token lists: shorter, and equal token by token
//@ func isProperPrefix(prefix, tokens) (r)
//@   pure
//@   ensures [iff] r == (len(prefix) < len(tokens) && (forall i int :: 0 <= i && i < len(prefix) ==> tokens[i] == prefix[i]))
//@   loop 0 invariant [same] forall i int :: 0 <= i && i < $k ==> tokens[i] == prefix[i]

// what the validator demands of one RFC 6902 operation: a string `path` that is acceptable, and,
// when a non-null `from` member is present, a string `from` that is acceptable as well and does not
// name a proper ancestor of `path` (copying or moving a location into its own child builds a cycle)
//@ spec func opPointersOK(op map[string]*json.RawMessage) bool =
//@     has(op, "path") && op["path"] != nil && jsonDecodeErr(string(deref(op["path"])), string) == nil && pointerOK(jsonDecode(string(deref(op["path"])), string)) &&
//@     (has(op, "from") && op["from"] != nil ==> jsonDecodeErr(string(deref(op["from"])), string) == nil && pointerOK(jsonDecode(string(deref(op["from"])), string)) &&
//@        !isProperPrefix(pointerTokens(jsonDecode(string(deref(op["from"])), string)), pointerTokens(jsonDecode(string(deref(op["path"])), string))))
//
//@ func validateJSONPatches(patches) (err)
//@   pure
//@   let ops, derr := jsonpatch.DecodePatch(patches)
//@   ensures [decode] derr != nil ==> err != nil
//@   ensures [pointers] err == nil ==> (forall i int :: 0 <= i && i < len(ops) ==> opPointersOK(ops[i]))
//@   ensures [complete] derr == nil && (forall i int :: 0 <= i && i < len(ops) ==> opPointersOK(ops[i])) ==> err == nil
//@   loop 0 invariant [seen] forall j int :: 0 <= j && j < $k ==> opPointersOK(jsonPatches[j])

//@ func (v *JSONValidator) Validate(p) (err)
//@   pure
//@   let value, verr := p.GetValue()
//@   ensures [iff] (err == nil) == (verr == nil && typeis(value, []interface{}) && len(value.([]interface{})) > 0 &&
//@        json.Marshal(value.([]interface{})).1 == nil && validateJSONPatches(json.Marshal(value.([]interface{})).0) == nil)
