//go:build verif

// Contracts for package patchvalidator (comment-only; read by /verif/govc).

package patchvalidator

// ---------------------------------------------------------------------------
// package-level tables: proved on the package initialiser, assumed in every function of the
// package; a scan shows no function other than the initialiser assigns or updates them.

//@ spec func isPurpose(p string) bool = p == "authentication" || p == "assertionMethod" || p == "keyAgreement" || p == "capabilityDelegation" || p == "capabilityInvocation"
//@ spec func verificationType(t string) bool = t == "Bls12381G2Key2020" || t == "JsonWebKey2020" || t == "EcdsaSecp256k1VerificationKey2019" || t == "Ed25519VerificationKey2018" || t == "Ed25519VerificationKey2020"
//@ spec func agreementType(t string) bool = t == "Bls12381G2Key2020" || t == "JsonWebKey2020" || t == "EcdsaSecp256k1VerificationKey2019" || t == "X25519KeyAgreementKey2019"
//@ spec func generalType(t string) bool = verificationType(t) || t == "X25519KeyAgreementKey2019"
// the documented key-type x purpose matrix
//@ spec func typeAllowedFor(purpose string, t string) bool = (purpose == "keyAgreement" && agreementType(t)) || (purpose != "keyAgreement" && isPurpose(purpose) && verificationType(t))

//@ global invariant [regex] asciiRegex == regexp.MustCompile("^[A-Za-z0-9_-]+$") && asciiRegex != nil
//@ global invariant [purposes] allowedPurposes != nil && len(allowedPurposes) == 5 &&
//@      keys(allowedPurposes) == setof(document.KeyPurpose("authentication"), document.KeyPurpose("assertionMethod"), document.KeyPurpose("keyAgreement"),
//@           document.KeyPurpose("capabilityDelegation"), document.KeyPurpose("capabilityInvocation"))
//@ global invariant [general] allowedKeyTypesGeneral != nil && keys(allowedKeyTypesGeneral) ==
//@      setof("Bls12381G2Key2020", "JsonWebKey2020", "EcdsaSecp256k1VerificationKey2019", "Ed25519VerificationKey2018", "Ed25519VerificationKey2020", "X25519KeyAgreementKey2019")
//@ global invariant [verification] allowedKeyTypesVerification != nil && keys(allowedKeyTypesVerification) ==
//@      setof("Bls12381G2Key2020", "JsonWebKey2020", "EcdsaSecp256k1VerificationKey2019", "Ed25519VerificationKey2018", "Ed25519VerificationKey2020")
//@ global invariant [agreement] allowedKeyTypesAgreement != nil && keys(allowedKeyTypesAgreement) ==
//@      setof("Bls12381G2Key2020", "JsonWebKey2020", "EcdsaSecp256k1VerificationKey2019", "X25519KeyAgreementKey2019")
//@ global invariant [matrix] allowedKeyTypes != nil &&
//@      keys(allowedKeyTypes) == setof("authentication", "assertionMethod", "keyAgreement", "capabilityDelegation", "capabilityInvocation") &&
//@      allowedKeyTypes["authentication"] == allowedKeyTypesVerification && allowedKeyTypes["assertionMethod"] == allowedKeyTypesVerification &&
//@      allowedKeyTypes["keyAgreement"] == allowedKeyTypesAgreement && allowedKeyTypes["capabilityDelegation"] == allowedKeyTypesVerification &&
//@      allowedKeyTypes["capabilityInvocation"] == allowedKeyTypesVerification

// ---------------------------------------------------------------------------
// ids, services

//@ func contains(values, value) (r)
//@   pure
//@   ensures [iff] r == (exists i int :: 0 <= i && i < len(values) && values[i] == value)
//@   loop 0 invariant forall j int :: 0 <= j && j < $k ==> values[j] != value

// the id rule: at most 50 characters, all of [A-Za-z0-9_-], at least one (by the pattern)
//@ spec func idOK(id string) bool = len(id) <= 50 && asciiRegex.MatchString(id)
//
//@ func validateID(id) (err)
//@   pure
//@   ensures [iff] (err == nil) == idOK(id)

//@ func validateIds(ids) (err)
//@   pure
//@   ensures [iff] (err == nil) == (forall i int :: 0 <= i && i < len(ids) ==> idOK(ids[i]))
//@   loop 0 invariant forall j int :: 0 <= j && j < $k ==> idOK(ids[j])

//@ func validateServiceID(id) (err)
//@   pure
//@   ensures [iff] (err == nil) == (id != "" && idOK(id))

//@ func validateServiceType(serviceType) (err)
//@   pure
//@   ensures [iff] (err == nil) == (serviceType != "" && len(serviceType) <= 30)

//@ spec func uriOK(uri string) bool = uri != "" && url.ParseRequestURI(uri).1 == nil
//
//@ func validateURI(uri) (err)
//@   pure
//@   ensures [iff] (err == nil) == uriOK(uri)

//@ func validateURIs(uris) (err)
//@   pure
//@   ensures [iff] (err == nil) == (forall i int :: 0 <= i && i < len(uris) ==> uriOK(uris[i]))
//@   loop 0 invariant forall j int :: 0 <= j && j < $k ==> uriOK(uris[j])

// every string entry of an endpoint list must be a valid URI
//@ func validateServiceEndpointObjects(objs) (err)
//@   pure
//@   ensures [all] (err == nil) == (forall i int :: 0 <= i && i < len(objs) && typeis(objs[i], string) ==> uriOK(objs[i].(string)))
//@   loop 0 invariant forall j int :: 0 <= j && j < $k && typeis(objs[j], string) ==> uriOK(objs[j].(string))

//@ spec func endpointOK(ep interface{}) bool = ep != nil &&
//@     (typeis(ep, string) ==> uriOK(ep.(string))) &&
//@     (typeis(ep, []string) ==> validateURIs(ep.([]string)) == nil) &&
//@     (typeis(ep, []interface{}) ==> validateServiceEndpointObjects(ep.([]interface{})) == nil)
//
//@ func validateServiceEndpoint(serviceEndpoint) (err)
//@   pure
//@   ensures [iff] (err == nil) == endpointOK(serviceEndpoint)

//@ spec func serviceOK(s document.Service) bool =
//@     document.strEntry(s, "id") != "" && idOK(document.strEntry(s, "id")) &&
//@     document.strEntry(s, "type") != "" && len(document.strEntry(s, "type")) <= 30 && endpointOK(s["serviceEndpoint"])
//
//@ func validateService(service) (err)
//@   pure
//@   ensures [iff] (err == nil) == serviceOK(service)

//@ func validateServices(services) (err)
//@   pure
//@   ensures [iff] (err == nil) == ((forall i int :: 0 <= i && i < len(services) ==> serviceOK(services[i])) &&
//@        (forall i int, j int :: 0 <= i && i < j && j < len(services) ==> document.strEntry(services[i], "id") != document.strEntry(services[j], "id")))
//@   loop 0 invariant forall j int :: 0 <= j && j < $k ==> serviceOK(services[j])
//@   loop 0 invariant forall a int, b int :: 0 <= a && a < b && b < $k ==> document.strEntry(services[a], "id") != document.strEntry(services[b], "id")
//@   loop 0 invariant forall s string :: has(ids, s) == (exists a int :: 0 <= a && a < $k && document.strEntry(services[a], "id") == s)
//@   loop 0 invariant ids != nil

// ---------------------------------------------------------------------------
// keys

//@ func validateJWK(jwk) (err)
//@   pure
//@   ensures [iff] (err == nil) == (jwk != nil && document.docJWKValid(jwk))

// purposes: absent, or non-empty, at most five, all known
//@ func validateKeyPurposes(pubKey) (err)
//@   pure
//@   let ps := document.StringArray(pubKey["purposes"])
//@   ensures [iff] (err == nil) == (!(has(pubKey, "purposes") && len(ps) == 0) && len(ps) <= 5 &&
//@        (forall i int :: 0 <= i && i < len(ps) ==> isPurpose(ps[i])))
//@   loop 0 invariant forall j int :: 0 <= j && j < $k ==> isPurpose(ps[j])

//@ func validateKeyTypePurpose(pubKey) (r)
//@   pure
//@   let ps := document.StringArray(pubKey["purposes"])
//@   let t := document.strEntry(pubKey, "type")
//@   ensures [matrix] r == ((len(ps) == 0 ==> generalType(t)) && (forall i int :: 0 <= i && i < len(ps) ==> typeAllowedFor(ps[i], t)))
//@   loop 0 invariant forall j int :: 0 <= j && j < $k ==> typeAllowedFor(ps[j], t)

//@ func getRequiredArray(entry) (arr, err)
//@   pure
//@   ensures [iff] (err == nil) == (typeis(entry, []interface{}) && len(entry.([]interface{})) > 0)
//@   ensures [value] err == nil ==> arr == entry.([]interface{})

//@ func getRequiredMap(entry) (required, err)
//@   pure
//@   ensures [iff] (err == nil) == typeis(entry, map[string]interface{})
//@   ensures [value] err == nil ==> required == entry.(map[string]interface{})

// ---------------------------------------------------------------------------
// dispatch
//@ func Validate(p) (err)
//@   pure
