//go:build verif

// Contracts for package patchvalidator (comment-only; read by /verif/govc).

package patchvalidator

//@ func Validate(p) (err)
//@   pure
