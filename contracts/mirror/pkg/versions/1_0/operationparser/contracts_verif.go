//go:build verif

// Contracts for package operationparser (comment-only; read by /verif/govc).

package operationparser

// ---------------------------------------------------------------------------
// helpers

//@ func contains(values, value) (r)
//@   pure
//@   ensures [iff] r == (exists i int :: 0 <= i && i < len(values) && values[i] == value)
//@   loop 0 invariant forall j int :: 0 <= j && j < $k ==> values[j] != value

//@ spec func hashOK(p *Parser, mh string) bool =
//@     len(mh) <= int(p.MaxOperationHashLength) && hashing.IsComputedUsingMultihashAlgorithms(mh, p.MultihashAlgorithms)
//
//@ func (p *Parser) validateMultihash(mh, alias) (err)
//@   pure
//@   requires p != nil
//@   ensures [iff] (err == nil) == hashOK(p, mh)

//@ func (p *Parser) validateNonce(nonce) (err)
//@   pure
//@   requires p != nil
//@   ensures [iff] (err == nil) == (nonce == "" || (encoder.DecodeString(nonce).err == nil && len(encoder.DecodeString(nonce).ret) == int(p.NonceSize)))

//@ func (p *Parser) validateSigningKey(key) (err)
//@   pure
//@   requires p != nil
//@   ensures [iff] (err == nil) == (key != nil && key.Validate() == nil && contains(p.KeyAlgorithms, key.Crv) && p.validateNonce(key.Nonce) == nil)
//@   ensures [nonnil] err == nil ==> key != nil

//@ func (p *Parser) getAnchorUntil(from, until) (r)
//@   pure
//@   requires p != nil
//@   ensures [effUntil] r == ite(from != 0 && until == 0, from + int64(p.MaxOperationTimeDelta), until)

// injected validators (interface contracts: deterministic)
//@ func (v ObjectValidator) Validate(obj) (err)
//@   pure
//@ func (v TimeValidator) Validate(from, until) (err)
//@   pure

//@ spec func headersOK(headers jws.Headers, allowed []string) bool =
//@     headers != nil && typeis(headers["alg"], string) && has(headers, "alg") && headers["alg"].(string) != "" &&
//@     (forall k string :: has(headers, k) ==> k == "alg" || k == "kid") && contains(allowed, headers["alg"].(string))
//
//@ func (p *Parser) validateProtectedHeaders(headers, allowedAlgorithms) (err)
//@   pure
//@   ensures [iff] (err == nil) == headersOK(headers, allowedAlgorithms)
//@   loop 0 invariant forall k string :: visited(k) ==> k == "alg" || k == "kid"

//@ func (p *Parser) validateCommitment(jwk, nextCommitment) (err)
//@   pure
//@   let code, cerr := hashing.GetMultihashCode(nextCommitment)
//@   let cur, gerr := commitment.GetCommitment(jwk, uint(code))
//@   ensures [iff] (err == nil) == (cerr == nil && gerr == nil && cur != nextCommitment)

//@ func (p *Parser) parseSignedData(compactJWS) (sig, err)
//@   pure
//@   requires p != nil
//@   let j, jerr := jwsutil.ParseJWS(compactJWS)
//@   ensures [iff] (err == nil) == (compactJWS != "" && jerr == nil && headersOK(j.ProtectedHeaders, p.SignatureAlgorithms))
//@   ensures [value] err == nil ==> sig == j && sig != nil

// ---------------------------------------------------------------------------
// well-formed parser object (what New establishes): non-nil injected validators
//@ spec func wfParser(p *Parser) bool = p != nil && p.anchorOriginValidator != nil && p.anchorTimeValidator != nil

//@ spec func effUntil(from int64, until int64, delta uint64) int64 = ite(from != 0 && until == 0, from + int64(delta), until)

// ---------------------------------------------------------------------------
// delta and suffix data

//@ func (p *Parser) isPatchEnabled(action) (r)
//@   pure
//@   requires p != nil
//@   ensures [iff] r == (exists i int :: 0 <= i && i < len(p.Patches) && patch.Action(p.Patches[i]) == action)
//@   loop 0 invariant forall j int :: 0 <= j && j < $k ==> patch.Action(p.Patches[j]) != action

//@ func (p *Parser) validateDeltaSize(delta) (err)
//@   pure
//@   requires p != nil
//@   let cd, cerr := canonicalizer.MarshalCanonical(delta)
//@   ensures [iff] (err == nil) == (cerr == nil && len(cd) <= int(p.MaxDeltaSize))

//@ spec func patchOK(p *Parser, pt patch.Patch) bool =
//@     pt.GetAction().err == nil && p.isPatchEnabled(pt.GetAction().action) && patchvalidator.Validate(pt) == nil
//
//@ func (p *Parser) ValidateDelta(delta) (err)
//@   pure
//@   requires p != nil
//@   ensures [iff] (err == nil) == (delta != nil && len(delta.Patches) > 0 &&
//@        (forall i int :: 0 <= i && i < len(delta.Patches) ==> patchOK(p, delta.Patches[i])) &&
//@        hashOK(p, delta.UpdateCommitment) && p.validateDeltaSize(delta) == nil)
//@   ensures [nonnil] err == nil ==> delta != nil
//@   loop 0 invariant forall j int :: 0 <= j && j < $k ==> patchOK(p, delta.Patches[j])

//@ func (p *Parser) ValidateSuffixData(suffixData) (err)
//@   pure
//@   requires p != nil
//@   ensures [iff] (err == nil) == (suffixData != nil && hashOK(p, suffixData.RecoveryCommitment) && hashOK(p, suffixData.DeltaHash))
//@   ensures [nonnil] err == nil ==> suffixData != nil

// ---------------------------------------------------------------------------
// signed data

//@ func (p *Parser) ParseSignedDataForUpdate(compactJWS) (sd, err)
//@   pure
//@   requires p != nil
//@   modifies nothing
//@   let j, jerr := p.parseSignedData(compactJWS)
//@   let dec := jsonDecode(string(j.Payload), model.UpdateSignedDataModel)
//@   let derr := jsonDecodeErr(string(j.Payload), model.UpdateSignedDataModel)
//@   letpost keyOK := p.validateSigningKey(dec.UpdateKey) == nil
//@   letpost dhOK := hashOK(p, dec.DeltaHash)
//@   ensures [iff] (err == nil) == (jerr == nil && derr == nil && keyOK && dhOK)
//@   ensures [value] err == nil ==> sd != nil && deref(sd) == dec
//@   ensures [nonnil] err == nil ==> sd != nil
//@   ensures [key] err == nil ==> sd.UpdateKey != nil

//@ func (p *Parser) ParseSignedDataForRecover(compactJWS) (sd, err)
//@   pure
//@   requires p != nil
//@   modifies nothing
//@   let j, jerr := p.parseSignedData(compactJWS)
//@   let dec := jsonDecode(string(j.Payload), model.RecoverSignedDataModel)
//@   let derr := jsonDecodeErr(string(j.Payload), model.RecoverSignedDataModel)
//@   letpost keyOK := p.validateSigningKey(dec.RecoveryKey) == nil
//@   letpost hashesOK := hashOK(p, dec.RecoveryCommitment) && hashOK(p, dec.DeltaHash)
//@   letpost commitOK := p.validateCommitment(dec.RecoveryKey, dec.RecoveryCommitment) == nil
//@   ensures [iff] (err == nil) == (jerr == nil && derr == nil && keyOK && hashesOK && commitOK)
//@   ensures [value] err == nil ==> sd != nil && deref(sd) == dec
//@   ensures [nonnil] err == nil ==> sd != nil
//@   ensures [key] err == nil ==> sd.RecoveryKey != nil

//@ func (p *Parser) ParseSignedDataForDeactivate(compactJWS) (sd, err)
//@   pure
//@   requires p != nil
//@   modifies nothing
//@   let j, jerr := p.parseSignedData(compactJWS)
//@   let dec := jsonDecode(string(j.Payload), model.DeactivateSignedDataModel)
//@   let derr := jsonDecodeErr(string(j.Payload), model.DeactivateSignedDataModel)
//@   letpost keyOK := p.validateSigningKey(dec.RecoveryKey) == nil
//@   ensures [iff] (err == nil) == (jerr == nil && derr == nil && keyOK)
//@   ensures [value] err == nil ==> sd != nil && deref(sd) == dec
//@   ensures [nonnil] err == nil ==> sd != nil
//@   ensures [key] err == nil ==> sd.RecoveryKey != nil

// ---------------------------------------------------------------------------
// requests

//@ func (p *Parser) parseCreateRequest(payload) (ret, err)
//@   pure
//@   modifies nothing
//@   ensures [iff] (err == nil) == (jsonDecodeErr(string(payload), model.CreateRequest) == nil)
//@   ensures [value] err == nil ==> ret != nil && deref(ret) == jsonDecode(string(payload), model.CreateRequest)

//@ func (p *Parser) parseUpdateRequest(payload) (ret, err)
//@   pure
//@   requires p != nil
//@   modifies nothing
//@   let dec := jsonDecode(string(payload), model.UpdateRequest)
//@   letpost rvOK := hashOK(p, dec.RevealValue)
//@   ensures [iff] (err == nil) == (jsonDecodeErr(string(payload), model.UpdateRequest) == nil && dec.DidSuffix != "" && dec.SignedData != "" && rvOK)
//@   ensures [value] err == nil ==> ret != nil && deref(ret) == dec

//@ func (p *Parser) parseRecoverRequest(payload) (ret, err)
//@   pure
//@   requires p != nil
//@   modifies nothing
//@   let dec := jsonDecode(string(payload), model.RecoverRequest)
//@   letpost rvOK := hashOK(p, dec.RevealValue)
//@   ensures [iff] (err == nil) == (jsonDecodeErr(string(payload), model.RecoverRequest) == nil && dec.DidSuffix != "" && dec.SignedData != "" && rvOK)
//@   ensures [value] err == nil ==> ret != nil && deref(ret) == dec

//@ func (p *Parser) parseDeactivateRequest(payload) (ret, err)
//@   pure
//@   requires p != nil
//@   modifies nothing
//@   let dec := jsonDecode(string(payload), model.DeactivateRequest)
//@   letpost rvOK := hashOK(p, dec.RevealValue)
//@   ensures [iff] (err == nil) == (jsonDecodeErr(string(payload), model.DeactivateRequest) == nil && dec.DidSuffix != "" && dec.SignedData != "" && rvOK)
//@   ensures [value] err == nil ==> ret != nil && deref(ret) == dec

// ---------------------------------------------------------------------------
// operations (C07: accepted iff the rules hold; C02: reveal value binds the signing key;
// C03: suffix and delta binding; C09: the window handed to the time validator)

//@ func (p *Parser) ParseCreateOperation(request, batch) (op, err)
//@   pure
//@   requires wfParser(p)
//@   modifies nothing
//@   let req := jsonDecode(string(request), model.CreateRequest)
//@   let rerr := jsonDecodeErr(string(request), model.CreateRequest)
//@   letpost sdOK := p.ValidateSuffixData(req.SuffixData) == nil
//@   letpost liveOK := p.anchorOriginValidator.Validate(req.SuffixData.AnchorOrigin) == nil && p.ValidateDelta(req.Delta) == nil &&
//@        hashing.IsValidModelMultihash(req.Delta, req.SuffixData.DeltaHash) == nil && req.Delta.UpdateCommitment != req.SuffixData.RecoveryCommitment
//@   letpost suffix, serr := model.GetUniqueSuffix(req.SuffixData, p.MultihashAlgorithms)
//@   ensures [iff] (err == nil) == (rerr == nil && sdOK && (batch || liveOK) && serr == nil)
//@   ensures [result] err == nil ==> op != nil && op.Type == operation.TypeCreate && op.UniqueSuffix == suffix && op.Delta == req.Delta &&
//@        op.SuffixData == req.SuffixData && op.AnchorOrigin == req.SuffixData.AnchorOrigin && op.OperationRequest == request
//@   ensures [delta-bound] err == nil && !batch ==> hashing.IsValidModelMultihash(req.Delta, req.SuffixData.DeltaHash) == nil
//@   ensures [nonnil] err == nil ==> op != nil && op.SuffixData != nil
//@   ensures [fresh] err == nil ==> fresh(op)

//@ func (p *Parser) ParseUpdateOperation(request, batch) (op, err)
//@   pure
//@   requires wfParser(p)
//@   modifies nothing
//@   let req := jsonDecode(string(request), model.UpdateRequest)
//@   let rerr := jsonDecodeErr(string(request), model.UpdateRequest)
//@   letpost reqOK := rerr == nil && req.DidSuffix != "" && req.SignedData != "" && hashOK(p, req.RevealValue)
//@   letpost sd, sderr := p.ParseSignedDataForUpdate(req.SignedData)
//@   letpost revealOK := hashing.IsValidModelMultihash(sd.UpdateKey, req.RevealValue) == nil
//@   letpost liveOK := p.anchorTimeValidator.Validate(sd.AnchorFrom, effUntil(sd.AnchorFrom, sd.AnchorUntil, p.MaxOperationTimeDelta)) == nil &&
//@        p.ValidateDelta(req.Delta) == nil && p.validateCommitment(sd.UpdateKey, req.Delta.UpdateCommitment) == nil
//@   ensures [iff] (err == nil) == (reqOK && sderr == nil && (batch || liveOK) && revealOK)
//@   ensures [result] err == nil ==> op != nil && op.Type == operation.TypeUpdate && op.UniqueSuffix == req.DidSuffix && op.Delta == req.Delta &&
//@        op.SignedData == req.SignedData && op.RevealValue == req.RevealValue && op.OperationRequest == request && op.AnchorOrigin == nil
//@   ensures [reveal] err == nil ==> p.ParseSignedDataForUpdate(op.SignedData).err == nil &&
//@        hashing.IsValidModelMultihash(p.ParseSignedDataForUpdate(op.SignedData).sd.UpdateKey, op.RevealValue) == nil
//@   ensures [nonnil] err == nil ==> op != nil
//@   ensures [fresh] err == nil ==> fresh(op)

//@ func (p *Parser) ParseRecoverOperation(request, batch) (op, err)
//@   pure
//@   requires wfParser(p)
//@   modifies nothing
//@   let req := jsonDecode(string(request), model.RecoverRequest)
//@   let rerr := jsonDecodeErr(string(request), model.RecoverRequest)
//@   letpost reqOK := rerr == nil && req.DidSuffix != "" && req.SignedData != "" && hashOK(p, req.RevealValue)
//@   letpost sd, sderr := p.ParseSignedDataForRecover(req.SignedData)
//@   letpost revealOK := hashing.IsValidModelMultihash(sd.RecoveryKey, req.RevealValue) == nil
//@   letpost liveOK := p.anchorOriginValidator.Validate(sd.AnchorOrigin) == nil &&
//@        p.anchorTimeValidator.Validate(sd.AnchorFrom, effUntil(sd.AnchorFrom, sd.AnchorUntil, p.MaxOperationTimeDelta)) == nil &&
//@        p.ValidateDelta(req.Delta) == nil && req.Delta.UpdateCommitment != sd.RecoveryCommitment
//@   ensures [iff] (err == nil) == (reqOK && sderr == nil && (batch || liveOK) && revealOK)
//@   ensures [result] err == nil ==> op != nil && op.Type == operation.TypeRecover && op.UniqueSuffix == req.DidSuffix && op.Delta == req.Delta &&
//@        op.SignedData == req.SignedData && op.RevealValue == req.RevealValue && op.OperationRequest == request && op.AnchorOrigin == sd.AnchorOrigin
//@   ensures [reveal] err == nil ==> p.ParseSignedDataForRecover(op.SignedData).err == nil &&
//@        hashing.IsValidModelMultihash(p.ParseSignedDataForRecover(op.SignedData).sd.RecoveryKey, op.RevealValue) == nil
//@   ensures [nonnil] err == nil ==> op != nil
//@   ensures [fresh] err == nil ==> fresh(op)

//@ func (p *Parser) ParseDeactivateOperation(request, batch) (op, err)
//@   pure
//@   requires wfParser(p)
//@   modifies nothing
//@   let req := jsonDecode(string(request), model.DeactivateRequest)
//@   let rerr := jsonDecodeErr(string(request), model.DeactivateRequest)
//@   letpost reqOK := rerr == nil && req.DidSuffix != "" && req.SignedData != "" && hashOK(p, req.RevealValue)
//@   letpost sd, sderr := p.ParseSignedDataForDeactivate(req.SignedData)
//@   letpost revealOK := hashing.IsValidModelMultihash(sd.RecoveryKey, req.RevealValue) == nil
//@   letpost liveOK := p.anchorTimeValidator.Validate(sd.AnchorFrom, effUntil(sd.AnchorFrom, sd.AnchorUntil, p.MaxOperationTimeDelta)) == nil
//@   ensures [iff] (err == nil) == (reqOK && sderr == nil && sd.DidSuffix == req.DidSuffix && revealOK && (batch || liveOK))
//@   ensures [result] err == nil ==> op != nil && op.Type == operation.TypeDeactivate && op.UniqueSuffix == req.DidSuffix && op.Delta == nil &&
//@        op.SignedData == req.SignedData && op.RevealValue == req.RevealValue && op.OperationRequest == request && op.AnchorOrigin == nil
//@   ensures [reveal] err == nil ==> p.ParseSignedDataForDeactivate(op.SignedData).err == nil &&
//@        hashing.IsValidModelMultihash(p.ParseSignedDataForDeactivate(op.SignedData).sd.RecoveryKey, op.RevealValue) == nil
//@   ensures [suffix] err == nil ==> p.ParseSignedDataForDeactivate(op.SignedData).sd.DidSuffix == op.UniqueSuffix
//@   ensures [nonnil] err == nil ==> op != nil
//@   ensures [fresh] err == nil ==> fresh(op)

// ---------------------------------------------------------------------------
// entry points

//@ func (p *Parser) ParseOperation(namespace, operationBuffer, batch) (op, err)
//@   requires wfParser(p)
//@   modifies nothing
//@   let typ := jsonDecode(string(operationBuffer), operationSchema).Operation
//@   let terr := jsonDecodeErr(string(operationBuffer), operationSchema)
//@   let sizeOK := len(operationBuffer) <= int(p.MaxOperationSize)
//@   let c := p.ParseCreateOperation(operationBuffer, batch)
//@   let u := p.ParseUpdateOperation(operationBuffer, batch)
//@   let r := p.ParseRecoverOperation(operationBuffer, batch)
//@   let d := p.ParseDeactivateOperation(operationBuffer, batch)
//@   let known := typ == operation.TypeCreate || typ == operation.TypeUpdate || typ == operation.TypeRecover || typ == operation.TypeDeactivate
//@   ensures [size] !sizeOK ==> err != nil
//@   ensures [type] !(terr == nil && known) ==> err != nil
//@   ensures [atomic] (err != nil ==> op == nil) && (err == nil ==> op != nil)
//@   ensures [dispatch.create] sizeOK && terr == nil && typ == operation.TypeCreate ==> (err == nil) == (c.err == nil) && (err == nil ==> op == c.op)
//@   ensures [dispatch.update] sizeOK && terr == nil && typ == operation.TypeUpdate ==> (err == nil) == (u.err == nil) && (err == nil ==> op == u.op)
//@   ensures [dispatch.recover] sizeOK && terr == nil && typ == operation.TypeRecover ==> (err == nil) == (r.err == nil) && (err == nil ==> op == r.op)
//@   ensures [dispatch.deactivate] sizeOK && terr == nil && typ == operation.TypeDeactivate ==> (err == nil) == (d.err == nil) && (err == nil ==> op == d.op)
//@   ensures [id] err == nil ==> op.ID == namespace + ":" + op.UniqueSuffix && op.Namespace == namespace
//@   ensures [type.result] err == nil ==> op.Type == typ
//@   ensures [recover.signed] err == nil && typ == operation.TypeRecover ==> p.ParseSignedDataForRecover(op.SignedData).err == nil
//@   ensures [fresh] err == nil ==> fresh(op)
//@   ensures [fields] err == nil ==> op.Type == old(op.Type) && op.UniqueSuffix == old(op.UniqueSuffix) && op.AnchorOrigin == old(op.AnchorOrigin) &&
//@        op.OperationRequest == old(op.OperationRequest) && op.Delta == old(op.Delta) && op.SuffixData == old(op.SuffixData) &&
//@        op.SignedData == old(op.SignedData) && op.RevealValue == old(op.RevealValue)

//@ func (p *Parser) Parse(namespace, operationBuffer) (op, err)
//@   requires wfParser(p)
//@   modifies nothing
//@   let typ := jsonDecode(string(operationBuffer), operationSchema).Operation
//@   let terr := jsonDecodeErr(string(operationBuffer), operationSchema)
//@   let sizeOK := len(operationBuffer) <= int(p.MaxOperationSize)
//@   let c := p.ParseCreateOperation(operationBuffer, false)
//@   let u := p.ParseUpdateOperation(operationBuffer, false)
//@   let r := p.ParseRecoverOperation(operationBuffer, false)
//@   let d := p.ParseDeactivateOperation(operationBuffer, false)
//@   let known := typ == operation.TypeCreate || typ == operation.TypeUpdate || typ == operation.TypeRecover || typ == operation.TypeDeactivate
//@   ensures [size] !sizeOK ==> err != nil
//@   ensures [type] !(terr == nil && known) ==> err != nil
//@   ensures [atomic] (err != nil ==> op == nil) && (err == nil ==> op != nil)
//@   ensures [accept.create] sizeOK && terr == nil && typ == operation.TypeCreate ==> (err == nil) == (c.err == nil)
//@   ensures [accept.update] sizeOK && terr == nil && typ == operation.TypeUpdate ==> (err == nil) == (u.err == nil)
//@   ensures [accept.recover] sizeOK && terr == nil && typ == operation.TypeRecover ==> (err == nil) == (r.err == nil)
//@   ensures [accept.deactivate] sizeOK && terr == nil && typ == operation.TypeDeactivate ==> (err == nil) == (d.err == nil)
//@   ensures [result.request] err == nil ==> op.OperationRequest == operationBuffer && op.ID == namespace + ":" + op.UniqueSuffix && op.Type == typ
//@   ensures [result.create] err == nil && typ == operation.TypeCreate ==> op.UniqueSuffix == old(c.op.UniqueSuffix) && op.AnchorOrigin == old(c.op.AnchorOrigin)
//@   ensures [result.update] err == nil && typ == operation.TypeUpdate ==> op.UniqueSuffix == old(u.op.UniqueSuffix) && op.AnchorOrigin == old(u.op.AnchorOrigin)
//@   ensures [result.recover] err == nil && typ == operation.TypeRecover ==> op.UniqueSuffix == old(r.op.UniqueSuffix) && op.AnchorOrigin == old(r.op.AnchorOrigin)
//@   ensures [result.deactivate] err == nil && typ == operation.TypeDeactivate ==> op.UniqueSuffix == old(d.op.UniqueSuffix) && op.AnchorOrigin == old(d.op.AnchorOrigin)

// C04: parser-level extraction of reveal value and next commitment
//@ func (p *Parser) GetRevealValue(opBytes) (rv, err)
//@   requires wfParser(p)
//@   modifies nothing
//@   let typ := jsonDecode(string(opBytes), operationSchema).Operation
//@   let terr := jsonDecodeErr(string(opBytes), operationSchema)
//@   let sizeOK := len(opBytes) <= int(p.MaxOperationSize)
//@   let u := p.ParseUpdateOperation(opBytes, true)
//@   let r := p.ParseRecoverOperation(opBytes, true)
//@   let d := p.ParseDeactivateOperation(opBytes, true)
//@   ensures [create] sizeOK && terr == nil && typ == operation.TypeCreate ==> err != nil
//@   ensures [update] sizeOK && terr == nil && typ == operation.TypeUpdate ==> (err == nil) == (u.err == nil) && (err == nil ==> rv == old(u.op.RevealValue))
//@   ensures [recover] sizeOK && terr == nil && typ == operation.TypeRecover ==> (err == nil) == (r.err == nil) && (err == nil ==> rv == old(r.op.RevealValue))
//@   ensures [deactivate] sizeOK && terr == nil && typ == operation.TypeDeactivate ==> (err == nil) == (d.err == nil) && (err == nil ==> rv == old(d.op.RevealValue))

//@ func (p *Parser) GetCommitment(opBytes) (cm, err)
//@   requires wfParser(p)
//@   modifies nothing
//@   let typ := jsonDecode(string(opBytes), operationSchema).Operation
//@   let terr := jsonDecodeErr(string(opBytes), operationSchema)
//@   let sizeOK := len(opBytes) <= int(p.MaxOperationSize)
//@   let u := p.ParseUpdateOperation(opBytes, true)
//@   let r := p.ParseRecoverOperation(opBytes, true)
//@   let d := p.ParseDeactivateOperation(opBytes, true)
//@   ensures [create] sizeOK && terr == nil && typ == operation.TypeCreate ==> err != nil
//@   ensures [update] sizeOK && terr == nil && typ == operation.TypeUpdate && u.err == nil && old(u.op.Delta) != nil ==> err == nil && cm == old(u.op.Delta.UpdateCommitment)
//@   ensures [deactivate] sizeOK && terr == nil && typ == operation.TypeDeactivate ==> (err == nil) == (d.err == nil) && (err == nil ==> cm == "")
//@   ensures [recover] sizeOK && terr == nil && typ == operation.TypeRecover && r.err == nil ==> err == nil &&
//@        cm == p.ParseSignedDataForRecover(old(r.op.SignedData)).sd.RecoveryCommitment

// ---------------------------------------------------------------------------
// C17: long-form DIDs

// the text of a long-form DID after its last delimiter: the initial state
//@ spec func initialStateOf(did string) string = did[strings.LastIndex(did, ":")+1:]

// an initial state is acceptable exactly when it is base64url text (unpadded: the decoder refuses
// padding), the decoded bytes are a JSON create request, and encoding the canonical form of that
// request gives back the very same text (no other spelling of the same request is an initial state);
// the request may leave out its type (the Sidetree long-form format) but may not name another one
//@ spec func initialStateOK(s string) bool =
//@   b64ok(s) &&
//@   jsonDecodeErr(unb64(s), model.CreateRequest) == nil &&
//@   canonicalizer.MarshalCanonical(any(jsonDecode(unb64(s), model.CreateRequest))).1 == nil &&
//@   b64(string(canonicalizer.MarshalCanonical(any(jsonDecode(unb64(s), model.CreateRequest))).0)) == s &&
//@   (jsonDecode(unb64(s), model.CreateRequest).Operation == "" || jsonDecode(unb64(s), model.CreateRequest).Operation == operation.TypeCreate)

//@ func parseInitialState(initialState) (ret, err)
//@   modifies nothing
//@   ensures [atomic] (err != nil ==> ret == nil) && (err == nil ==> ret != nil && fresh(ret))
// (old: the canonical form is the one of the request as decoded, before this function tags it as a create operation)
//@   ensures [iff] (err == nil) == old(initialStateOK(initialState))
//@   ensures [value] err == nil ==> deref(ret).SuffixData == jsonDecode(unb64(initialState), model.CreateRequest).SuffixData &&
//@                                deref(ret).Delta == jsonDecode(unb64(initialState), model.CreateRequest).Delta &&
//@                                deref(ret).Operation == operation.TypeCreate

//@ func (p *Parser) ParseDID(namespace, shortOrLongFormDID) (did, req, err)
//@   modifies nothing
// no delimiter is left once the namespace is taken away: a short-form DID, returned as it is
//@   ensures [short-form] strings.Index(strings.ReplaceAll(shortOrLongFormDID, namespace + ":", ""), ":") == -1 ==>
//@                         err == nil && req == nil && did == shortOrLongFormDID
// otherwise the text after the last delimiter must be an acceptable initial state, and the DID in
// front of it is returned
//@   ensures [long-form] strings.Index(strings.ReplaceAll(shortOrLongFormDID, namespace + ":", ""), ":") != -1 ==>
//@                         (err == nil ==> old(initialStateOK(initialStateOf(shortOrLongFormDID))))
//@   ensures [split] strings.Index(strings.ReplaceAll(shortOrLongFormDID, namespace + ":", ""), ":") != -1 && err == nil ==>
//@                         did == shortOrLongFormDID[0:strings.LastIndex(shortOrLongFormDID, ":")]
