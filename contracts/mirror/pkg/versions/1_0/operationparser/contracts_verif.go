//go:build verif

// Contracts for package operationparser (comment-only; read by /verif/govc).

package operationparser

// ---------------------------------------------------------------------------
// helpers

//@ func contains(values, value) (r)
//@   pure
//@   ensures [iff] r == (exists i int :: 0 <= i && i < len(values) && values[i] == value)
//@   loop 0 invariant forall j int :: 0 <= j && j < $k ==> values[j] != value

//@ spec func hashOK(p *Parser, mh string) bool =
//@     len(mh) <= int(p.MaxOperationHashLength) && hashing.IsComputedUsingMultihashAlgorithms(mh, p.MultihashAlgorithms)
//
//@ func (p *Parser) validateMultihash(mh, alias) (err)
//@   pure
//@   requires p != nil
//@   ensures [iff] (err == nil) == hashOK(p, mh)

//@ func (p *Parser) validateNonce(nonce) (err)
//@   pure
//@   requires p != nil
//@   ensures [iff] (err == nil) == (nonce == "" || (encoder.DecodeString(nonce).err == nil && len(encoder.DecodeString(nonce).ret) == int(p.NonceSize)))

//@ func (p *Parser) validateSigningKey(key) (err)
//@   pure
//@   requires p != nil
//@   ensures [iff] (err == nil) == (key != nil && key.Validate() == nil && contains(p.KeyAlgorithms, key.Crv) && p.validateNonce(key.Nonce) == nil)
//@   ensures [nonnil] err == nil ==> key != nil

//@ func (p *Parser) getAnchorUntil(from, until) (r)
//@   pure
//@   requires p != nil
//@   ensures [effUntil] r == ite(from != 0 && until == 0, from + int64(p.MaxOperationTimeDelta), until)

// injected validators (interface contracts: deterministic)
//@ func (v ObjectValidator) Validate(obj) (err)
//@   pure
//@ func (v TimeValidator) Validate(from, until) (err)
//@   pure

//@ spec func headersOK(headers jws.Headers, allowed []string) bool =
//@     headers != nil && typeis(headers["alg"], string) && has(headers, "alg") && headers["alg"].(string) != "" &&
//@     (forall k string :: has(headers, k) ==> k == "alg" || k == "kid") && contains(allowed, headers["alg"].(string))
//
//@ func (p *Parser) validateProtectedHeaders(headers, allowedAlgorithms) (err)
//@   pure
//@   ensures [iff] (err == nil) == headersOK(headers, allowedAlgorithms)
//@   loop 0 invariant forall k string :: visited(k) ==> k == "alg" || k == "kid"

//@ func (p *Parser) validateCommitment(jwk, nextCommitment) (err)
//@   pure
//@   let code, cerr := hashing.GetMultihashCode(nextCommitment)
//@   let cur, gerr := commitment.GetCommitment(jwk, uint(code))
//@   ensures [iff] (err == nil) == (cerr == nil && gerr == nil && cur != nextCommitment)

//@ func (p *Parser) parseSignedData(compactJWS) (sig, err)
//@   pure
//@   requires p != nil
//@   let j, jerr := jwsutil.ParseJWS(compactJWS)
//@   ensures [iff] (err == nil) == (compactJWS != "" && jerr == nil && headersOK(j.ProtectedHeaders, p.SignatureAlgorithms))
//@   ensures [value] err == nil ==> sig == j && sig != nil
