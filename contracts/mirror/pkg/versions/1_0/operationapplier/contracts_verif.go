//go:build verif

// Contracts for package operationapplier (comment-only; read by /verif/govc).
// With the build tag off this file is not compiled; with it on it contains no code.

package operationapplier

// ---------------------------------------------------------------------------
// C09: anchoring window
//
//@ spec func effUntil(from int64, until int64, delta uint64) int64 = ite(from != 0 && until == 0, from + int64(delta), until)
//@ spec func inWindow(from int64, until int64, t uint64, delta uint64) bool =
//@     (from == 0 && until == 0) || (from <= int64(t) && int64(t) <= effUntil(from, until, delta))
//@ spec func noAddOverflow(a int64, b int64) bool = (b >= 0 && a + b >= a) || (b < 0 && a + b < a)
//
//@ func (s *Applier) getAnchorUntil(from, until) (r)
//@   pure
//@   requires s != nil
//@   ensures [effUntil] r == effUntil(from, until, s.MaxOperationTimeDelta)
//
//@ func (s *Applier) verifyAnchoringTimeRange(from, until, anchor) (err)
//@   pure
//@   requires s != nil
//@   requires anchor <= 9223372036854775807 && s.MaxOperationTimeDelta <= 9223372036854775807
//@   requires from != 0 && until == 0 ==> noAddOverflow(from, int64(s.MaxOperationTimeDelta))
//@   ensures [window] (err == nil) == inWindow(from, until, anchor, s.MaxOperationTimeDelta)
