//go:build verif

// Contracts for package operationapplier (comment-only; read by /verif/govc).
// With the build tag off this file is not compiled; with it on it contains no code.

package operationapplier

// ---------------------------------------------------------------------------
// C09: anchoring window
//
//@ spec func effUntil(from int64, until int64, delta uint64) int64 = ite(from != 0 && until == 0, from + int64(delta), until)
//@ spec func inWindow(from int64, until int64, t uint64, delta uint64) bool =
//@     (from == 0 && until == 0) || (from <= int64(t) && int64(t) <= effUntil(from, until, delta))
//
// inWindow is stated over 64-bit machine integers exactly as Go evaluates it. On the domain
// t <= 2^63-1, delta <= 2^63-1, from+delta without int64 overflow it is the mathematical
// predicate  from <= t <= until'  of the property statement; outside that domain the code
// (and this predicate) wrap around, which the property does not speak about.
//@ func (s *Applier) getAnchorUntil(from, until) (r)
//@   pure
//@   requires s != nil
//@   ensures [effUntil] r == effUntil(from, until, s.MaxOperationTimeDelta)
//
//@ func (s *Applier) verifyAnchoringTimeRange(from, until, anchor) (err)
//@   pure
//@   requires s != nil
//@   ensures [window] (err == nil) == inWindow(from, until, anchor, s.MaxOperationTimeDelta)

// ---------------------------------------------------------------------------
// Interface contracts the applier relies on. Every clause is re-stated and
// proved on the concrete *operationparser.Parser / *doccomposer.DocumentComposer
// (packages operationparser, doccomposer). `pure` on an interface method says:
// the result is a deterministic function of the arguments and the heap.
//
//@ func (p OperationParser) ParseCreateOperation(request, anchor) (op, err)
//@   pure
//@   ensures [nonnil] err == nil ==> op != nil && op.SuffixData != nil
//
//@ func (p OperationParser) ParseUpdateOperation(request, anchor) (op, err)
//@   pure
//@   ensures [nonnil] err == nil ==> op != nil
//
//@ func (p OperationParser) ParseRecoverOperation(request, anchor) (op, err)
//@   pure
//@   ensures [nonnil] err == nil ==> op != nil
//
//@ func (p OperationParser) ParseDeactivateOperation(request, anchor) (op, err)
//@   pure
//@   ensures [nonnil] err == nil ==> op != nil
//
//@ func (p OperationParser) ParseSignedDataForUpdate(compactJWS) (sd, err)
//@   pure
//@   ensures [nonnil] err == nil ==> sd != nil
//@   ensures [key] err == nil ==> sd.UpdateKey != nil
//
//@ func (p OperationParser) ParseSignedDataForRecover(compactJWS) (sd, err)
//@   pure
//@   ensures [nonnil] err == nil ==> sd != nil
//@   ensures [key] err == nil ==> sd.RecoveryKey != nil
//
//@ func (p OperationParser) ParseSignedDataForDeactivate(compactJWS) (sd, err)
//@   pure
//@   ensures [nonnil] err == nil ==> sd != nil
//@   ensures [key] err == nil ==> sd.RecoveryKey != nil
//
//@ func (p OperationParser) ValidateDelta(delta) (err)
//@   pure
//@   ensures [nonnil] err == nil ==> delta != nil
//
//@ func (p OperationParser) ValidateSuffixData(suffixData) (err)
//@   pure
//@   ensures [nonnil] err == nil ==> suffixData != nil

// a well-formed applier (what New builds): parser and composer are set
//@ spec func wfApplier(s *Applier) bool = s != nil && s.OperationParser != nil && s.DocumentComposer != nil

// ---------------------------------------------------------------------------
// C01 / C02 / C09 / C12: the step relation of the state machine, one function
// per operation type. `let` names the application of a pure callee: the same
// term the call in the body denotes.

//@ func (s *Applier) Apply(op, rm) (ret, err)
//@   requires wfApplier(s) && op != nil && rm != nil
//@   modifies nothing
//@   let c := s.applyCreateOperation(op, rm)
//@   let u := s.applyUpdateOperation(op, rm)
//@   let r := s.applyRecoverOperation(op, rm)
//@   let d := s.applyDeactivateOperation(op, rm)
//@   ensures [dispatch.create] op.Type == operation.TypeCreate ==> ret == c.ret && err == c.err
//@   ensures [dispatch.update] op.Type == operation.TypeUpdate ==> ret == u.ret && err == u.err
//@   ensures [dispatch.recover] op.Type == operation.TypeRecover ==> ret == r.ret && err == r.err
//@   ensures [dispatch.deactivate] op.Type == operation.TypeDeactivate ==> ret == d.ret && err == d.err
//@   ensures [dispatch.other] op.Type != operation.TypeCreate && op.Type != operation.TypeUpdate && op.Type != operation.TypeRecover && op.Type != operation.TypeDeactivate ==> ret == nil && err != nil
//@   ensures [atomic] (err != nil ==> ret == nil) && (err == nil ==> ret != nil)

//@ func (s *Applier) applyCreateOperation(anchoredOp, rm) (ret, err)
//@   pure
//@   requires wfApplier(s) && anchoredOp != nil && rm != nil
//@   modifies nothing
//@   let op, perr := s.OperationParser.ParseCreateOperation(anchoredOp.OperationRequest, true)
//@   let accepted := rm.Doc == nil && perr == nil
//@   let hashOK := hashing.IsValidModelMultihash(op.Delta, op.SuffixData.DeltaHash) == nil
//@   let deltaOK := s.OperationParser.ValidateDelta(op.Delta) == nil
//@   ensures [refuse] !accepted ==> ret == nil && err != nil
//@   ensures [accept] accepted ==> err == nil && ret != nil
//@   ensures [first-op] rm.Doc != nil ==> ret == nil && err != nil
//@   ensures [recoveryCommitment] accepted ==> ret.RecoveryCommitment == op.SuffixData.RecoveryCommitment
//@   ensures [anchorOrigin] accepted ==> ret.AnchorOrigin == op.SuffixData.AnchorOrigin
//@   ensures [updateCommitment.staged] accepted ==> ret.UpdateCommitment == ite(hashOK && deltaOK, op.Delta.UpdateCommitment, "")
//@   ensures [doc.staged] accepted && hashOK && deltaOK ==>
//@        (exists d0 document.Document :: emptymap(d0) && fresh(d0) &&
//@           ((s.DocumentComposer.ApplyPatches(d0, op.Delta.Patches).err == nil && ret.Doc == s.DocumentComposer.ApplyPatches(d0, op.Delta.Patches).ret) ||
//@            (s.DocumentComposer.ApplyPatches(d0, op.Delta.Patches).err != nil && emptymap(ret.Doc))))
//@   ensures [doc.empty] accepted && !(hashOK && deltaOK) ==> emptymap(ret.Doc)
//@   ensures [doc.nonnil] accepted ==> ret.Doc != nil
//@   ensures [createdTime] accepted ==> ret.CreatedTime == anchoredOp.TransactionTime && ret.UpdatedTime == 0
//@   ensures [lastOperation] accepted ==> ret.LastOperationTransactionTime == anchoredOp.TransactionTime &&
//@        ret.LastOperationTransactionNumber == anchoredOp.TransactionNumber && ret.LastOperationProtocolVersion == anchoredOp.ProtocolVersion
//@   ensures [references] accepted ==> ret.VersionID == anchoredOp.CanonicalReference && ret.CanonicalReference == anchoredOp.CanonicalReference &&
//@        ret.EquivalentReferences == anchoredOp.EquivalentReferences
//@   ensures [operations] accepted ==> ret.PublishedOperations == rm.PublishedOperations && ret.UnpublishedOperations == rm.UnpublishedOperations
//@   ensures [deactivated] accepted ==> !ret.Deactivated

//@ func (s *Applier) applyUpdateOperation(anchoredOp, rm) (ret, err)
//@   pure
//@   requires wfApplier(s) && anchoredOp != nil && rm != nil
//@   modifies nothing
//@   let op, perr := s.OperationParser.ParseUpdateOperation(anchoredOp.OperationRequest, true)
//@   let sd, sderr := s.OperationParser.ParseSignedDataForUpdate(op.SignedData)
//@   let hashOK := hashing.IsValidModelMultihash(op.Delta, sd.DeltaHash) == nil
//@   let sigOK := jwsutil.VerifyJWS(op.SignedData, sd.UpdateKey).err == nil
//@   let deltaOK := s.OperationParser.ValidateDelta(op.Delta) == nil
//@   let accepted := rm.Doc != nil && perr == nil && sderr == nil && hashOK && sigOK && deltaOK
//@   let inWin := inWindow(sd.AnchorFrom, sd.AnchorUntil, anchoredOp.TransactionTime, s.MaxOperationTimeDelta)
//@   let doc2, aerr := s.DocumentComposer.ApplyPatches(rm.Doc, op.Delta.Patches)
//@   ensures [refuse] !accepted ==> ret == nil && err != nil
//@   ensures [accept] accepted ==> err == nil && ret != nil
//@   ensures [first-op] rm.Doc == nil ==> ret == nil && err != nil
//@   ensures [sig] !(perr == nil && sderr == nil && sigOK) ==> ret == nil && err != nil
//@   ensures [hash] !(perr == nil && sderr == nil && hashOK) ==> ret == nil && err != nil
//@   ensures [updateCommitment] accepted ==> ret.UpdateCommitment == op.Delta.UpdateCommitment
//@   ensures [recoveryCommitment] accepted ==> ret.RecoveryCommitment == rm.RecoveryCommitment
//@   ensures [anchorOrigin] accepted ==> ret.AnchorOrigin == rm.AnchorOrigin
//@   ensures [doc.applied] accepted && inWin && aerr == nil ==> ret.Doc == doc2
//@   ensures [doc.degrade] accepted && !(inWin && aerr == nil) ==> ret.Doc == rm.Doc
//@   ensures [createdTime] accepted ==> ret.CreatedTime == rm.CreatedTime && ret.UpdatedTime == anchoredOp.TransactionTime
//@   ensures [lastOperation] accepted ==> ret.LastOperationTransactionTime == anchoredOp.TransactionTime &&
//@        ret.LastOperationTransactionNumber == anchoredOp.TransactionNumber && ret.LastOperationProtocolVersion == anchoredOp.ProtocolVersion
//@   ensures [references] accepted ==> ret.VersionID == anchoredOp.CanonicalReference && ret.CanonicalReference == rm.CanonicalReference &&
//@        ret.EquivalentReferences == rm.EquivalentReferences
//@   ensures [operations] accepted ==> ret.PublishedOperations == rm.PublishedOperations && ret.UnpublishedOperations == rm.UnpublishedOperations
//@   ensures [deactivated] accepted ==> !ret.Deactivated

//@ func (s *Applier) applyRecoverOperation(anchoredOp, rm) (ret, err)
//@   pure
//@   requires wfApplier(s) && anchoredOp != nil && rm != nil
//@   modifies nothing
//@   let op, perr := s.OperationParser.ParseRecoverOperation(anchoredOp.OperationRequest, true)
//@   let sd, sderr := s.OperationParser.ParseSignedDataForRecover(op.SignedData)
//@   let sigOK := jwsutil.VerifyJWS(op.SignedData, sd.RecoveryKey).err == nil
//@   let accepted := rm.Doc != nil && perr == nil && sderr == nil && sigOK
//@   let hashOK := hashing.IsValidModelMultihash(op.Delta, sd.DeltaHash) == nil
//@   let deltaOK := s.OperationParser.ValidateDelta(op.Delta) == nil
//@   let inWin := inWindow(sd.AnchorFrom, sd.AnchorUntil, anchoredOp.TransactionTime, s.MaxOperationTimeDelta)
//@   ensures [refuse] !accepted ==> ret == nil && err != nil
//@   ensures [accept] accepted ==> err == nil && ret != nil
//@   ensures [first-op] rm.Doc == nil ==> ret == nil && err != nil
//@   ensures [sig] !(perr == nil && sderr == nil && sigOK) ==> ret == nil && err != nil
//@   ensures [recoveryCommitment] accepted ==> ret.RecoveryCommitment == sd.RecoveryCommitment
//@   ensures [anchorOrigin] accepted ==> ret.AnchorOrigin == sd.AnchorOrigin
//@   ensures [updateCommitment.staged] accepted ==> ret.UpdateCommitment == ite(hashOK && deltaOK, op.Delta.UpdateCommitment, "")
//@   ensures [doc.staged] accepted && hashOK && deltaOK && inWin ==>
//@        (exists d0 document.Document :: emptymap(d0) && fresh(d0) &&
//@           ((s.DocumentComposer.ApplyPatches(d0, op.Delta.Patches).err == nil && ret.Doc == s.DocumentComposer.ApplyPatches(d0, op.Delta.Patches).ret) ||
//@            (s.DocumentComposer.ApplyPatches(d0, op.Delta.Patches).err != nil && emptymap(ret.Doc))))
//@   ensures [doc.empty] accepted && !(hashOK && deltaOK && inWin) ==> emptymap(ret.Doc)
//@   ensures [doc.nonnil] accepted ==> ret.Doc != nil
//@   ensures [createdTime] accepted ==> ret.CreatedTime == rm.CreatedTime && ret.UpdatedTime == anchoredOp.TransactionTime
//@   ensures [lastOperation] accepted ==> ret.LastOperationTransactionTime == anchoredOp.TransactionTime &&
//@        ret.LastOperationTransactionNumber == anchoredOp.TransactionNumber && ret.LastOperationProtocolVersion == anchoredOp.ProtocolVersion
//@   ensures [references] accepted ==> ret.VersionID == anchoredOp.CanonicalReference && ret.CanonicalReference == anchoredOp.CanonicalReference &&
//@        ret.EquivalentReferences == anchoredOp.EquivalentReferences
//@   ensures [operations] accepted ==> ret.PublishedOperations == rm.PublishedOperations && ret.UnpublishedOperations == rm.UnpublishedOperations
//@   ensures [deactivated] accepted ==> !ret.Deactivated

//@ func (s *Applier) applyDeactivateOperation(anchoredOp, rm) (ret, err)
//@   pure
//@   requires wfApplier(s) && anchoredOp != nil && rm != nil
//@   modifies nothing
//@   let op, perr := s.OperationParser.ParseDeactivateOperation(anchoredOp.OperationRequest, true)
//@   let sd, sderr := s.OperationParser.ParseSignedDataForDeactivate(op.SignedData)
//@   let sigOK := jwsutil.VerifyJWS(op.SignedData, sd.RecoveryKey).err == nil
//@   let inWin := inWindow(sd.AnchorFrom, sd.AnchorUntil, anchoredOp.TransactionTime, s.MaxOperationTimeDelta)
//@   let accepted := rm.Doc != nil && perr == nil && sderr == nil && op.UniqueSuffix == sd.DidSuffix && sigOK && inWin
//@   ensures [refuse] !accepted ==> ret == nil && err != nil
//@   ensures [accept] accepted ==> err == nil && ret != nil
//@   ensures [first-op] rm.Doc == nil ==> ret == nil && err != nil
//@   ensures [sig] !(perr == nil && sderr == nil && sigOK) ==> ret == nil && err != nil
//@   ensures [window] !(perr == nil && sderr == nil && inWin) ==> ret == nil && err != nil
//@   ensures [cleared] accepted ==> ret.UpdateCommitment == "" && ret.RecoveryCommitment == "" && ret.Deactivated && emptymap(ret.Doc)
//@   ensures [anchorOrigin] accepted ==> ret.AnchorOrigin == rm.AnchorOrigin
//@   ensures [createdTime] accepted ==> ret.CreatedTime == rm.CreatedTime && ret.UpdatedTime == anchoredOp.TransactionTime
//@   ensures [lastOperation] accepted ==> ret.LastOperationTransactionTime == anchoredOp.TransactionTime &&
//@        ret.LastOperationTransactionNumber == anchoredOp.TransactionNumber && ret.LastOperationProtocolVersion == anchoredOp.ProtocolVersion
//@   ensures [references] accepted ==> ret.VersionID == anchoredOp.CanonicalReference && ret.CanonicalReference == rm.CanonicalReference &&
//@        ret.EquivalentReferences == rm.EquivalentReferences
//@   ensures [operations] accepted ==> ret.PublishedOperations == rm.PublishedOperations && ret.UnpublishedOperations == rm.UnpublishedOperations
