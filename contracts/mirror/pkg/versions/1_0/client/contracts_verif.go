//go:build verif

// Contracts for package client (request builders) (comment-only; read by /verif/govc).

package client

// C08: what the builders refuse. A create request is built only from exactly one of opaque document /
// patches, a supported hash code, two commitments computed with that code, and different commitments
// (equal commitments mean a re-used key).
//@ func validateCreateRequest(info) (err)
//@   requires info != nil
//@   modifies nothing
//@   ensures [one-source] err == nil ==> (info.OpaqueDocument == "") != (len(info.Patches) == 0)
//@   ensures [distinct] err == nil ==> info.RecoveryCommitment != info.UpdateCommitment
//@   ensures [hash] err == nil ==> hashing.decodable(info.RecoveryCommitment) && hashing.codeOf(info.RecoveryCommitment) == uint64(info.MultihashCode) &&
//@        hashing.decodable(info.UpdateCommitment) && hashing.codeOf(info.UpdateCommitment) == uint64(info.MultihashCode)

// the next commitment may not be the commitment of the key that signs now (a re-used key)
//@ func validateCommitment(jwk, multihashCode, nextCommitment) (err)
//@   modifies nothing
//@   ensures [fresh-key] err == nil ==> commitment.GetCommitment(jwk, multihashCode).1 == nil && commitment.GetCommitment(jwk, multihashCode).0 != nextCommitment

//@ func validateUpdateRequest(info) (err)
//@   requires info != nil
//@   modifies nothing
//@   ensures [required] err == nil ==> info.DidSuffix != "" && info.RevealValue != "" && len(info.Patches) > 0 && info.UpdateKey != nil && info.Signer != nil

//@ func validateRecoverRequest(info) (err)
//@   requires info != nil
//@   modifies nothing
//@   ensures [required] err == nil ==> info.DidSuffix != "" && info.RevealValue != "" && info.RecoveryKey != nil && info.Signer != nil &&
//@        (info.OpaqueDocument == "") != (len(info.Patches) == 0)

//@ func validateDeactivateRequest(info) (err)
//@   requires info != nil
//@   modifies nothing
//@   ensures [required] err == nil ==> info.DidSuffix != "" && info.RevealValue != "" && info.Signer != nil

// nothing is built from refused input
//@ func NewCreateRequest(info) (ret, err)
//@   requires info != nil
//@   ensures [refused] err == nil ==> old(info.RecoveryCommitment != info.UpdateCommitment && (info.OpaqueDocument == "") != (len(info.Patches) == 0))
//@ func NewUpdateRequest(info) (ret, err)
//@   requires info != nil
//@   ensures [refused] err == nil ==> old(commitment.GetCommitment(info.UpdateKey, info.MultihashCode).0 != info.UpdateCommitment) && old(info.DidSuffix != "" && info.RevealValue != "" && len(info.Patches) > 0)
//@ func NewRecoverRequest(info) (ret, err)
//@   requires info != nil
// (C08: like create, a recover request with equal next commitments re-uses a key and must be refused;
//  this clause fails on the current tree and is a recorded finding, see known_findings.txt)
//@   ensures [distinct] err == nil ==> old(info.RecoveryCommitment != info.UpdateCommitment)
//@   ensures [refused] err == nil ==> old(commitment.GetCommitment(info.RecoveryKey, info.MultihashCode).0 != info.RecoveryCommitment) && old(info.DidSuffix != "" && info.RevealValue != "")
//@ func NewDeactivateRequest(info) (ret, err)
//@   requires info != nil
//@   ensures [refused] err == nil ==> old(info.DidSuffix != "" && info.RevealValue != "" && info.Signer != nil)

// a signer is asked for its headers and for signatures; it does not touch the request being built
//@ func (s Signer) Headers() (h)
//@   pure
//@ func (s Signer) Sign(data) (sig, err)
//@   modifies nothing
