//go:build verif

// Contracts for package docvalidator (comment-only; read by /verif/govc).

package docvalidator

// C13: an original document that carries an id is refused
//@ func (v *Validator) IsValidOriginalDocument(payload) (err)
//@   let s := string(payload)
//@   let derr := jsonDecodeErr(s, document.Document)
//@   let id := jsonMapGet(s, "id", document.Document)
//@   ensures [iff] (err == nil) == (derr == nil && !(typeis(id, string) && id.(string) != ""))
