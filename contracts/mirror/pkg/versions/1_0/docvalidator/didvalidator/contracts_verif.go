//go:build verif

// Contracts for package didvalidator (comment-only; read by /verif/govc).

package didvalidator

// C13: an original DID document that carries an id or a context is refused
//@ func (v *Validator) IsValidOriginalDocument(payload) (err)
//@   let s := string(payload)
//@   let derr := jsonDecodeErr(s, document.DIDDocument)
//@   let id := jsonMapGet(s, "id", document.DIDDocument)
//@   let ctx := jsonMapGet(s, "@context", document.DIDDocument)
//@   ensures [iff] (err == nil) == (derr == nil && !(typeis(id, string) && id.(string) != "") &&
//@        !(typeis(ctx, []interface{}) && len(ctx.([]interface{})) != 0))
