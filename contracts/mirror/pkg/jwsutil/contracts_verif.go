//go:build verif

// Contracts for package jwsutil (comment-only; read by /verif/govc).

package jwsutil

//@ func VerifyJWS(jwsStr, jwk, opts) (ret, err)
//@   pure
