//go:build verif

// Contracts for package jwsutil (comment-only; read by /verif/govc).

package jwsutil

//@ func VerifyJWS(jwsStr, jwk, opts) (ret, err)
//@   pure
//@   requires jwk != nil
//@   requires forall i int :: 0 <= i && i < len(opts) ==> opts[i] != nil
// C15: what comes back verified is a three-segment compact JWS checked with an EC or OKP key, and
// (when no detached payload is supplied) its payload is the decoded middle segment, unchanged
//@   ensures [nonnil] err == nil ==> ret != nil
//@   ensures [kty] err == nil ==> jwk.Kty == "EC" || jwk.Kty == "OKP"
//@   ensures [compact] err == nil ==> len(strings.Split(jwsStr, ".")) == 3 && !hasPrefix(jwsStr, "{")
//@   ensures [payload] err == nil && len(opts) == 0 ==> string(ret.Payload) == unb64(strings.Split(jwsStr, ".")[1]) && len(ret.Payload) > 0

//@ func ParseJWS(jwsStr, opts) (ret, err)
//@   pure
//@   requires forall i int :: 0 <= i && i < len(opts) ==> opts[i] != nil
//@   ensures [nonnil] err == nil ==> ret != nil
//@   ensures [compact] err == nil ==> len(strings.Split(jwsStr, ".")) == 3 && !hasPrefix(jwsStr, "{")
//@   ensures [payload] err == nil && len(opts) == 0 ==> string(ret.Payload) == unb64(strings.Split(jwsStr, ".")[1]) && len(ret.Payload) > 0
//@   loop 0 invariant len(opts) == 0 ==> len(pOpts.detachedPayload) == 0

// C16 / C19: secp256k1 keys are read by the repository's own code
//@ func unmarshalSecp256k1(jwk) (ret, err)
//@   requires jwk != nil
//@   modifies nothing
//@   ensures [atomic] (err != nil ==> ret == nil) && (err == nil ==> ret != nil)
// C16: a key is read only when both coordinates are present at the curve's full width (32 bytes:
// leading zero bytes are part of the encoding, a shorter or longer coordinate is refused), a private
// value, when present, has full width too, and the point is on the curve
//@   ensures [width] err == nil ==> jwk.X != nil && jwk.Y != nil && len(jwk.X.data) == 32 && len(jwk.Y.data) == 32
//@   ensures [width.d] err == nil && jwk.D != nil ==> len(jwk.D.data) == dSize(btcec.S256())
//@   ensures [on-curve] err == nil ==> old(btcec.S256().IsOnCurve(deref(jwk.X).bigInt(), deref(jwk.Y).bigInt()))
//@   ensures [kind] err == nil ==> (jwk.D == nil ==> typeis(ret.Key, *ecdsa.PublicKey)) && (jwk.D != nil ==> typeis(ret.Key, *ecdsa.PrivateKey))

// the number a coordinate denotes: a function of its bytes
//@ func (b byteBuffer) bigInt() (r)
//@   pure
//@   ensures [nonnil] r != nil

//@ func dSize(curve) (n)
//@   pure
//@   requires curve != nil

// calling a parse option: it may only write the option struct it is given
//@ func (o ParseOpt) call(opts)
//@   modifies deref(opts)

// package-level error value: set once by the initialiser, never reassigned
//@ global invariant [errInvalidKey] ErrInvalidKey != nil

// C16 / C20: an Ed25519 public key is taken from the JWK through a private round trip of the
// key's JSON text; the JWK handed in is only read, and a key that comes back has the full size
//@ func GetED25519PublicKey(jwk) (key, err)
//@   requires jwk != nil
//@   modifies nothing
//@   ensures [size] err == nil ==> len(key) == 32

// ---------------------------------------------------------------------------
// C16: fixed-width coordinates of secp256k1 keys (the repository's own JWK code path)

// a coordinate is written at exactly the requested width: zero bytes in front, the value behind them
//@ func newFixedSizeBuffer(data, length) (b)
//@   requires 0 <= length && length <= 4096 && len(data) <= length
//@   modifies nothing
//@   ensures [width] b != nil && len(b.data) == length
//@   ensures [padding] forall i int :: 0 <= i && i < length - len(data) ==> b.data[i] == 0
//@   ensures [content] forall i int :: 0 <= i && i < len(data) ==> b.data[length - len(data) + i] == data[i]

// bytes needed for a curve's coordinates: the bit size rounded up to whole bytes
//@ func curveSize(crv) (n)
//@   requires crv != nil && 0 < crv.Params().BitSize && crv.Params().BitSize <= 65536
//@   modifies nothing
//@   ensures [ceil] n == (crv.Params().BitSize + 7) / 8

// ---------------------------------------------------------------------------
// C15: what a signature check refuses before any cryptography runs

// byte width of a signature half for the curve named in a JWK (0: the curve is not supported)
//@ spec func ecKeySize(crv string) int =
//@   ite(crv == "P-256", 32, ite(crv == "P-384", 48, ite(crv == "P-521", 66, ite(crv == "secp256k1", 32, 0))))

//@ func parseEllipticCurve(curve) (ec)
//@   modifies nothing
//@   ensures [table] (ec == nil) == (ecKeySize(curve) == 0)
//@   ensures [size] ec != nil ==> ec.keySize == ecKeySize(curve)

// only EC and OKP keys verify anything
//@ func VerifySignature(jwk, signature, msg) (err)
//@   requires jwk != nil
//@   modifies nothing
//@   ensures [kty] err == nil ==> old(jwk.Kty == "EC" || jwk.Kty == "OKP")

// an ECDSA signature is accepted only for a supported curve and at exactly twice the curve's byte width
//@ func verifyECSignature(jwk, signature, msg) (err)
//@   requires jwk != nil
//@   modifies nothing
//@   ensures [curve] err == nil ==> old(ecKeySize(jwk.Crv)) != 0
//@   ensures [length] err == nil ==> len(signature) == 2 * old(ecKeySize(jwk.Crv))

// a compact JWS has exactly three dot-separated segments, each unpadded base64url; header and
// signature are never empty, and without a detached payload the payload is the decoded middle segment
//@ func parseCompacted(jwsCompact, opts) (ret, err)
//@   requires opts != nil
//@   modifies nothing
//@   let parts := strings.Split(jwsCompact, ".")
//@   ensures [atomic] (err != nil ==> ret == nil) && (err == nil ==> ret != nil)
//@   ensures [segments] err == nil ==> len(parts) == 3 && b64ok(parts[0]) && b64ok(parts[2])
//@   ensures [payload] err == nil && len(opts.detachedPayload) == 0 ==> b64ok(parts[1]) && string(ret.Payload) == unb64(parts[1]) && len(ret.Payload) > 0
//@   ensures [signature] err == nil ==> string(ret.signature) == unb64(parts[2]) && len(ret.signature) > 0

// a secp256k1 key handed in for serialisation is a point of the curve: its coordinates (and the
// private value) are numbers below 2^256, so they fit the fixed 32-byte fields
//@ spec func fitsSecp256k1(k *ecdsa.PublicKey) bool = k != nil && k.X != nil && k.Y != nil && len(k.X.Bytes()) <= 32 && len(k.Y.Bytes()) <= 32
//@ func marshalSecp256k1(jwk) (ret, err)
//@   requires jwk != nil
//@   requires typeis(jwk.Key, *ecdsa.PublicKey) ==> fitsSecp256k1(jwk.Key.(*ecdsa.PublicKey))
//@   requires typeis(jwk.Key, *ecdsa.PrivateKey) ==> jwk.Key.(*ecdsa.PrivateKey) != nil && jwk.Key.(*ecdsa.PrivateKey).D != nil &&
//@            jwk.Key.(*ecdsa.PrivateKey).X != nil && jwk.Key.(*ecdsa.PrivateKey).Y != nil && jwk.Key.(*ecdsa.PrivateKey).Curve != nil &&
//@            len(jwk.Key.(*ecdsa.PrivateKey).X.Bytes()) <= 32 && len(jwk.Key.(*ecdsa.PrivateKey).Y.Bytes()) <= 32 &&
//@            0 <= dSize(jwk.Key.(*ecdsa.PrivateKey).Curve) && dSize(jwk.Key.(*ecdsa.PrivateKey).Curve) <= 4096 &&
//@            len(jwk.Key.(*ecdsa.PrivateKey).D.Bytes()) <= dSize(jwk.Key.(*ecdsa.PrivateKey).Curve)
//@   modifies nothing

// a signer is asked for its headers and for signatures; it does not touch the data being signed
//@ func (s Signer) Headers() (h)
//@   pure
//@ func (s Signer) Sign(data) (sig, err)
//@   modifies nothing

// C16: an Ed25519 JWK is read only when its x has the full 32 bytes (the JSON library underneath would
// pad or truncate another length instead of refusing it)
//@ func (j *JWK) UnmarshalJSON(jwkBytes) (err)
//@   requires j != nil
//@   modifies deref(j)
//@   let k := jsonDecode(string(jwkBytes), jsonWebKey)
//@   ensures [okp-width] err == nil && k.Kty == "OKP" && k.Crv == "Ed25519" ==> k.X != nil && len(k.X.data) == 32
