//go:build verif

// Contracts for package jwsutil (comment-only; read by /verif/govc).

package jwsutil

//@ func VerifyJWS(jwsStr, jwk, opts) (ret, err)
//@   pure

//@ func ParseJWS(jwsStr, opts) (ret, err)
//@   pure
//@   ensures [nonnil] err == nil ==> ret != nil
