//go:build verif

// Contracts for package jwsutil (comment-only; read by /verif/govc).

package jwsutil

//@ func VerifyJWS(jwsStr, jwk, opts) (ret, err)
//@   pure
//@   requires jwk != nil
//@   requires forall i int :: 0 <= i && i < len(opts) ==> opts[i] != nil

//@ func ParseJWS(jwsStr, opts) (ret, err)
//@   pure
//@   requires forall i int :: 0 <= i && i < len(opts) ==> opts[i] != nil
//@   ensures [nonnil] err == nil ==> ret != nil

// C16 / C19: secp256k1 keys are read by the repository's own code
//@ func unmarshalSecp256k1(jwk) (ret, err)
//@   requires jwk != nil
//@   modifies nothing
//@   ensures [atomic] (err != nil ==> ret == nil) && (err == nil ==> ret != nil)

// calling a parse option: it may only write the option struct it is given
//@ func (o ParseOpt) call(opts)
//@   modifies deref(opts)

// package-level error value: set once by the initialiser, never reassigned
//@ global invariant [errInvalidKey] ErrInvalidKey != nil

// C16 / C20: an Ed25519 public key is taken from the JWK through a private round trip of the
// key's JSON text; the JWK handed in is only read, and a key that comes back has the full size
//@ func GetED25519PublicKey(jwk) (key, err)
//@   requires jwk != nil
//@   modifies nothing
//@   ensures [size] err == nil ==> len(key) == 32
