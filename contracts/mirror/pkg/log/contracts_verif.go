//go:build verif

// Contracts for package log (pkg/log) (comment-only; read by /verif/govc).

package log

// C20: the package-level handler is read and replaced only under the package mutex
//@ guarded handler by mutex

//@ func New(module) (l)
//@   modifies nothing

//@ func SetHandler(h)
//@   modifies global(handler)
