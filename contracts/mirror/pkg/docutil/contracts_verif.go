//go:build verif

// Contracts for package docutil (comment-only; read by /verif/govc).

package docutil

//@ func CalculateID(namespace, value, hashAlgorithmAsMultihashCode) (ret, err)
//@   pure
//@   let h, herr := hashing.CalculateModelMultihash(value, hashAlgorithmAsMultihashCode)
//@   ensures [iff] (err == nil) == (herr == nil)
//@   ensures [id] err == nil ==> ret == namespace + ":" + h
