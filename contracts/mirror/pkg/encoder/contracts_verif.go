//go:build verif

// Contracts for package encoder (comment-only; read by /verif/govc).

package encoder

//@ func EncodeToString(data) (s)
//@   pure
//@   ensures [b64] s == b64(string(data))
//
//@ func DecodeString(encodedContent) (ret, err)
//@   pure
//@   ensures [iff] (err == nil) == b64ok(encodedContent)
//@   ensures [value] err == nil ==> string(ret) == unb64(encodedContent)
