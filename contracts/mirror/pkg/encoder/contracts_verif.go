//go:build verif

// Contracts for package encoder (comment-only; read by /verif/govc).

package encoder

//@ func EncodeToString(data) (s)
//@   pure
//
//@ func DecodeString(encodedContent) (ret, err)
//@   pure
