//go:build verif

// Contracts for package jws (comment-only; read by /verif/govc).

package jws

//@ spec func jwkWellFormed(kty string, crv string, x string, n string, e string) bool =
//@     kty != "" && ((kty == "RSA" && n != "" && e != "") || (kty != "RSA" && crv != "" && x != ""))
//
//@ func (jwk *JWK) Validate() (err)
//@   pure
//@   requires jwk != nil
//@   ensures [iff] (err == nil) == jwkWellFormed(jwk.Kty, jwk.Crv, jwk.X, jwk.N, jwk.E)
