//go:build verif

// Contracts for package commitment (comment-only; read by /verif/govc).

package commitment

//@ func GetCommitment(jwk, multihashCode) (ret, err)
//@   pure
