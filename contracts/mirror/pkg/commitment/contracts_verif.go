//go:build verif

// Contracts for package commitment (comment-only; read by /verif/govc).

package commitment

// C04: reveal value = multihash of the canonical JWK; commitment = multihash of
// the hash of the canonical JWK; commitment-from-reveal re-hashes the digest.
//
//@ spec func hashFor2(code uint) crypto.Hash = ite(code == 18, crypto.SHA256, crypto.SHA512)
//@ spec func reveal(c string, code uint) string = b64(mhEnc(digest(hashFor2(code), c), uint64(code)))
//@ spec func commit(c string, code uint) string = b64(mhEnc(digest(hashFor2(code), digest(hashFor2(code), c)), uint64(code)))

//@ func GetRevealValue(jwk, multihashCode) (ret, err)
//@   pure
//@   let cb, cerr := canonicalizer.MarshalCanonical(jwk)
//@   ensures [iff] (err == nil) == (cerr == nil && (multihashCode == 18 || multihashCode == 19) && digestOK(hashFor2(multihashCode)) &&
//@        mhEncOK(digest(hashFor2(multihashCode), string(cb)), uint64(multihashCode)))
//@   ensures [value] err == nil ==> ret == reveal(string(cb), multihashCode)

//@ func GetCommitment(jwk, multihashCode) (ret, err)
//@   pure
//@   let cb, cerr := canonicalizer.MarshalCanonical(jwk)
//@   ensures [iff] (err == nil) == (cerr == nil && (multihashCode == 18 || multihashCode == 19) && digestOK(hashFor2(multihashCode)) &&
//@        mhEncOK(digest(hashFor2(multihashCode), digest(hashFor2(multihashCode), string(cb))), uint64(multihashCode)))
//@   ensures [value] err == nil ==> ret == commit(string(cb), multihashCode)

//@ func GetCommitmentFromRevealValue(rv) (ret, err)
//@   pure
//@   let code := uint(mhCode(unb64(rv)))
//@   let dg := mhDigest(unb64(rv))
//@   ensures [iff] (err == nil) == (b64ok(rv) && mhDecOK(unb64(rv)) && (code == 18 || code == 19) && digestOK(hashFor2(code)) &&
//@        mhEncOK(digest(hashFor2(code), dg), uint64(code)))
//@   ensures [value] err == nil ==> ret == b64(mhEnc(digest(hashFor2(code), dg), uint64(code)))

// the link between consecutive operations: the commitment derived from a key's
// reveal value is that key's commitment (both supported algorithms)
//@ lemma C04_link(k *jws.JWK, c uint)
//@   requires c == 18 || c == 19
//@   let rv := GetRevealValue(k, c)
//@   let cm := GetCommitment(k, c)
//@   let fr := GetCommitmentFromRevealValue(rv.ret)
//@   requires rv.err == nil && cm.err == nil
//@   ensures [link] fr.err == nil && fr.ret == cm.ret

// keys with different canonical forms have different commitments (given injectivity of the encodings and
// collision resistance, stated as hypotheses of the lemma, not proved)
//@ lemma C04_distinct(k1 *jws.JWK, k2 *jws.JWK, c uint)
//@   requires c == 18 || c == 19
//@   let c1 := GetCommitment(k1, c)
//@   let c2 := GetCommitment(k2, c)
//@   let b1 := string(canonicalizer.MarshalCanonical(k1).ret)
//@   let b2 := string(canonicalizer.MarshalCanonical(k2).ret)
//@   requires c1.err == nil && c2.err == nil
//@   requires commit(b1, c) == commit(b2, c) ==> b1 == b2
//@   ensures [distinct] b1 != b2 ==> c1.ret != c2.ret
