//go:build verif

// Contracts for package nsprovider (comment-only; read by /verif/govc).

package nsprovider

// C20: the namespace map is only touched while the provider's lock is held (read mode for lookups,
// write mode for registration), and each operation is one critical section
//@ guarded (Provider).clients by mutex

//@ func (m *Provider) Add(namespace, cvp)
//@   requires m != nil && m.clients != nil
//@   modifies mapcontent(m.clients)

//@ func (m *Provider) ForNamespace(namespace) (cvp, err)
//@   requires m != nil
//@   modifies nothing
