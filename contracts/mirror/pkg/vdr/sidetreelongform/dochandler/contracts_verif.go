//go:build verif

// Contracts for package dochandler (comment-only; read by /verif/govc).

package dochandler

// a handler built by New: the protocol client is set
//@ spec func wfHandler(r *DocumentHandler) bool = r != nil && r.protocolClient != nil

// C19: no input makes these entry points panic (safety obligations of the body); the only
// preconditions are about the handler object itself.
//@ func (r *DocumentHandler) ProcessOperation(operationBuffer) (ret, err)
//@   requires wfHandler(r)
//@   ensures [atomic] err != nil ==> ret == nil

//@ func (r *DocumentHandler) ResolveDocument(longFormDID, opts) (ret, err)
//@   requires wfHandler(r)
//@   ensures [atomic] err != nil ==> ret == nil
