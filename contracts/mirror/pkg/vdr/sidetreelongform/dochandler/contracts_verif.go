//go:build verif

// Contracts for package dochandler (comment-only; read by /verif/govc).

package dochandler

// a handler built by New: the protocol client is set
//@ spec func wfHandler(r *DocumentHandler) bool = r != nil && r.protocolClient != nil

// C19: no input makes these entry points panic (safety obligations of the body); the only
// preconditions are about the handler object itself.
//@ func (r *DocumentHandler) ProcessOperation(operationBuffer) (ret, err)
//@   requires wfHandler(r)
//@   ensures [atomic] err != nil ==> ret == nil

//@ func (r *DocumentHandler) ResolveDocument(longFormDID, opts) (ret, err)
//@   requires wfHandler(r)
//@   ensures [atomic] err != nil ==> ret == nil
// C17: a handler resolves only DIDs of its own namespace -- the namespace followed by the delimiter,
// so that a method whose name merely starts with this handler's name is refused
//@   ensures [own-namespace] err == nil ==> hasPrefix(longFormDID, r.namespace + ":")
// ... that are long-form: the text after the last delimiter is the unpadded base64url encoding of the
// canonical JSON of the create request it decodes to (a short-form DID, a tampered or re-encoded
// initial state are refused) ...
//@   ensures [initial-state] err == nil ==> old(initialStateOK(initialStateOf(longFormDID)))
// ... and whose suffix segment is the suffix of that very create request
//@   let pv, perr := r.protocolClient.Current()
//@   let short, req, derr := pv.OperationParser().ParseDID(r.namespace, longFormDID)
//@   let op, oerr := pv.OperationParser().Parse(r.namespace, req)
//@   let parts := strings.Split(longFormDID[0:strings.LastIndex(longFormDID, ":")], ":")
//@   ensures [suffix] err == nil ==> oerr == nil && len(parts) >= 3 && parts[len(parts)-1] == op.UniqueSuffix
