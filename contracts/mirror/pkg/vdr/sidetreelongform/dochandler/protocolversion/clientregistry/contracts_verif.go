//go:build verif

// Contracts for package clientregistry (comment-only; read by /verif/govc).

package clientregistry

// C20: the factory map is only touched while the registry's lock is held, and a registered version is
// never replaced (Register refuses a second registration): the absence check and the insertion share
// one critical section
//@ guarded (Registry).factories by mutex insertonly

// Register refuses a version that is already registered by panicking (a programming error of the
// caller, by design): the check and the insertion happen in one critical section
//@ func (r *Registry) Register(version, factory)
//@   panics
//@   requires r != nil && r.factories != nil
//@   modifies mapcontent(r.factories)

//@ func (r *Registry) resolveFactory(version) (f, err)
//@   requires r != nil
//@   modifies nothing

//@ func (r *Registry) CreateClientVersion(version, config) (v, err)
//@   requires r != nil
//@   modifies nothing

// the factories the registry hands out create a fresh client version and touch nothing else
// (checked on the one implementation, versions/1_0/client.(Factory).Create)
//@ func (f factory) Create(version, config) (v, err)
//@   modifies nothing
