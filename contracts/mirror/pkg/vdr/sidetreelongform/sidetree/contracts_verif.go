//go:build verif

// Contracts for package sidetree (the Sidetree client) (comment-only; read by /verif/govc).

package sidetree

// C08: the suffix a request is built for is the last segment of the DID handed to the client
// (whatever the namespace looks like: did:method:<suffix>, did:method:net:<suffix>, ...)
//@ func getUniqueSuffix(id) (suffix, err)
//@   modifies nothing
//@   ensures [iff] (err == nil) == (strings.LastIndex(id, ":") != -1)
//@   ensures [last-segment] err == nil ==> suffix == id[strings.LastIndex(id, ":")+1:]
