//go:build verif

// Contracts for package sidetreelongform (the long-form VDR) (comment-only; read by /verif/govc).

package sidetreelongform

// C20: the VDR holds configuration set at construction; its operations write only memory of the call.
// The document handler and the Sidetree client behind the two interfaces are the repository's own
// (dochandler.DocumentHandler, sidetree.Client): their operations write nothing that existed before.
//@ func (h sidetreeDocumentHandler) ResolveDocument(longFormDID, opts) (ret, err)
//@   modifies nothing
//@ func (h sidetreeDocumentHandler) ProcessOperation(operationBuffer) (ret, err)
//@   modifies nothing
//@ func (c sidetreeClient) CreateDID(opts) (ret, err)
//@   modifies nothing

//@ func (v *VDR) Read(longFormDID, opts) (ret, err)
//@   requires v != nil && v.sidetreeDocHandler != nil
//@   modifies nothing

//@ func (v *VDR) Accept(method, opts) (r)
//@   requires v != nil
//@   requires forall i int :: 0 <= i && i < len(opts) ==> opts[i] != nil
//@   modifies nothing

//@ func (v *VDR) sendRequest(req, getEndpoints) (ret, err)
//@   requires v != nil && v.sidetreeDocHandler != nil
//@   modifies nothing
