//go:build verif

// Contracts for package hashing (comment-only; read by /verif/govc).
// Vocabulary (digest, mhEnc, b64, ...) is declared in /verif/contracts/externals.spec.

package hashing

//@ spec func hashFor(code uint) crypto.Hash = ite(code == 18, crypto.SHA256, crypto.SHA512)
//@ spec func supportedCode(code uint) bool = code == 18 || code == 19
//
// mhash(c, code): the encoded model multihash of canonical bytes c
//@ spec func mhBytes(data string, code uint) string = mhEnc(digest(hashFor(code), data), uint64(code))
//@ spec func mhash(c string, code uint) string = b64(mhBytes(c, code))
//@ spec func decodable(s string) bool = b64ok(s) && mhDecOK(unb64(s))
//@ spec func codeOf(s string) uint64 = mhCode(unb64(s))

//@ func GetHashFromMultihash(multihashCode) (h, err)
//@   pure
//@   ensures [iff] (err == nil) == supportedCode(multihashCode)
//@   ensures [table] err == nil ==> h == hashFor(multihashCode)

// GetHash: a new hash object of the requested algorithm, the data written once, the digest read
// (hash objects carry ghost state: which algorithm, what was written -- see externals.spec)
//@ func GetHash(hash, data) (ret, err)
//@   pure
//@   ensures [iff] (err == nil) == digestOK(hash)
//@   ensures [value] err == nil ==> string(ret) == digest(hash, string(data))

//@ func ComputeMultihash(multihashCode, bytes) (ret, err)
//@   pure
//@   ensures [iff] (err == nil) == (supportedCode(multihashCode) && digestOK(hashFor(multihashCode)) &&
//@        mhEncOK(digest(hashFor(multihashCode), string(bytes)), uint64(multihashCode)))
//@   ensures [value] err == nil ==> string(ret) == mhBytes(string(bytes), multihashCode)

//@ func GetMultihash(encodedMultihash) (ret, err)
//@   pure
//@   ensures [iff] (err == nil) == decodable(encodedMultihash)
//@   ensures [value] err == nil ==> ret != nil && ret.Code == codeOf(encodedMultihash) && string(ret.Digest) == mhDigest(unb64(encodedMultihash))

//@ func GetMultihashCode(encodedMultihash) (code, err)
//@   pure
//@   ensures [iff] (err == nil) == decodable(encodedMultihash)
//@   ensures [value] err == nil ==> code == codeOf(encodedMultihash)

//@ func IsComputedUsingMultihashAlgorithms(encodedMultihash, codes) (r)
//@   pure
//@   ensures [iff] r == (decodable(encodedMultihash) && (exists i int :: 0 <= i && i < len(codes) && uint64(codes[i]) == codeOf(encodedMultihash)))
//@   loop 0 invariant forall j int :: 0 <= j && j < $k ==> uint64(codes[j]) != codeOf(encodedMultihash)

//@ func CalculateModelMultihash(value, alg) (ret, err)
//@   pure
//@   let cb, cerr := canonicalizer.MarshalCanonical(value)
//@   ensures [iff] (err == nil) == (cerr == nil && supportedCode(alg) && digestOK(hashFor(alg)) && mhEncOK(digest(hashFor(alg), string(cb)), uint64(alg)))
//@   ensures [value] err == nil ==> ret == mhash(string(cb), alg)

//@ func IsValidModelMultihash(model, modelMultihash) (err)
//@   pure
//@   let c, cerr := CalculateModelMultihash(model, uint(codeOf(modelMultihash)))
//@   ensures [iff] (err == nil) == (decodable(modelMultihash) && cerr == nil && c == modelMultihash)

// C06: validation against a hash computed from w succeeds exactly when v and w have the same
// canonical bytes. "<==" is congruence; "==>" needs injectivity of b64 . mhEnc . digest, which is
// collision resistance of the hash: a hypothesis of the lemma, not something decided here.
//@ lemma C06_iff(v interface{}, w interface{}, c uint)
//@   requires c == 18 || c == 19
//@   let h := CalculateModelMultihash(w, c)
//@   let cv := string(canonicalizer.MarshalCanonical(v).ret)
//@   let cw := string(canonicalizer.MarshalCanonical(w).ret)
//@   requires h.err == nil && canonicalizer.MarshalCanonical(v).err == nil
//@   requires mhash(cv, c) == mhash(cw, c) ==> cv == cw
//@   ensures [iff] (IsValidModelMultihash(v, h.ret) == nil) == (cv == cw)
//@   ensures [code] GetMultihashCode(h.ret).err == nil && GetMultihashCode(h.ret).code == uint64(c)
