//go:build verif

// Contracts for package hashing (comment-only; read by /verif/govc).

package hashing

//@ func IsValidModelMultihash(model, modelMultihash) (err)
//@   pure

//@ func IsComputedUsingMultihashAlgorithms(encodedMultihash, codes) (r)
//@   pure
//
//@ func GetMultihashCode(encodedMultihash) (code, err)
//@   pure
