//go:build verif

// Contracts for package protocol (comment-only; read by /verif/govc).

package protocol

//@ func (c DocumentComposer) ApplyPatches(doc, patches) (ret, err)
//@   pure
//@   ensures [atomic] err != nil ==> ret == nil
//@   ensures [nonnil] err == nil ==> ret != nil

// ---------------------------------------------------------------------------
// thin interface contracts used by the handlers (C19: results that are dereferenced are non-nil
// when no error is reported). The concrete implementations in this repository satisfy them:
// Applier.Apply#ensures[atomic], Parser.Parse#ensures[atomic], the transformers' own contracts;
// the Version / Client accessors return the objects stored at construction.
//
//@ func (c Client) Current() (v, err)
//@   pure
//@   ensures [nonnil] err == nil ==> v != nil
//
//@ func (v Version) OperationParser() (p)
//@   pure
//@   ensures [nonnil] p != nil
//@ func (v Version) OperationApplier() (a)
//@   pure
//@   ensures [nonnil] a != nil
//@ func (v Version) DocumentTransformer() (t)
//@   pure
//@   ensures [nonnil] t != nil
//@ func (v Version) DocumentValidator() (d)
//@   pure
//@   ensures [nonnil] d != nil
//@ func (v Version) Protocol() (p)
//@   pure
//@ func (v Version) Version() (s)
//@   pure
//
//@ func (p OperationParser) Parse(namespace, operation) (op, err)
//@   pure
//@   ensures [atomic] (err != nil ==> op == nil) && (err == nil ==> op != nil)
//@ func (p OperationParser) ParseDID(namespace, shortOrLongFormDID) (did, req, err)
//@   pure
// C17 (implied by [short-form] + [long-form] + [split] of the implementation, operationparser.(Parser).ParseDID):
// a create request comes back only for a DID whose last segment is an acceptable initial state, and
// the DID in front of that segment is returned with it
//@   ensures [initial-state] err == nil && req != nil ==> initialStateOK(initialStateOf(shortOrLongFormDID))
//@   ensures [split] err == nil && req != nil ==> did == shortOrLongFormDID[0:strings.LastIndex(shortOrLongFormDID, ":")]
//@ func (p OperationParser) GetRevealValue(operation) (rv, err)
//@   pure
//@ func (p OperationParser) GetCommitment(operation) (cm, err)
//@   pure
//
//@ func (a OperationApplier) Apply(op, rm) (ret, err)
//@   pure
//@   ensures [atomic] (err != nil ==> ret == nil) && (err == nil ==> ret != nil && ret.Doc != nil)
//
//@ func (t DocumentTransformer) TransformDocument(rm, info) (ret, err)
//@   pure
//@   ensures [atomic] (err != nil ==> ret == nil) && (err == nil ==> ret != nil)
