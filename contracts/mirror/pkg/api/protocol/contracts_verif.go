//go:build verif

// Contracts for package protocol (comment-only; read by /verif/govc).

package protocol

//@ func (c DocumentComposer) ApplyPatches(doc, patches) (ret, err)
//@   pure
//@   ensures [atomic] err != nil ==> ret == nil
//@   ensures [nonnil] err == nil ==> ret != nil
