//go:build verif

// Contracts for package canonicalizer (comment-only; read by /verif/govc).

package canonicalizer

//@ func MarshalCanonical(value) (ret, err)
//@   pure
