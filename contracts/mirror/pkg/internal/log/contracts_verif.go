//go:build verif

// Contracts for package log (pkg/internal/log) (comment-only; read by /verif/govc).

package log

// WithError reads err.Error(): callers pass the error they have just tested to be non-nil
//@ func WithError(err) (a)
//@   pure
//@   requires err != nil
