//go:build verif

// Contracts for package jsoncanonicalizer (comment-only; read by /verif/govc).

package jsoncanonicalizer

// Transform is a recursive-descent re-serialiser built from mutually recursive closures that are
// stored in local function variables, container/list and strings.Builder: it is outside the subset the
// VC generator accepts. Callers see it as a deterministic function of the bytes. Its behaviour is
// checked by bounded stand-ins only (C05: bounded/c05_jcs; C19: bounded/c19_fuzz).
//@ func Transform(jsonData) (result, e)
//@   pure
//@   trusted "outside the verified subset (closures in variables, mutual recursion); bounded stand-ins c05_jcs / c19_fuzz"

// C05 (proved part): the member-name comparator of the insertion sort, a closure of Transform
// (lexicographicallyPrecedes = the 14th function literal). It returns true exactly when the new
// key is strictly smaller than the list element's key in lexicographic order of 16-bit units,
// a proper prefix being smaller. (That the keys handed to it are the UTF-16 encodings of the member
// names, and the rest of the serialiser, are covered by the bounded stand-in c05_jcs only.)
//@ spec func keyLess(a []uint16, b []uint16) bool =
//@     (exists q int :: 0 <= q && q < len(a) && q < len(b) && a[q] < b[q] && (forall p int :: 0 <= p && p < q ==> a[p] == b[p])) ||
//@     (len(a) < len(b) && (forall p int :: 0 <= p && p < len(a) ==> a[p] == b[p]))
//
//@ func Transform$14(sortKey, e) (r)
//@   requires e != nil && typeis(e.Value, nameValueType) && setError != nil && deref(setError) != nil
//@   let oldKey := e.Value.(nameValueType).sortKey
//@   ensures [strict-order] r == old(keyLess(sortKey, oldKey))
//@   loop 0 invariant [prefix] 0 <= q && q <= minLength && (forall p int :: 0 <= p && p < q ==> sortKey[p] == oldKey[p])

// NumberToJSON indexes into the text returned by strconv.FormatFloat; that these indices are in range
// depends on the exact shape of FormatFloat's output ("d.ddde+dd", no leading zero, ...), which is not
// modelled. Checked by the bounded stand-in c05_jcs over a list of boundary doubles, not proved.
//@ func NumberToJSON(ieeeF64) (res, err)
//@   pure
//@   trusted "bounded: depends on the output shape of strconv.FormatFloat; checked by bounded/c05_jcs"
