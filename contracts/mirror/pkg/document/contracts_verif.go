//go:build verif

// Contracts for package document (comment-only; read by /verif/govc).
// The one-line accessors (ID, Type, stringEntry, ...) carry no contract: they are
// inlined into their callers by the verifier.

package document

// strEntry: what stringEntry(m[k]) evaluates to
//@ spec func strEntry(m map[string]interface{}, k string) string = ite(typeis(m[k], string), m[k].(string), "")

// StringArray keeps exactly the string entries of a []interface{} value, in order.
// Stated here: nothing for a non-list, never longer than the list, and equal to the list when
// every entry is a string (the filter itself is proved under C10).
//@ func StringArray(entry) (ret)
//@   pure
//@   ensures [nonlist] !typeis(entry, []interface{}) ==> len(ret) == 0
//@   ensures [bound] typeis(entry, []interface{}) ==> len(ret) <= len(entry.([]interface{}))
//@   ensures [strings] forall j int :: 0 <= j && j < len(ret) ==>
//@        (exists i int :: 0 <= i && i < len(entry.([]interface{})) && typeis(entry.([]interface{})[i], string) && entry.([]interface{})[i].(string) == ret[j])
//@   ensures [own] ret == nil || fresh(ret)
//@   loop 0 invariant [own] result == nil || fresh(result)
//@   loop 0 invariant len(result) <= $k && $k <= len(entries)
//@   loop 0 invariant forall j int :: 0 <= j && j < len(result) ==>
//@        (exists i int :: 0 <= i && i < $k && typeis(entries[i], string) && entries[i].(string) == result[j])

// the parsed lists are new slices (callers may edit them without touching the document)
//@ func ParsePublicKeys(entry) (ret)
//@   pure
//@   modifies nothing
//@   ensures [own] ret == nil || fresh(ret)
//@   loop 0 invariant [own] result == nil || fresh(result)
//
//@ func ParseServices(entry) (ret)
//@   pure
//@   modifies nothing
//@   ensures [own] ret == nil || fresh(ret)
//@   loop 0 invariant [own] result == nil || fresh(result)

//@ spec func docJWKValid(jwk JWK) bool =
//@     strEntry(jwk, "kty") != "" && ((strEntry(jwk, "kty") == "RSA" && strEntry(jwk, "n") != "" && strEntry(jwk, "e") != "") ||
//@        (strEntry(jwk, "kty") != "RSA" && strEntry(jwk, "crv") != "" && strEntry(jwk, "x") != ""))
//
//@ func (jwk JWK) Validate() (err)
//@   pure
//@   ensures [iff] (err == nil) == docJWKValid(jwk)
