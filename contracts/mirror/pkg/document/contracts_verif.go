//go:build verif

// Contracts for package document (comment-only; read by /verif/govc).
// The one-line accessors (ID, Type, stringEntry, ...) carry no contract: they are
// inlined into their callers by the verifier.

package document

// strEntry: what stringEntry(m[k]) evaluates to
//@ spec func strEntry(m map[string]interface{}, k string) string = ite(typeis(m[k], string), m[k].(string), "")

// StringArray keeps exactly the string entries of a []interface{} value, in order.
// Stated here: nothing for a non-list, never longer than the list, and equal to the list when
// every entry is a string (the filter itself is proved under C10).
//@ func StringArray(entry) (ret)
//@   pure
//@   ensures [nonlist] !typeis(entry, []interface{}) ==> len(ret) == 0
//@   ensures [bound] typeis(entry, []interface{}) ==> len(ret) <= len(entry.([]interface{}))
//@   ensures [strings] forall j int :: 0 <= j && j < len(ret) ==>
//@        (exists i int :: 0 <= i && i < len(entry.([]interface{})) && typeis(entry.([]interface{})[i], string) && entry.([]interface{})[i].(string) == ret[j])
//@   ensures [own] ret == nil || fresh(ret)
// C10: a list made of strings only is returned entry by entry, in order
//@   ensures [all] typeis(entry, []interface{}) && (forall i int :: 0 <= i && i < len(entry.([]interface{})) ==> typeis(entry.([]interface{})[i], string)) ==>
//@        len(ret) == len(entry.([]interface{})) && (forall i int :: 0 <= i && i < len(ret) ==> ret[i] == entry.([]interface{})[i].(string))
//@   loop 0 invariant [own] result == nil || fresh(result)
//@   loop 0 invariant len(result) <= $k && $k <= len(entries)
//@   loop 0 invariant [all] (forall i int :: 0 <= i && i < len(entries) ==> typeis(entries[i], string)) ==>
//@        len(result) == $k && (forall i int :: 0 <= i && i < $k ==> result[i] == entries[i].(string))
//@   loop 0 invariant forall j int :: 0 <= j && j < len(result) ==>
//@        (exists i int :: 0 <= i && i < $k && typeis(entries[i], string) && entries[i].(string) == result[j])

// the parsed lists are new slices (callers may edit them without touching the document)
//@ func ParsePublicKeys(entry) (ret)
//@   pure
//@   modifies nothing
//@   ensures [own] ret == nil || fresh(ret)
// C10: nothing for a non-list; a list made of objects only is returned entry by entry, in order
//@   ensures [nonlist] !typeis(entry, []interface{}) ==> len(ret) == 0
//@   ensures [all] typeis(entry, []interface{}) && (forall i int :: 0 <= i && i < len(entry.([]interface{})) ==> typeis(entry.([]interface{})[i], map[string]interface{})) ==>
//@        len(ret) == len(entry.([]interface{})) && (forall i int :: 0 <= i && i < len(ret) ==> ret[i] == PublicKey(entry.([]interface{})[i].(map[string]interface{})))
//@   loop 0 invariant [own] result == nil || fresh(result)
//@   loop 0 invariant [all] $k <= len(typedEntry) && ((forall i int :: 0 <= i && i < len(typedEntry) ==> typeis(typedEntry[i], map[string]interface{})) ==>
//@        len(result) == $k && (forall i int :: 0 <= i && i < $k ==> result[i] == PublicKey(typedEntry[i].(map[string]interface{}))))
//
//@ func ParseServices(entry) (ret)
//@   pure
//@   modifies nothing
//@   ensures [own] ret == nil || fresh(ret)
//@   ensures [nonlist] !typeis(entry, []interface{}) ==> len(ret) == 0
//@   ensures [all] typeis(entry, []interface{}) && (forall i int :: 0 <= i && i < len(entry.([]interface{})) ==> typeis(entry.([]interface{})[i], map[string]interface{})) ==>
//@        len(ret) == len(entry.([]interface{})) && (forall i int :: 0 <= i && i < len(ret) ==> ret[i] == Service(entry.([]interface{})[i].(map[string]interface{})))
//@   loop 0 invariant [own] result == nil || fresh(result)
//@   loop 0 invariant [all] $k <= len(typedEntry) && ((forall i int :: 0 <= i && i < len(typedEntry) ==> typeis(typedEntry[i], map[string]interface{})) ==>
//@        len(result) == $k && (forall i int :: 0 <= i && i < $k ==> result[i] == Service(typedEntry[i].(map[string]interface{}))))

//@ spec func docJWKValid(jwk JWK) bool =
//@     strEntry(jwk, "kty") != "" && ((strEntry(jwk, "kty") == "RSA" && strEntry(jwk, "n") != "" && strEntry(jwk, "e") != "") ||
//@        (strEntry(jwk, "kty") != "RSA" && strEntry(jwk, "crv") != "" && strEntry(jwk, "x") != ""))
//
//@ func (jwk JWK) Validate() (err)
//@   pure
//@   ensures [iff] (err == nil) == docJWKValid(jwk)
