//go:build verif

// Contracts for package patch (comment-only; read by /verif/govc).

package patch

//@ func (p Patch) GetAction() (action, err)
//@   pure
//
//@ func (p Patch) GetValue() (value, err)
//@   pure
