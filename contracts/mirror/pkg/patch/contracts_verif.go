//go:build verif

// Contracts for package patch (comment-only; read by /verif/govc).

package patch

// the value member each action carries (C14); "" for anything that is not one of the eight actions
//@ spec func valueKey(a Action) Key =
//@   ite(a == AddPublicKeys, PublicKeys, ite(a == RemovePublicKeys, IdsKey, ite(a == AddServiceEndpoints, ServicesKey,
//@   ite(a == RemoveServiceEndpoints, IdsKey, ite(a == JSONPatch, PatchesKey, ite(a == Replace, DocumentKey,
//@   ite(a == AddAlsoKnownAs, UrisKey, ite(a == RemoveAlsoKnownAs, UrisKey, Key("")))))))))
//@ spec func supported(a Action) bool = valueKey(a) != Key("")

// the action -> value member table is what valueKey says: filled by the package initialiser, never written afterwards
//@ global invariant [actionConfig] actionConfig != nil && (forall a Action :: has(actionConfig, a) <==> supported(a)) &&
//@        (forall a Action :: supported(a) ==> actionConfig[a] == valueKey(a))

// the action of a patch: the "action" member, as a string or as an Action, when it is one of the eight
//@ spec func actionOf(p Patch) Action =
//@   ite(typeis(p[ActionKey], Action), p[ActionKey].(Action), ite(typeis(p[ActionKey], string), Action(p[ActionKey].(string)), Action("")))

//@ func (p Patch) GetAction() (action, err)
//@   pure
//@   ensures [iff] (err == nil) == (has(p, ActionKey) && (typeis(p[ActionKey], Action) || typeis(p[ActionKey], string)) && supported(actionOf(p)))
//@   ensures [value] err == nil ==> action == actionOf(p)
//@   ensures [atomic] err != nil ==> action == Action("")

//@ func (p Patch) GetValue() (value, err)
//@   pure
//@   ensures [iff] (err == nil) == (p.GetAction().1 == nil && has(p, valueKey(p.GetAction().0)))
//@   ensures [value] err == nil ==> value == p[valueKey(p.GetAction().0)]

// C14: bytes are accepted as a patch only when they carry a supported action and that action's value member
//@ func FromBytes(data) (ret, err)
//@   modifies nothing
//@   ensures [atomic] (err != nil ==> ret == nil) && (err == nil ==> ret != nil)
//@   ensures [accessors] err == nil ==> ret.GetAction().1 == nil && ret.GetValue().1 == nil

// C14: a document that carries an id is refused
//@ func validateDocument(doc) (err)
//@   modifies nothing
//@   ensures [iff] (err == nil) == (document.strEntry(doc, "id") == "")

// C14: a replace document may hold the key list and the service list and nothing else
//@ func validateReplaceDocument(doc) (err)
//@   modifies nothing
//@   ensures [iff] (err == nil) == (forall k string :: has(doc, k) ==> k == "services" || k == "publicKeys")
//@   loop 0 invariant [seen] forall k string :: visited(k) ==> k == "services" || k == "publicKeys"

//@ func contains(keys, key) (r)
//@   pure
//@   ensures [iff] r == (exists i int :: 0 <= i && i < len(keys) && keys[i] == key)
//@   loop 0 invariant [none] forall i int :: 0 <= i && i < $k ==> keys[i] != key

// C14: the constructors build a patch that names their action and carries that action's value member
//@ func NewReplacePatch(doc) (ret, err)
//@   modifies nothing
//@   ensures [shape] err == nil ==> ret != nil && actionOf(ret) == Replace && has(ret, DocumentKey) && ret.GetAction().1 == nil && ret.GetValue().1 == nil
//@ func NewJSONPatch(patches) (ret, err)
//@   modifies nothing
//@   ensures [shape] err == nil ==> ret != nil && actionOf(ret) == JSONPatch && has(ret, PatchesKey) && ret.GetAction().1 == nil && ret.GetValue().1 == nil
//@ func NewAddPublicKeysPatch(publicKeys) (ret, err)
//@   modifies nothing
//@   ensures [shape] err == nil ==> ret != nil && actionOf(ret) == AddPublicKeys && has(ret, PublicKeys) && ret.GetAction().1 == nil && ret.GetValue().1 == nil
//@ func NewRemovePublicKeysPatch(publicKeyIds) (ret, err)
//@   modifies nothing
//@   ensures [shape] err == nil ==> ret != nil && actionOf(ret) == RemovePublicKeys && has(ret, IdsKey) && ret.GetAction().1 == nil && ret.GetValue().1 == nil
//@ func NewAddServiceEndpointsPatch(serviceEndpoints) (ret, err)
//@   modifies nothing
//@   ensures [shape] err == nil ==> ret != nil && actionOf(ret) == AddServiceEndpoints && has(ret, ServicesKey) && ret.GetAction().1 == nil && ret.GetValue().1 == nil
//@ func NewRemoveServiceEndpointsPatch(serviceEndpointIds) (ret, err)
//@   modifies nothing
//@   ensures [shape] err == nil ==> ret != nil && actionOf(ret) == RemoveServiceEndpoints && has(ret, IdsKey) && ret.GetAction().1 == nil && ret.GetValue().1 == nil
//@ func NewAddAlsoKnownAs(uris) (ret, err)
//@   modifies nothing
//@   ensures [shape] err == nil ==> ret != nil && actionOf(ret) == AddAlsoKnownAs && has(ret, UrisKey) && ret.GetAction().1 == nil && ret.GetValue().1 == nil
//@ func NewRemoveAlsoKnownAs(uris) (ret, err)
//@   modifies nothing
//@   ensures [shape] err == nil ==> ret != nil && actionOf(ret) == RemoveAlsoKnownAs && has(ret, UrisKey) && ret.GetAction().1 == nil && ret.GetValue().1 == nil

// C14: a document that carries an id is not turned into patches
//@ func PatchesFromDocument(doc) (ret, err)
//@   modifies nothing
//@   ensures [id-refused] err == nil ==> jsonDecodeErr(doc, document.Document) == nil &&
//@        !(jsonMapHas(doc, "id", document.Document) && typeis(jsonMapGet(doc, "id", document.Document), string) && jsonMapGet(doc, "id", document.Document).(string) != "")
