//go:build verif

// Contracts for package signutil (comment-only; read by /verif/govc).

package signutil

// a signer is asked for its headers and for signatures; it does not touch the model being signed
//@ func (s Signer) Headers() (h)
//@   pure
//@ func (s Signer) Sign(data) (sig, err)
//@   modifies nothing
