//go:build verif

// Contracts for package json (pkg/util/json) (comment-only; read by /verif/govc).

package json

// MarshalCanonical marshals, re-reads and re-marshals through package-level function values
// (marshalJSONMap, ...) that only the test exports (build tag `testing`) reassign; with the default
// values it is encoding/json. Its contract is assumed.
//@ func MarshalCanonical(v) (ret, err)
//@   pure
//@   trusted "encoding/json round trip through package-level function values that are never reassigned in production builds"
