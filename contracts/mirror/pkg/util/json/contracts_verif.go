//go:build verif

// Contracts for package json (pkg/util/json) (comment-only; read by /verif/govc).

package json

// MarshalCanonical marshals, re-reads and re-marshals through package-level function values
// (marshalJSONMap, ...) that only the test exports (build tag `testing`) reassign; the verifier
// resolves calls through such initialiser-only function variables to the function literal.
//@ func MarshalCanonical(v) (ret, err)
//@   pure
//@   modifies nothing

// the encode/decode hooks are set by the initialiser and (outside the `testing` build tag) never reassigned
//@ global invariant [hooks] marshalJSONMap != nil && unmarshalJSONMap != nil && unmarshalJSONArray != nil && marshalJSONArray != nil
