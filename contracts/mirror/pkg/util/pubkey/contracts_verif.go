//go:build verif

// Contracts for package pubkey (comment-only; read by /verif/govc).

package pubkey

// C16: only Ed25519, RSA and ECDSA public keys are converted; anything else is refused
//@ func GetPublicKeyJWK(pubKey) (ret, err)
//@   requires typeis(pubKey, *ecdsa.PublicKey) && pubKey.(*ecdsa.PublicKey) != nil && pubKey.(*ecdsa.PublicKey).Curve == elliptic.Curve(btcec.S256()) ==> jwsutil.fitsSecp256k1(pubKey.(*ecdsa.PublicKey))
//@   ensures [atomic] (err != nil ==> ret == nil) && (err == nil ==> ret != nil)
//@   ensures [kinds] err == nil ==> typeis(pubKey, ed25519.PublicKey) || typeis(pubKey, *rsa.PublicKey) || typeis(pubKey, *ecdsa.PublicKey)
