//go:build verif

// Contracts for package ecsigner (comment-only; read by /verif/govc).

package ecsigner

// C15: each half of an ECDSA signature is written at the curve's full byte width -- zero bytes in
// front, the value behind them
//@ func copyPadded(source, size) (dest)
//@   requires 0 <= size && size <= 4096 && len(source) <= size
//@   modifies nothing
//@   ensures [width] len(dest) == size
//@   ensures [padding] forall i int :: 0 <= i && i < size - len(source) ==> dest[i] == 0
//@   ensures [content] forall i int :: 0 <= i && i < len(source) ==> dest[size - len(source) + i] == source[i]

// a signature is r || s, each at the curve's byte width (so verifiers can split it in the middle);
// a signer without a key reports an error
//@ func (signer *Signer) Sign(msg) (sig, err)
//@   requires signer != nil
//@   requires signer.privateKey != nil ==> signer.privateKey.Curve != nil && 0 < signer.privateKey.Curve.Params().BitSize && signer.privateKey.Curve.Params().BitSize <= 4096
//@   ensures [nokey] signer.privateKey == nil ==> err != nil
//@   let bits := signer.privateKey.Curve.Params().BitSize
//@   ensures [width] err == nil ==> len(sig) == 2 * (bits / 8 + ite(bits % 8 > 0, 1, 0))
