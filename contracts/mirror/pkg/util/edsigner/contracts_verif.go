//go:build verif

// Contracts for package edsigner (comment-only; read by /verif/govc).

package edsigner

// C15: a signer whose private key does not have the Ed25519 size reports an error instead of signing
//@ func (signer *Signer) Sign(msg) (sig, err)
//@   requires signer != nil
//@   modifies nothing
//@   ensures [keysize] (err == nil) == (len(signer.privateKey) == 64)
