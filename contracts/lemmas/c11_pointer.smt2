; Lemma C11_pointer (solver string theory; not generated from code).
; For every JSON pointer p that the validator accepts (pointerOK: empty or starting with "/", and
; not starting with "/service" or "/publicKey"), the top-level member that json-patch v4.1.0
; resolves (findObject: split on "/", drop split[0], decodePatchKey of split[1]) is neither
; "publicKey" nor "service".
;
; decodePatchKey = strings.NewReplacer("~1","/","~0","~").Replace is axiomatised by the two facts
; used below (a token without "~" is unchanged; a token with "~" decodes to a string that still
; contains "~" or contains "/"). These two facts are assumptions about the library (spot-checked
; by the bounded stand-in c11_apply).
(set-logic ALL)
(declare-const p String)
(declare-fun decode (String) String)
; pointerOK(p), non-empty case (an empty pointer has no second segment: findObject returns no container)
(assert (str.prefixof "/" p))
(assert (not (str.prefixof "/service" p)))
(assert (not (str.prefixof "/publicKey" p)))
(define-fun rest () String (str.substr p 1 (- (str.len p) 1)))
(define-fun cut () Int (str.indexof rest "/" 0))
(define-fun tok () String (ite (< cut 0) rest (str.substr rest 0 cut)))
; assumed facts about decodePatchKey, instantiated at the token
(assert (=> (not (str.contains tok "~")) (= (decode tok) tok)))
(assert (=> (str.contains tok "~") (or (str.contains (decode tok) "~") (str.contains (decode tok) "/"))))
; negated goal
(assert (or (= (decode tok) "publicKey") (= (decode tok) "service")))
(check-sat)
