package pubkey

// Bounded stand-in (NOT a proof) for the cryptographic parts of C15 and C16, which run inside
// crypto/ecdsa, crypto/ed25519, btcec and go-jose:
//   C16  key -> JWK -> key round trip for Ed25519, P-256, P-384, P-521, secp256k1; kty / crv; every EC
//        coordinate at the curve's full byte width (keys with leading zero bytes are searched for);
//        wrong-width and off-curve JWKs are refused; commitments computed from the re-read key agree.
//   C15  compact JWS made with the library's signers verifies under the matching JWK and returns the
//        payload; it does not verify under another key (same and different type), nor after a
//        single-bit change of the header, payload or signature segment; wrong-length signatures,
//        unsupported key types and malformed compact forms give an error.
// Bound: per key type 6 random keys + keys whose x / y has a leading zero byte (found by scanning
// multiples of the generator), 4 payloads; quick tier: bit flips at every 5th bit of each segment,
// thorough tier: every bit.

import (
	"bytes"
	"crypto/ecdsa"
	"crypto/ed25519"
	"crypto/elliptic"
	"encoding/base64"
	"encoding/json"
	"fmt"
	"math/big"
	"math/rand"
	"os"
	"strings"
	"testing"

	"github.com/btcsuite/btcd/btcec/v2"

	"github.com/trustbloc/sidetree-go/pkg/commitment"
	"github.com/trustbloc/sidetree-go/pkg/jws"
	"github.com/trustbloc/sidetree-go/pkg/jwsutil"
	"github.com/trustbloc/sidetree-go/pkg/util/ecsigner"
	"github.com/trustbloc/sidetree-go/pkg/util/edsigner"
	"github.com/trustbloc/sidetree-go/pkg/util/signutil"
)

type kcReader struct{ r *rand.Rand }

func (c kcReader) Read(p []byte) (int, error) { return c.r.Read(p) }

func kcFail(id, format string, args ...interface{}) {
	fmt.Printf("BOUNDED-FAIL %s %s\n", id, strings.ReplaceAll(fmt.Sprintf(format, args...), "\n", " "))
}

type kcKey struct {
	name   string
	pub    interface{}
	signer signutil.Signer
	crv    string
	kty    string
	width  int
}

type kcCurve struct {
	name  string
	curve elliptic.Curve
	alg   string
	width int
}

var kcCurves = []kcCurve{
	{"P-256", elliptic.P256(), "ES256", 32},
	{"P-384", elliptic.P384(), "ES384", 48},
	{"P-521", elliptic.P521(), "ES512", 66},
	{"secp256k1", btcec.S256(), "ES256K", 32},
}

func kcECKey(c kcCurve, d *big.Int, label string) kcKey {
	x, y := c.curve.ScalarBaseMult(d.Bytes()) //nolint:staticcheck
	priv := &ecdsa.PrivateKey{PublicKey: ecdsa.PublicKey{Curve: c.curve, X: x, Y: y}, D: d}
	return kcKey{name: c.name + "/" + label, pub: &priv.PublicKey, signer: ecsigner.New(priv, c.alg, "kid"), crv: c.name, kty: "EC", width: c.width}
}

func kcKeys(r *rand.Rand) []kcKey {
	var out []kcKey
	for _, c := range kcCurves {
		n := c.curve.Params().N
		for i := 0; i < 6; i++ {
			d := new(big.Int).Rand(r, new(big.Int).Sub(n, big.NewInt(2)))
			d.Add(d, big.NewInt(1))
			out = append(out, kcECKey(c, d, fmt.Sprintf("random%d", i)))
		}
		// keys with a coordinate that needs leading zero bytes at full width
		gotX, gotY := false, false
		for k := int64(1); k < 4000 && !(gotX && gotY); k++ {
			d := big.NewInt(k)
			x, y := c.curve.ScalarBaseMult(d.Bytes()) //nolint:staticcheck
			if !gotX && len(x.Bytes()) < c.width {
				gotX = true
				out = append(out, kcECKey(c, d, fmt.Sprintf("short-x(k=%d,%d bytes)", k, len(x.Bytes()))))
			}
			if !gotY && len(y.Bytes()) < c.width {
				gotY = true
				out = append(out, kcECKey(c, d, fmt.Sprintf("short-y(k=%d,%d bytes)", k, len(y.Bytes()))))
			}
		}
	}
	for i := 0; i < 6; i++ {
		pub, priv, _ := ed25519.GenerateKey(kcReader{r})
		out = append(out, kcKey{name: fmt.Sprintf("Ed25519/random%d", i), pub: pub, signer: edsigner.New(priv, "EdDSA", "kid"), crv: "Ed25519", kty: "OKP", width: 32})
	}
	return out
}

func kcReadBack(j *jws.JWK) (interface{}, error) {
	b, err := json.Marshal(j)
	if err != nil {
		return nil, err
	}
	var ij jwsutil.JWK
	if err := ij.UnmarshalJSON(b); err != nil {
		return nil, err
	}
	return ij.Key, nil
}

func kcSameKey(a, b interface{}) bool {
	switch x := a.(type) {
	case *ecdsa.PublicKey:
		y, ok := b.(*ecdsa.PublicKey)
		return ok && x.X.Cmp(y.X) == 0 && x.Y.Cmp(y.Y) == 0 && x.Curve.Params().Name == y.Curve.Params().Name
	case ed25519.PublicKey:
		y, ok := b.(ed25519.PublicKey)
		return ok && bytes.Equal(x, y)
	}
	return false
}

func kcFlip(seg string, bit int) (string, bool) {
	raw, err := base64.RawURLEncoding.DecodeString(seg)
	if err != nil || bit >= 8*len(raw) {
		return "", false
	}
	raw[bit/8] ^= 1 << (bit % 8)
	return base64.RawURLEncoding.EncodeToString(raw), true
}

func kcSetup() ([]kcKey, int) {
	stride := 5
	if os.Getenv("VERIF_TIER") == "thorough" {
		stride = 1
	}
	seed := int64(1)
	fmt.Sscan(os.Getenv("VERIF_SEED"), &seed)
	return kcKeys(rand.New(rand.NewSource(seed))), stride
}

// C16
func TestVerifBoundedJWK(t *testing.T) {
	keys, _ := kcSetup()
	cases := 0
	jwks := make([]*jws.JWK, len(keys))
	short := 0
	for i, k := range keys {
		j, err := GetPublicKeyJWK(k.pub)
		cases++
		if err != nil {
			kcFail("c16.convert", "%s: %v", k.name, err)
			return
		}
		jwks[i] = j
		if j.Kty != k.kty || j.Crv != k.crv {
			kcFail("c16.names", "%s: kty %q crv %q, expected %q %q", k.name, j.Kty, j.Crv, k.kty, k.crv)
			return
		}
		xb, err1 := base64.RawURLEncoding.DecodeString(j.X)
		if err1 != nil || len(xb) != k.width {
			kcFail("c16.width", "%s: x has %d bytes (err %v), curve width is %d", k.name, len(xb), err1, k.width)
			return
		}
		if ec, ok := k.pub.(*ecdsa.PublicKey); ok {
			yb, err2 := base64.RawURLEncoding.DecodeString(j.Y)
			if err2 != nil || len(yb) != k.width {
				kcFail("c16.width", "%s: y has %d bytes (err %v), curve width is %d", k.name, len(yb), err2, k.width)
				return
			}
			if new(big.Int).SetBytes(xb).Cmp(ec.X) != 0 || new(big.Int).SetBytes(yb).Cmp(ec.Y) != 0 {
				kcFail("c16.value", "%s: coordinates in the JWK differ from the key", k.name)
				return
			}
			if xb[0] == 0 || yb[0] == 0 {
				short++
			}
		}
		if ec, ok := k.pub.(*ecdsa.PublicKey); ok && k.crv == "secp256k1" {
			// the compressed point of a key read from its JWK: 02/03 by the parity of y, then x at full width
			jb, _ := json.Marshal(j)
			var ij jwsutil.JWK
			if err := ij.UnmarshalJSON(jb); err != nil {
				kcFail("c16.bytes", "%s: %v", k.name, err)
				return
			}
			got, err := ij.PublicKeyBytes()
			want := make([]byte, 33)
			want[0] = 2 + byte(ec.Y.Bit(0))
			ec.X.FillBytes(want[1:])
			cases++
			if err != nil || !bytes.Equal(got, want) {
				kcFail("c16.bytes", "%s: PublicKeyBytes gives %x (err %v), the compressed point is %x", k.name, got, err, want)
				return
			}
		}
		back, err := kcReadBack(j)
		cases++
		if err != nil || !kcSameKey(k.pub, back) {
			kcFail("c16.roundtrip", "%s: reading the JWK back gives err=%v / a different key", k.name, err)
			return
		}
		j2, err := GetPublicKeyJWK(back)
		if err != nil || *j2 != *j {
			kcFail("c16.stable", "%s: JWK of the re-read key differs (err %v)", k.name, err)
			return
		}
		c1, e1 := commitment.GetCommitment(j, 18)
		c2, e2 := commitment.GetCommitment(j2, 18)
		rv1, e3 := commitment.GetRevealValue(j, 18)
		rv2, e4 := commitment.GetRevealValue(j2, 18)
		if e1 != nil || e2 != nil || e3 != nil || e4 != nil || c1 != c2 || rv1 != rv2 {
			kcFail("c16.commitment", "%s: commitment / reveal value differ between the key and its re-read copy", k.name)
			return
		}
		if k.kty == "OKP" {
			for name, xb2 := range map[string][]byte{"x one byte shorter": xb[:31], "x one byte longer": append(append([]byte{}, xb...), 0), "x of three bytes": xb[:3], "empty x": {}} {
				b := *j
				b.X = base64.RawURLEncoding.EncodeToString(xb2)
				cases++
				if _, err := kcReadBack(&b); err == nil {
					kcFail("c16.reject", "%s: Ed25519 JWK with %s is accepted", k.name, name)
					return
				}
			}
		}
		// wrong width / off curve
		if k.kty == "EC" {
			yb, _ := base64.RawURLEncoding.DecodeString(j.Y)
			bad := map[string]jws.JWK{}
			lo := *j
			lo.X = base64.RawURLEncoding.EncodeToString(append([]byte{0}, xb...))
			bad["x one byte longer"] = lo
			if xb[0] == 0 {
				st := *j
				st.X = base64.RawURLEncoding.EncodeToString(xb[1:])
				bad["x without its leading zero byte"] = st
			}
			if yb[0] == 0 {
				st := *j
				st.Y = base64.RawURLEncoding.EncodeToString(yb[1:])
				bad["y without its leading zero byte"] = st
			}
			off := *j
			yy := append([]byte{}, yb...)
			yy[len(yy)-1] ^= 1
			off.Y = base64.RawURLEncoding.EncodeToString(yy)
			bad["off-curve point"] = off
			tr := *j
			tr.X = base64.RawURLEncoding.EncodeToString(xb[:len(xb)-1])
			bad["x one byte shorter"] = tr
			for name, b := range bad {
				b := b
				cases++
				if _, err := kcReadBack(&b); err == nil {
					kcFail("c16.reject", "%s: JWK with %s is accepted", k.name, name)
					return
				}
			}
		}
	}
	if short < 8 {
		kcFail("c16.coverage", "only %d keys with a leading zero coordinate were exercised", short)
		return
	}
	fmt.Printf("BOUNDED-CASES %d\n", cases)
}

// C15
func TestVerifBoundedJWS(t *testing.T) {
	keys, stride := kcSetup()
	cases := 0
	jwks := make([]*jws.JWK, len(keys))
	for i, k := range keys {
		j, err := GetPublicKeyJWK(k.pub)
		if err != nil {
			kcFail("c15.setup", "%s: %v", k.name, err)
			return
		}
		jwks[i] = j
	}
	payloads := [][]byte{[]byte(`{"a":1}`), []byte("x"), bytes.Repeat([]byte{0xff, 0x00, 0x7f}, 50), []byte(`{"deltaHash":"EiA","recoveryKey":{"kty":"EC"}}`)}
	for i, k := range keys {
		if strings.Contains(k.name, "random") && !strings.HasSuffix(k.name, "random0") && !strings.HasSuffix(k.name, "random1") {
			continue
		}
		for pi, p := range payloads {
			compact, err := signutil.SignPayload(p, k.signer)
			cases++
			if err != nil {
				kcFail("c15.sign", "%s: %v", k.name, err)
				return
			}
			parsed, err := jwsutil.VerifyJWS(compact, jwks[i])
			if err != nil || !bytes.Equal(parsed.Payload, p) {
				kcFail("c15.verify", "%s payload %d: signature made by the library's signer does not verify under the matching JWK (err %v)", k.name, pi, err)
				return
			}
			if pi > 0 {
				continue
			}
			// other keys
			for o := range keys {
				if o == i {
					continue
				}
				cases++
				if _, err := jwsutil.VerifyJWS(compact, jwks[o]); err == nil {
					kcFail("c15.otherkey", "JWS signed with %s verifies under %s", k.name, keys[o].name)
					return
				}
			}
			// single-bit changes
			segs := strings.Split(compact, ".")
			for si := 0; si < 3; si++ {
				for bit := 0; ; bit += stride {
					alt, ok := kcFlip(segs[si], bit)
					if !ok {
						break
					}
					m := append([]string{}, segs...)
					m[si] = alt
					cases++
					if res, err := jwsutil.VerifyJWS(strings.Join(m, "."), jwks[i]); err == nil {
						// a header change that leaves the decoded header content the same JSON value is not a change of content
						kcFail("c15.tamper", "%s: JWS with bit %d of segment %d flipped still verifies (payload %q)", k.name, bit, si, res.Payload)
						return
					}
				}
			}
			// wrong signature length
			sig, _ := base64.RawURLEncoding.DecodeString(segs[2])
			for name, s2 := range map[string][]byte{"one byte short": sig[:len(sig)-1], "one byte long": append(append([]byte{}, sig...), 0), "leading zero added": append([]byte{0}, sig...)} {
				cases++
				if _, err := jwsutil.VerifyJWS(segs[0]+"."+segs[1]+"."+base64.RawURLEncoding.EncodeToString(s2), jwks[i]); err == nil {
					kcFail("c15.length", "%s: signature %s verifies", k.name, name)
					return
				}
			}
			// malformed compact forms
			for name, m := range map[string]string{
				"two segments": segs[0] + "." + segs[1], "four segments": compact + "." + segs[2], "empty signature": segs[0] + "." + segs[1] + ".",
				"empty payload": segs[0] + ".." + segs[2], "empty header": "." + segs[1] + "." + segs[2], "padded header": segs[0] + "=." + segs[1] + "." + segs[2],
				"json form": `{"payload":"` + segs[1] + `"}`, "empty": "", "std alphabet": strings.NewReplacer("-", "+", "_", "/").Replace(compact) + "+.",
			} {
				cases++
				if _, err := jwsutil.VerifyJWS(m, jwks[i]); err == nil {
					kcFail("c15.malformed", "%s: %s accepted", k.name, name)
					return
				}
			}
			// unsupported key type
			un := *jwks[i]
			un.Kty = "RSA"
			cases++
			if _, err := jwsutil.VerifyJWS(compact, &un); err == nil {
				kcFail("c15.kty", "%s: verifies with key type RSA", k.name)
				return
			}
		}
	}
	fmt.Printf("BOUNDED-CASES %d\n", cases)
}
