package doccomposer

// Bounded stand-in (NOT a proof) for C10: ApplyPatches against an independent reference model of the
// per-action semantics (left fold), plus uniqueness of ids.
// Bound: starting documents = every document reachable from the empty one by one replace patch over
// key ids {k1,k2,k3} (0..3 keys, two payload variants), service ids {s1,s2} (0..2 services), then
// sequences of 1..3 patches (quick: 1..2 exhaustively + seeded sample of length 3; thorough: all
// length-3 sequences) drawn from an alphabet of ~40 validated patches of all eight actions whose ids
// collide with, partially overlap, or miss the existing entries.

import (
	"encoding/json"
	"fmt"
	"math/rand"
	"os"
	"reflect"
	"strconv"
	"strings"
	"testing"

	"github.com/trustbloc/sidetree-go/pkg/document"
	"github.com/trustbloc/sidetree-go/pkg/patch"
	"github.com/trustbloc/sidetree-go/pkg/versions/1_0/operationparser/patchvalidator"
)

type cmEntry struct {
	id  string
	val map[string]interface{}
}

// reference model of a document
type cmDoc struct {
	keys  []cmEntry
	svcs  []cmEntry
	aka   []string
	hasK  bool // member present
	hasS  bool
	hasA  bool
	other map[string]interface{}
}

func cmFail(id, format string, args ...interface{}) {
	fmt.Printf("BOUNDED-FAIL %s %s\n", id, strings.ReplaceAll(fmt.Sprintf(format, args...), "\n", " "))
}

func cmKey(id string, variant int) map[string]interface{} {
	x := "PUymIqdtF_qxaAqPABSw-C-owT1KYYQbsMKFM-L9fJA"
	if variant == 1 {
		x = "o-7zraXKDaUN7_4WzfmAQp8Zzu53GsjmjIX9ENzJxk0"
	}
	return map[string]interface{}{
		"id": id, "type": "JsonWebKey2020", "purposes": []interface{}{"authentication"},
		"publicKeyJwk": map[string]interface{}{"kty": "EC", "crv": "P-256K", "x": x, "y": "nM84jDHCMOTGTh_ZdHq4dBBdo4Z5PkEOW9jA8z8IsGc"},
	}
}

func cmSvc(id string, variant int) map[string]interface{} {
	return map[string]interface{}{"id": id, "type": "type" + strconv.Itoa(variant), "serviceEndpoint": "https://example.com/" + strconv.Itoa(variant)}
}

func cmJSON(v interface{}) string {
	b, err := json.Marshal(v)
	if err != nil {
		panic(err)
	}
	return string(b)
}

func cmNorm(v interface{}) interface{} {
	var out interface{}
	if err := json.Unmarshal([]byte(cmJSON(v)), &out); err != nil {
		panic(err)
	}
	return out
}

type cmPatch struct {
	desc  string
	p     patch.Patch
	apply func(d *cmDoc)
}

func cmUpsert(list []cmEntry, add []cmEntry) []cmEntry {
	out := append([]cmEntry{}, list...)
	for _, a := range add {
		found := false
		for i := range out {
			if out[i].id == a.id {
				out[i] = a
				found = true
			}
		}
		if !found {
			out = append(out, a)
		}
	}
	return out
}

func cmRemove(list []cmEntry, ids []string) []cmEntry {
	var out []cmEntry
	for _, e := range list {
		drop := false
		for _, id := range ids {
			if id == e.id {
				drop = true
			}
		}
		if !drop {
			out = append(out, e)
		}
	}
	return out
}

func cmAlphabet() []cmPatch {
	var out []cmPatch
	must := func(p patch.Patch, err error) patch.Patch {
		if err != nil {
			panic(err)
		}
		if err := patchvalidator.Validate(p); err != nil {
			panic(fmt.Sprintf("alphabet patch does not validate: %v", err))
		}
		return p
	}
	entries := func(ids []string, variant int, mk func(string, int) map[string]interface{}) ([]cmEntry, string) {
		var es []cmEntry
		var raw []interface{}
		for _, id := range ids {
			m := mk(id, variant)
			es = append(es, cmEntry{id: id, val: cmNorm(m).(map[string]interface{})})
			raw = append(raw, m)
		}
		return es, cmJSON(raw)
	}
	for _, ids := range [][]string{{"k1"}, {"k2"}, {"k3"}, {"k1", "k2"}, {"k3", "k1"}, {"k4", "k2", "k5"}} {
		for variant := 0; variant < 2; variant++ {
			es, raw := entries(ids, variant, cmKey)
			out = append(out, cmPatch{desc: fmt.Sprintf("add-public-keys %v v%d", ids, variant), p: must(patch.NewAddPublicKeysPatch(raw)),
				apply: func(d *cmDoc) { d.keys = cmUpsert(d.keys, es); d.hasK = true }})
		}
	}
	for _, ids := range [][]string{{"k1"}, {"k2", "k9"}, {"k9"}, {"k3", "k1"}, {"k1", "k2", "k3"}} {
		ids := ids
		out = append(out, cmPatch{desc: fmt.Sprintf("remove-public-keys %v", ids), p: must(patch.NewRemovePublicKeysPatch(cmJSON(ids))),
			apply: func(d *cmDoc) { d.keys = cmRemove(d.keys, ids); d.hasK = true }})
	}
	for _, ids := range [][]string{{"s1"}, {"s2"}, {"s3", "s1"}} {
		for variant := 0; variant < 2; variant++ {
			es, raw := entries(ids, variant, cmSvc)
			out = append(out, cmPatch{desc: fmt.Sprintf("add-services %v v%d", ids, variant), p: must(patch.NewAddServiceEndpointsPatch(raw)),
				apply: func(d *cmDoc) { d.svcs = cmUpsert(d.svcs, es); d.hasS = true }})
		}
	}
	for _, ids := range [][]string{{"s1"}, {"s9"}, {"s2", "s1"}} {
		ids := ids
		out = append(out, cmPatch{desc: fmt.Sprintf("remove-services %v", ids), p: must(patch.NewRemoveServiceEndpointsPatch(cmJSON(ids))),
			apply: func(d *cmDoc) { d.svcs = cmRemove(d.svcs, ids); d.hasS = true }})
	}
	for _, uris := range [][]string{{"https://a.example"}, {"https://b.example", "https://a.example"}, {"https://c.example"}} {
		uris := uris
		out = append(out, cmPatch{desc: fmt.Sprintf("add-also-known-as %v", uris), p: must(patch.NewAddAlsoKnownAs(cmJSON(uris))),
			apply: func(d *cmDoc) {
				for _, u := range uris {
					have := false
					for _, e := range d.aka {
						if e == u {
							have = true
						}
					}
					if !have {
						d.aka = append(d.aka, u)
					}
				}
				d.hasA = true
			}})
		out = append(out, cmPatch{desc: fmt.Sprintf("remove-also-known-as %v", uris), p: must(patch.NewRemoveAlsoKnownAs(cmJSON(uris))),
			apply: func(d *cmDoc) {
				var keep []string
				for _, e := range d.aka {
					drop := false
					for _, u := range uris {
						if e == u {
							drop = true
						}
					}
					if !drop {
						keep = append(keep, e)
					}
				}
				d.aka = keep
				d.hasA = true
			}})
	}
	for _, cfg := range []struct {
		k []string
		s []string
	}{{[]string{"k7"}, nil}, {[]string{"k1", "k8"}, []string{"s1"}}, {nil, []string{"s7", "s8"}}} {
		ks, _ := entries(cfg.k, 1, cmKey)
		ss, _ := entries(cfg.s, 1, cmSvc)
		var kraw, sraw []interface{}
		for _, id := range cfg.k {
			kraw = append(kraw, cmKey(id, 1))
		}
		for _, id := range cfg.s {
			sraw = append(sraw, cmSvc(id, 1))
		}
		rd := map[string]interface{}{}
		if kraw != nil {
			rd["publicKeys"] = kraw
		}
		if sraw != nil {
			rd["services"] = sraw
		}
		hk, hs := kraw != nil, sraw != nil
		out = append(out, cmPatch{desc: fmt.Sprintf("replace keys=%v services=%v", cfg.k, cfg.s), p: must(patch.NewReplacePatch(cmJSON(rd))),
			apply: func(d *cmDoc) {
				*d = cmDoc{keys: ks, svcs: ss, hasK: hk, hasS: hs, other: map[string]interface{}{}}
			}})
	}
	// ietf-json-patch on other members
	out = append(out, cmPatch{desc: `json-patch add /note`, p: must(patch.NewJSONPatch(`[{"op":"add","path":"/note","value":{"a":[1,2]}}]`)),
		apply: func(d *cmDoc) { d.other["note"] = map[string]interface{}{"a": []interface{}{float64(1), float64(2)}} }})
	out = append(out, cmPatch{desc: `json-patch remove /note (fails when absent)`, p: must(patch.NewJSONPatch(`[{"op":"remove","path":"/note"}]`)),
		apply: func(d *cmDoc) {
			if _, ok := d.other["note"]; ok {
				delete(d.other, "note")
			} else {
				d.other = nil // marks: the patch is expected to fail
			}
		}})
	out = append(out, cmPatch{desc: `json-patch test+add /flag`, p: must(patch.NewJSONPatch(`[{"op":"add","path":"/flag","value":true},{"op":"test","path":"/flag","value":true}]`)),
		apply: func(d *cmDoc) { d.other["flag"] = true }})
	return out
}

func cmExpected(d *cmDoc) map[string]interface{} {
	m := map[string]interface{}{}
	for k, v := range d.other {
		m[k] = v
	}
	list := func(es []cmEntry) interface{} {
		if len(es) == 0 {
			return nil
		}
		var l []interface{}
		for _, e := range es {
			l = append(l, e.val)
		}
		return l
	}
	if d.hasK {
		m["publicKey"] = list(d.keys)
	}
	if d.hasS {
		m["service"] = list(d.svcs)
	}
	if d.hasA {
		if len(d.aka) == 0 {
			m["alsoKnownAs"] = nil
		} else {
			var l []interface{}
			for _, u := range d.aka {
				l = append(l, u)
			}
			m["alsoKnownAs"] = l
		}
	}
	return m
}

// an empty list and an absent / null member denote the same document content
func cmCanon(m map[string]interface{}) map[string]interface{} {
	out := map[string]interface{}{}
	for k, v := range m {
		if v == nil {
			continue
		}
		if l, ok := v.([]interface{}); ok && len(l) == 0 {
			continue
		}
		out[k] = v
	}
	return out
}

func cmUnique(doc document.Document, member string) (string, bool) {
	l, _ := doc[member].([]interface{})
	seen := map[string]bool{}
	for _, e := range l {
		m, _ := e.(map[string]interface{})
		id, _ := m["id"].(string)
		if seen[id] {
			return id, false
		}
		seen[id] = true
	}
	return "", true
}

func TestVerifBoundedCompose(t *testing.T) {
	seed, _ := strconv.ParseInt(os.Getenv("VERIF_SEED"), 10, 64)
	thorough := os.Getenv("VERIF_TIER") == "thorough"
	r := rand.New(rand.NewSource(seed))
	alpha := cmAlphabet()
	// starting documents: result of one replace patch (a document reachable from the empty one)
	type start struct {
		k []string
		s []string
		v int
	}
	var starts []start
	for _, k := range [][]string{nil, {"k1"}, {"k1", "k2"}, {"k2", "k1", "k3"}} {
		for _, s := range [][]string{nil, {"s1"}, {"s1", "s2"}} {
			starts = append(starts, start{k, s, 0})
		}
	}
	composer := New()
	cases := 0
	run := func(st start, seq []int) bool {
		model := &cmDoc{other: map[string]interface{}{}, hasK: true, hasS: true}
		var kraw, sraw []interface{}
		for _, id := range st.k {
			m := cmKey(id, st.v)
			kraw = append(kraw, m)
			model.keys = append(model.keys, cmEntry{id, cmNorm(m).(map[string]interface{})})
		}
		for _, id := range st.s {
			m := cmSvc(id, st.v)
			sraw = append(sraw, m)
			model.svcs = append(model.svcs, cmEntry{id, cmNorm(m).(map[string]interface{})})
		}
		rp, err := patch.NewReplacePatch(cmJSON(map[string]interface{}{"publicKeys": kraw, "services": sraw}))
		if err != nil {
			t.Fatal(err)
		}
		doc, err := composer.ApplyPatches(make(document.Document), []patch.Patch{rp})
		if err != nil {
			cmFail("start", "replace patch refused: %v", err)
			return false
		}
		var patches []patch.Patch
		var descs []string
		fails := false
		for _, i := range seq {
			patches = append(patches, alpha[i].p)
			descs = append(descs, alpha[i].desc)
			if !fails {
				alpha[i].apply(model)
				if model.other == nil {
					fails = true
				}
			}
		}
		before := cmJSON(doc)
		res, err := composer.ApplyPatches(doc, patches)
		cases++
		if cmJSON(doc) != before {
			cmFail("input-mutated", "ApplyPatches changed its input document; patches %v", descs)
			return false
		}
		if fails {
			if err == nil {
				cmFail("expected-error", "a json-patch that cannot apply was accepted; patches %v", descs)
				return false
			}
			return true
		}
		if err != nil {
			cmFail("refused", "start keys=%v services=%v patches %v: %v", st.k, st.s, descs, err)
			return false
		}
		got := cmCanon(cmNorm(res).(map[string]interface{}))
		want := cmCanon(cmNorm(cmExpected(model)).(map[string]interface{}))
		if !reflect.DeepEqual(got, want) {
			cmFail("semantics", "start keys=%v services=%v patches %v: got %s want %s", st.k, st.s, descs, cmJSON(got), cmJSON(want))
			return false
		}
		if id, ok := cmUnique(res, "publicKey"); !ok {
			cmFail("unique", "duplicate key id %q after %v", id, descs)
			return false
		}
		if id, ok := cmUnique(res, "service"); !ok {
			cmFail("unique", "duplicate service id %q after %v", id, descs)
			return false
		}
		return true
	}
	for _, st := range starts {
		for a := range alpha {
			if !run(st, []int{a}) {
				return
			}
			for b := range alpha {
				if !run(st, []int{a, b}) {
					return
				}
				if thorough {
					for c := range alpha {
						if !run(st, []int{a, b, c}) {
							return
						}
					}
				}
			}
		}
		if !thorough {
			for i := 0; i < 1500; i++ {
				if !run(st, []int{r.Intn(len(alpha)), r.Intn(len(alpha)), r.Intn(len(alpha))}) {
					return
				}
			}
		}
	}
	// RFC 6902 conformance of the operations on other members (each probe has its own id)
	probes := []struct {
		id, doc, ops string
		wantErr      bool
		want         string
	}{
		{"rfc6902.replace-missing", `{"a":1}`, `[{"op":"replace","path":"/note","value":"x"}]`, true, ""},
		{"rfc6902.replace-existing", `{"note":1}`, `[{"op":"replace","path":"/note","value":"x"}]`, false, `{"note":"x"}`},
		{"rfc6902.remove-missing", `{"a":1}`, `[{"op":"remove","path":"/note"}]`, true, ""},
		{"rfc6902.test-mismatch", `{"a":1}`, `[{"op":"test","path":"/a","value":2}]`, true, ""},
		{"rfc6902.test-match", `{"a":{"b":[1,2]}}`, `[{"op":"test","path":"/a","value":{"b":[1,2]}}]`, false, `{"a":{"b":[1,2]}}`},
		{"rfc6902.add-missing-parent", `{"a":1}`, `[{"op":"add","path":"/x/y","value":1}]`, true, ""},
		{"rfc6902.add-array-end", `{"a":[1]}`, `[{"op":"add","path":"/a/-","value":2}]`, false, `{"a":[1,2]}`},
		{"rfc6902.add-array-index", `{"a":[1,3]}`, `[{"op":"add","path":"/a/1","value":2}]`, false, `{"a":[1,2,3]}`},
		{"rfc6902.add-array-out-of-range", `{"a":[1]}`, `[{"op":"add","path":"/a/5","value":2}]`, true, ""},
		{"rfc6902.move", `{"a":{"b":1},"c":{}}`, `[{"op":"move","from":"/a/b","path":"/c/d"}]`, false, `{"a":{},"c":{"d":1}}`},
		{"rfc6902.move-missing-from", `{"a":1}`, `[{"op":"move","from":"/zz","path":"/c"}]`, true, ""},
		{"rfc6902.copy", `{"a":{"b":1}}`, `[{"op":"copy","from":"/a","path":"/c"}]`, false, `{"a":{"b":1},"c":{"b":1}}`},
		{"rfc6902.escape", `{"a/b":1,"m~n":2}`, `[{"op":"remove","path":"/a~1b"},{"op":"replace","path":"/m~0n","value":3}]`, false, `{"m~n":3}`},
		{"rfc6902.atomic", `{"a":1}`, `[{"op":"add","path":"/b","value":2},{"op":"test","path":"/a","value":9}]`, true, ""},
	}
	for _, pr := range probes {
		cases++
		doc, err := document.FromBytes([]byte(pr.doc))
		if err != nil {
			t.Fatal(err)
		}
		p, err := patch.NewJSONPatch(pr.ops)
		if err == nil {
			err = patchvalidator.Validate(p)
		}
		if err != nil {
			cmFail(pr.id+".setup", "probe patch %s does not validate: %v", pr.ops, err)
			continue
		}
		res, err := composer.ApplyPatches(doc, []patch.Patch{p})
		switch {
		case pr.wantErr && err == nil:
			cmFail(pr.id, "RFC 6902 requires %s to fail on %s; result %s", pr.ops, pr.doc, cmJSON(res))
		case !pr.wantErr && err != nil:
			cmFail(pr.id, "%s on %s refused: %v", pr.ops, pr.doc, err)
		case !pr.wantErr && !reflect.DeepEqual(cmNorm(res), cmNorm(json.RawMessage(pr.want))):
			cmFail(pr.id, "%s on %s gives %s, RFC 6902 gives %s", pr.ops, pr.doc, cmJSON(res), pr.want)
		}
	}
	fmt.Printf("BOUNDED-CASES %d\n", cases)
}
