package didtransformer

// Bounded stand-in (NOT a proof) for processKeys / processServices / TransformDocument:
// every internal key is emitted exactly once as a verification method (id, controller, type, material),
// referenced from exactly the relationships named by its purposes; every service is emitted with a
// qualified id and all its members; the context list is DID context (+ @base) + one context per key type
// in first-use order.
// Bound: all documents with 0..2 keys over 6 key types x 32 purpose subsets (quick tier: 1 key
// exhaustively + a seeded sample of 4000 two-key documents; thorough tier: all 36864 two-key documents),
// 0..2 services, @base on/off.

import (
	"fmt"
	"math/rand"
	"os"
	"reflect"
	"strconv"
	"testing"

	"github.com/btcsuite/btcutil/base58"
	"github.com/multiformats/go-multibase"

	"github.com/trustbloc/sidetree-go/pkg/api/operation"
	"github.com/trustbloc/sidetree-go/pkg/api/protocol"
	"github.com/trustbloc/sidetree-go/pkg/document"
	"github.com/trustbloc/sidetree-go/pkg/encoder"
	"github.com/trustbloc/sidetree-go/pkg/versions/1_0/doctransformer/doctransformer"
	"github.com/trustbloc/sidetree-go/pkg/versions/1_0/doctransformer/metadata"
)

var vbTypes = []string{"Bls12381G2Key2020", "JsonWebKey2020", "EcdsaSecp256k1VerificationKey2019", "X25519KeyAgreementKey2019", "Ed25519VerificationKey2018", "Ed25519VerificationKey2020"}
var vbPurposes = []string{"authentication", "assertionMethod", "keyAgreement", "capabilityDelegation", "capabilityInvocation"}
var vbRel = map[string]string{"authentication": "authentication", "assertionMethod": "assertionMethod", "keyAgreement": "keyAgreement",
	"capabilityDelegation": "capabilityDelegation", "capabilityInvocation": "capabilityInvocation"}

type vbKey struct {
	id    string
	typ   int
	pmask int
}

func vbEdBytes() []byte {
	b := make([]byte, 32)
	for i := range b {
		b[i] = byte(i + 1)
	}
	return b
}

func vbBuild(keys []vbKey, nsvc int) document.Document {
	doc := document.Document{}
	var pks []interface{}
	for _, k := range keys {
		var ps []interface{}
		for i, p := range vbPurposes {
			if k.pmask&(1<<i) != 0 {
				ps = append(ps, p)
			}
		}
		jwk := map[string]interface{}{"kty": "EC", "crv": "P-256", "x": "xx", "y": "yy"}
		if k.typ >= 4 {
			jwk = map[string]interface{}{"kty": "OKP", "crv": "Ed25519", "x": encoder.EncodeToString(vbEdBytes())}
		}
		pk := map[string]interface{}{"id": k.id, "type": vbTypes[k.typ], "publicKeyJwk": jwk}
		if len(ps) > 0 {
			pk["purposes"] = ps
		}
		pks = append(pks, pk)
	}
	if len(pks) > 0 {
		doc[document.PublicKeyProperty] = pks
	}
	var svcs []interface{}
	for i := 0; i < nsvc; i++ {
		svcs = append(svcs, map[string]interface{}{"id": "svc" + strconv.Itoa(i), "type": "T" + strconv.Itoa(i), "serviceEndpoint": "https://e" + strconv.Itoa(i) + ".example", "extra": float64(i)})
	}
	if len(svcs) > 0 {
		doc[document.ServiceProperty] = svcs
	}
	return doc
}

func vbCheck(keys []vbKey, nsvc int, base bool) string {
	did := "did:test:abc"
	tr := New(WithBase(base))
	rm := &protocol.ResolutionModel{Doc: vbBuild(keys, nsvc)}
	info := protocol.TransformationInfo{document.IDProperty: did, document.PublishedProperty: true}
	res, err := tr.TransformDocument(rm, info)
	if err != nil {
		return "unexpected error: " + err.Error()
	}
	out := document.DidDocumentFromJSONLDObject(res.Document)
	oid := func(id string) interface{} {
		if base {
			return "#" + id
		}
		return did + "#" + id
	}
	vms, _ := out[document.VerificationMethodProperty].([]document.PublicKey)
	if len(vms) != len(keys) {
		return fmt.Sprintf("%d verification methods for %d keys", len(vms), len(keys))
	}
	for i, k := range keys {
		vm := vms[i]
		if vm[document.IDProperty] != oid(k.id) {
			return fmt.Sprintf("key %d id %v", i, vm[document.IDProperty])
		}
		if vm[document.ControllerProperty] != did {
			return fmt.Sprintf("key %d controller %v", i, vm[document.ControllerProperty])
		}
		if vm[document.TypeProperty] != vbTypes[k.typ] {
			return fmt.Sprintf("key %d type %v", i, vm[document.TypeProperty])
		}
		switch k.typ {
		case 4:
			if vm[document.PublicKeyBase58Property] != base58.Encode(vbEdBytes()) || vm[document.PublicKeyJwkProperty] != nil {
				return fmt.Sprintf("key %d: 2018 key not converted to base58", i)
			}
		case 5:
			mb, _ := multibase.Encode(multibase.Base58BTC, vbEdBytes())
			if vm[document.PublicKeyMultibaseProperty] != mb || vm[document.PublicKeyJwkProperty] != nil {
				return fmt.Sprintf("key %d: 2020 key not converted to multibase", i)
			}
		default:
			j, ok := vm[document.PublicKeyJwkProperty].(document.JWK)
			if !ok || j.Crv() != "P-256" || j.X() != "xx" || j.Y() != "yy" {
				return fmt.Sprintf("key %d: JWK not preserved", i)
			}
		}
		for m := range vm {
			switch m {
			case document.IDProperty, document.ControllerProperty, document.TypeProperty, document.PublicKeyJwkProperty, document.PublicKeyBase58Property, document.PublicKeyMultibaseProperty:
			default:
				return fmt.Sprintf("key %d: unexpected member %s", i, m)
			}
		}
	}
	for pi, p := range vbPurposes {
		var want []interface{}
		for _, k := range keys {
			if k.pmask&(1<<pi) != 0 {
				want = append(want, oid(k.id))
			}
		}
		got, present := out[vbRel[p]]
		if len(want) == 0 {
			if present {
				return "relationship " + p + " present without keys"
			}
			continue
		}
		if !reflect.DeepEqual(got, want) {
			return fmt.Sprintf("relationship %s = %v, want %v", p, got, want)
		}
	}
	// contexts
	wantCtx := []interface{}{didContext}
	if base {
		wantCtx = append(wantCtx, nil) // placeholder for @base object
	}
	seen := map[string]bool{}
	for _, k := range keys {
		c := defaultKeyContextMap[vbTypes[k.typ]]
		if !seen[c] {
			seen[c] = true
			wantCtx = append(wantCtx, c)
		}
	}
	gotCtx, _ := out[document.ContextProperty].([]interface{})
	if len(gotCtx) != len(wantCtx) {
		return fmt.Sprintf("context list %v", gotCtx)
	}
	for i := range wantCtx {
		if wantCtx[i] == nil {
			continue
		}
		if gotCtx[i] != wantCtx[i] {
			return fmt.Sprintf("context[%d] = %v, want %v", i, gotCtx[i], wantCtx[i])
		}
	}
	// services
	svcs, _ := out[document.ServiceProperty].([]document.Service)
	if len(svcs) != nsvc {
		return fmt.Sprintf("%d services for %d", len(svcs), nsvc)
	}
	for i, s := range svcs {
		if s[document.IDProperty] != oid("svc"+strconv.Itoa(i)) || s[document.TypeProperty] != "T"+strconv.Itoa(i) ||
			s[document.ServiceEndpointProperty] != "https://e"+strconv.Itoa(i)+".example" || s["extra"] != float64(i) || len(s) != 4 {
			return fmt.Sprintf("service %d = %v", i, s)
		}
	}
	if out[document.IDProperty] != did {
		return "document id"
	}
	return ""
}

// results of earlier transformations stay valid: a shared transformer with two method contexts
// transforms document after document; the previous result's context list must not change.
var vbShared = map[bool]*Transformer{}
var vbPrevCtx []interface{}
var vbPrevCopy []interface{}

func vbCheckShared(keys []vbKey, nsvc int, base bool) string {
	tr := vbShared[base]
	if tr == nil {
		tr = New(WithBase(base), WithMethodContext([]string{"https://m1.example", "https://m2.example"}))
		vbShared[base] = tr
	}
	rm := &protocol.ResolutionModel{Doc: vbBuild(keys, nsvc)}
	info := protocol.TransformationInfo{document.IDProperty: "did:test:abc", document.PublishedProperty: true}
	res, err := tr.TransformDocument(rm, info)
	if err != nil {
		return "unexpected error: " + err.Error()
	}
	if vbPrevCtx != nil {
		for i := range vbPrevCopy {
			if _, isStr := vbPrevCopy[i].(string); isStr && vbPrevCtx[i] != vbPrevCopy[i] {
				return fmt.Sprintf("context list of the previous result changed at %d: %v -> %v", i, vbPrevCopy[i], vbPrevCtx[i])
			}
		}
	}
	ctx, _ := res.Document[document.ContextProperty].([]interface{})
	vbPrevCtx = ctx
	vbPrevCopy = append([]interface{}{}, ctx...)
	return ""
}

func TestVerifBoundedTransform(t *testing.T) {
	seed, _ := strconv.ParseInt(os.Getenv("VERIF_SEED"), 10, 64)
	thorough := os.Getenv("VERIF_TIER") == "thorough"
	cases := 0
	run := func(keys []vbKey, nsvc int, base bool) bool {
		cases++
		msg := vbCheck(keys, nsvc, base)
		if msg == "" {
			msg = vbCheckShared(keys, nsvc, base)
		}
		if msg != "" {
			fmt.Printf("BOUNDED-FAIL keys-%v-svc%d-base%v %s\n", keys, nsvc, base, msg)
			t.Fail()
			return false
		}
		return true
	}
	for _, base := range []bool{false, true} {
		for nsvc := 0; nsvc <= 2; nsvc++ {
			if !run(nil, nsvc, base) {
				return
			}
		}
		for ty := 0; ty < 6; ty++ {
			for pm := 0; pm < 32; pm++ {
				if !run([]vbKey{{"k1", ty, pm}}, pm%3, base) {
					return
				}
			}
		}
	}
	if thorough {
		for t1 := 0; t1 < 6; t1++ {
			for p1 := 0; p1 < 32; p1++ {
				for t2 := 0; t2 < 6; t2++ {
					for p2 := 0; p2 < 32; p2++ {
						if !run([]vbKey{{"k1", t1, p1}, {"k2", t2, p2}}, (p1+p2)%3, (t1+p2)%2 == 0) {
							return
						}
					}
				}
			}
		}
	} else {
		r := rand.New(rand.NewSource(seed))
		for i := 0; i < 4000; i++ {
			if !run([]vbKey{{"k1", r.Intn(6), r.Intn(32)}, {"k2", r.Intn(6), r.Intn(32)}}, r.Intn(3), r.Intn(2) == 0) {
				return
			}
		}
	}
	// ---- the two "include operations" options of both transformers are independent: the method
	// metadata lists the published / unpublished operations exactly when the respective option is on
	for _, incPub := range []bool{false, true} {
		for _, incUnpub := range []bool{false, true} {
			for _, which := range []string{"did", "doc"} {
				mkModel := func() *protocol.ResolutionModel {
					return &protocol.ResolutionModel{Doc: document.Document{}, RecoveryCommitment: "rc", UpdateCommitment: "uc",
						PublishedOperations: []*operation.AnchoredOperation{
							{Type: operation.TypeCreate, UniqueSuffix: "sfx", CanonicalReference: "ref1", TransactionTime: 1, TransactionNumber: 1},
							{Type: operation.TypeUpdate, UniqueSuffix: "sfx", CanonicalReference: "ref2", TransactionTime: 2, TransactionNumber: 1}},
						UnpublishedOperations: []*operation.AnchoredOperation{{Type: operation.TypeUpdate, UniqueSuffix: "sfx", TransactionTime: 3}}}
				}
				info := protocol.TransformationInfo{document.IDProperty: "did:ex:sfx", document.PublishedProperty: true}
				var res *document.ResolutionResult
				var err error
				if which == "did" {
					res, err = New(WithIncludePublishedOperations(incPub), WithIncludeUnpublishedOperations(incUnpub)).TransformDocument(mkModel(), info)
				} else {
					res, err = doctransformer.New(doctransformer.WithIncludePublishedOperations(incPub), doctransformer.WithIncludeUnpublishedOperations(incUnpub)).TransformDocument(mkModel(), info)
				}
				cases++
				if err != nil {
					fmt.Printf("BOUNDED-FAIL options-%s-%v-%v transformation failed: %v\n", which, incPub, incUnpub, err)
					return
				}
				mm, _ := res.DocumentMetadata[document.MethodProperty].(document.Metadata)
				pubE, hasPub := mm[document.PublishedOperationsProperty]
				unpE, hasUnp := mm[document.UnpublishedOperationsProperty]
				nPub, nUnp := 0, 0
				if v, ok := pubE.([]*metadata.PublishedOperation); ok {
					nPub = len(v)
				}
				if v, ok := unpE.([]*metadata.UnpublishedOperation); ok {
					nUnp = len(v)
				}
				if hasPub != incPub || hasUnp != incUnpub || (incPub && nPub != 2) || (incUnpub && nUnp != 1) {
					fmt.Printf("BOUNDED-FAIL options-%s-%v-%v published operations listed: %v (%d), unpublished listed: %v (%d)\n", which, incPub, incUnpub, hasPub, nPub, hasUnp, nUnp)
					return
				}
			}
		}
	}
	fmt.Printf("BOUNDED-CASES %d\n", cases)
}
