package jsoncanonicalizer

// Bounded stand-in (NOT a proof) for C05 (RFC 8785 / JCS). The parser is a set of mutually recursive
// function literals held in variables and the number formatter post-processes strconv.FormatFloat
// text: both are outside what the contract verifier can reach (the member-order comparator is proved).
// Checked here:
//   numbers   RFC 8785 appendix B vectors; for seeded random doubles (all exponents, subnormals,
//             integers around 2^53 and 1e21, powers of ten): the text parses back to the same double,
//             has as few digits as the shortest round-trip representation, and follows the ES6 layout
//   strings   every code point class: control characters (\b \f \n \r \t, lower-case \u00xx), quote,
//             backslash, DEL, Latin-1, BMP, surrogate pairs; escapes given as \uXXXX in either case
//   objects   member order by UTF-16 code units, including names whose UTF-16 order differs from
//             code-point order (U+FB33 vs U+1F600), the RFC 8785 sorting example
//   values    random nested values (depth <= 4) in several surface spellings (member order,
//             whitespace, escape style, number spelling): all spellings give identical bytes, the
//             output is a fixed point, denotes the same value, and contains no insignificant whitespace
// Bound: quick 20000 random doubles and 2000 random values x 4 spellings; thorough 200000 and 6000.

import (
	"bytes"
	"encoding/json"
	"fmt"
	"math"
	"math/rand"
	"os"
	"reflect"
	"sort"
	"strconv"
	"strings"
	"testing"
	"unicode/utf16"
)

func jcFail(id, format string, args ...interface{}) {
	fmt.Printf("BOUNDED-FAIL %s %s\n", id, strings.ReplaceAll(fmt.Sprintf(format, args...), "\n", " "))
}

var jcVectors = []struct{ bits, want string }{
	{"0000000000000000", "0"}, {"8000000000000000", "0"}, {"0000000000000001", "5e-324"}, {"8000000000000001", "-5e-324"},
	{"7fefffffffffffff", "1.7976931348623157e+308"}, {"ffefffffffffffff", "-1.7976931348623157e+308"},
	{"4340000000000000", "9007199254740992"}, {"c340000000000000", "-9007199254740992"}, {"4430000000000000", "295147905179352830000"},
	{"44b52d02c7e14af5", "9.999999999999997e+22"}, {"44b52d02c7e14af6", "1e+23"}, {"44b52d02c7e14af7", "1.0000000000000001e+23"},
	{"444b1ae4d6e2ef4e", "999999999999999700000"}, {"444b1ae4d6e2ef4f", "999999999999999900000"}, {"444b1ae4d6e2ef50", "1e+21"},
	{"3eb0c6f7a0b5ed8c", "9.999999999999997e-7"}, {"3eb0c6f7a0b5ed8d", "0.000001"},
	{"41b3de4355555553", "333333333.3333332"}, {"41b3de4355555554", "333333333.33333325"}, {"41b3de4355555555", "333333333.3333333"},
	{"41b3de4355555556", "333333333.3333334"}, {"41b3de4355555557", "333333333.33333343"},
	{"becbf647612f3696", "-0.0000033333333333333333"}, {"43143ff3c1cb0959", "1424953923781206.2"},
	{"3ff0000000000000", "1"}, {"4024000000000000", "10"}, {"3fb999999999999a", "0.1"}, {"4197d78400000000", "100000000"},
}

func jcDigits(s string) string {
	s = strings.TrimPrefix(s, "-")
	if i := strings.IndexAny(s, "eE"); i >= 0 {
		s = s[:i]
	}
	s = strings.Replace(s, ".", "", 1)
	s = strings.TrimLeft(s, "0")
	return strings.TrimRight(s, "0")
}

func jcCheckNumber(x float64) string {
	s, err := NumberToJSON(x)
	if err != nil {
		return fmt.Sprintf("finite double %x refused: %v", math.Float64bits(x), err)
	}
	back, perr := strconv.ParseFloat(s, 64)
	if perr != nil || (back != x && !(x == 0 && back == 0)) {
		return fmt.Sprintf("%x formats as %q which parses back to %v", math.Float64bits(x), s, back)
	}
	if x == 0 {
		if s != "0" {
			return fmt.Sprintf("zero %x formats as %q", math.Float64bits(x), s)
		}
		return ""
	}
	short := jcDigits(strconv.FormatFloat(x, 'e', -1, 64))
	if len(jcDigits(s)) != len(short) {
		return fmt.Sprintf("%x formats as %q with %d significant digits, the shortest round-trip form has %d", math.Float64bits(x), s, len(jcDigits(s)), len(short))
	}
	// ES6 layout
	a := math.Abs(x)
	hasExp := strings.ContainsAny(s, "eE")
	if (a >= 1e21 || a < 1e-6) != hasExp {
		return fmt.Sprintf("%x formats as %q: exponent form is for |x| >= 1e21 or < 1e-6 only", math.Float64bits(x), s)
	}
	if hasExp {
		i := strings.Index(s, "e")
		if i < 0 || (s[i+1] != '+' && s[i+1] != '-') || s[i+2] == '0' || strings.HasSuffix(s[:i], ".") || strings.HasSuffix(s[:i], "0") && strings.Contains(s[:i], ".") {
			return fmt.Sprintf("%x formats as %q: not the ES6 exponent layout", math.Float64bits(x), s)
		}
	} else if strings.Contains(s, ".") && strings.HasSuffix(s, "0") {
		return fmt.Sprintf("%x formats as %q: trailing zero", math.Float64bits(x), s)
	}
	if strings.HasPrefix(strings.TrimPrefix(s, "-"), "0") && !strings.HasPrefix(strings.TrimPrefix(s, "-"), "0.") {
		return fmt.Sprintf("%x formats as %q: leading zero", math.Float64bits(x), s)
	}
	return ""
}

// ---- value generator and reference encoder

var jcRunes = []rune{'a', 'Z', '0', ' ', '"', '\\', '/', '\b', '\f', '\n', '\r', '\t', 0x00, 0x01, 0x1f, 0x7f, 0x80, 0xe9, 0x20ac, 0xd7ff, 0xe000, 0xfb33, 0xfffd, 0xffff, 0x10000, 0x1f600, 0x10ffff, '<', '>', '&', 0x2028, 0x2029, 0x85, 0xa0, 0xfeff}

func jcString(r *rand.Rand) string {
	n := r.Intn(5)
	var sb strings.Builder
	for i := 0; i < n; i++ {
		sb.WriteRune(jcRunes[r.Intn(len(jcRunes))])
	}
	return sb.String()
}

var jcNumbers = []float64{0, 1, -1, 10, 0.1, 1.5, 1e21, 1e-7, 123456789012, 4.5e-5, -2.5e+30, 9007199254740993, 5e-324, 1.7976931348623157e308, 333333333.33333329}

func jcValue(r *rand.Rand, depth int) interface{} {
	k := r.Intn(7)
	if depth >= 4 && k >= 5 {
		k = r.Intn(5)
	}
	switch k {
	case 0:
		return nil
	case 1:
		return r.Intn(2) == 0
	case 2:
		if r.Intn(3) == 0 {
			return math.Float64frombits(r.Uint64()&^(0x7ff<<52) | uint64(r.Intn(2046)+1)<<52)
		}
		return jcNumbers[r.Intn(len(jcNumbers))]
	case 3, 4:
		return jcString(r)
	case 5:
		n := r.Intn(4)
		l := make([]interface{}, n)
		for i := range l {
			l[i] = jcValue(r, depth+1)
		}
		return l
	default:
		n := r.Intn(4)
		m := map[string]interface{}{}
		for i := 0; i < n; i++ {
			m[jcString(r)] = jcValue(r, depth+1)
		}
		return m
	}
}

// jcEncodeString writes a JSON string in a chosen escape style (0: minimal, 1: everything \uXXXX upper
// case, 2: mixed, lower case hex, escaped solidus)
func jcEncodeString(s string, style int, r *rand.Rand) string {
	var sb strings.Builder
	sb.WriteByte('"')
	for _, c := range s {
		esc := style == 1 || (style == 2 && r.Intn(2) == 0) || c < 0x20 || c == '"' || c == '\\'
		switch {
		case !esc:
			sb.WriteRune(c)
		case style != 1 && c == '"':
			sb.WriteString(`\"`)
		case style != 1 && c == '\\':
			sb.WriteString(`\\`)
		case style == 2 && c == '/':
			sb.WriteString(`\/`)
		case style == 2 && c == '\n':
			sb.WriteString(`\n`)
		default:
			for _, u := range utf16.Encode([]rune{c}) {
				if style == 1 {
					sb.WriteString(fmt.Sprintf(`\u%04X`, u))
				} else {
					sb.WriteString(fmt.Sprintf(`\u%04x`, u))
				}
			}
		}
	}
	sb.WriteByte('"')
	return sb.String()
}

func jcNumberSpelling(x float64, style int) string {
	switch style {
	case 1:
		return strconv.FormatFloat(x, 'e', -1, 64)
	case 2:
		s := strconv.FormatFloat(x, 'E', 20, 64)
		return s
	case 3:
		if x == math.Trunc(x) && math.Abs(x) < 1e15 {
			return strconv.FormatFloat(x, 'f', 3, 64)
		}
		return strconv.FormatFloat(x, 'g', -1, 64)
	}
	return strconv.FormatFloat(x, 'g', -1, 64)
}

func jcEncode(v interface{}, style int, r *rand.Rand) string {
	ws := func() string {
		if style == 0 {
			return ""
		}
		return []string{"", " ", "\n", "\t \r\n"}[r.Intn(4)]
	}
	switch x := v.(type) {
	case nil:
		return "null"
	case bool:
		return strconv.FormatBool(x)
	case float64:
		return jcNumberSpelling(x, style)
	case string:
		return jcEncodeString(x, style%3, r)
	case []interface{}:
		parts := make([]string, len(x))
		for i, e := range x {
			parts[i] = ws() + jcEncode(e, style, r) + ws()
		}
		return "[" + ws() + strings.Join(parts, ",") + "]"
	case map[string]interface{}:
		keys := make([]string, 0, len(x))
		for k := range x {
			keys = append(keys, k)
		}
		sort.Strings(keys)
		if style != 0 {
			r.Shuffle(len(keys), func(i, j int) { keys[i], keys[j] = keys[j], keys[i] })
		}
		parts := make([]string, len(keys))
		for i, k := range keys {
			parts[i] = ws() + jcEncodeString(k, style%3, r) + ws() + ":" + ws() + jcEncode(x[k], style, r)
		}
		return "{" + strings.Join(parts, ",") + ws() + "}"
	}
	panic("unreachable")
}

func jcUTF16Less(a, b string) bool {
	x, y := utf16.Encode([]rune(a)), utf16.Encode([]rune(b))
	for i := 0; i < len(x) && i < len(y); i++ {
		if x[i] != y[i] {
			return x[i] < y[i]
		}
	}
	return len(x) < len(y)
}

// jcStructure walks canonical output: members sorted by UTF-16, no whitespace outside strings, only the
// mandated escapes inside strings
func jcStructure(out []byte) string {
	inStr := false
	for i := 0; i < len(out); i++ {
		c := out[i]
		if inStr {
			if c == '\\' {
				n := out[i+1]
				switch n {
				case '"', '\\', 'b', 'f', 'n', 'r', 't':
					i++
				case 'u':
					hex := string(out[i+2 : i+6])
					v, err := strconv.ParseUint(hex, 16, 16)
					if err != nil || v >= 0x20 || hex != strings.ToLower(hex) || v == 8 || v == 9 || v == 10 || v == 12 || v == 13 {
						return fmt.Sprintf("escape \\u%s is not minimal lower-case escaping", hex)
					}
					i += 5
				default:
					return fmt.Sprintf("escape \\%c is not allowed in canonical form", n)
				}
			} else if c == '"' {
				inStr = false
			} else if c < 0x20 {
				return "raw control character in a string"
			}
			continue
		}
		switch c {
		case '"':
			inStr = true
		case ' ', '\t', '\n', '\r':
			return "insignificant whitespace in the output"
		}
	}
	var v interface{}
	dec := json.NewDecoder(bytes.NewReader(out))
	if err := dec.Decode(&v); err != nil {
		return "output is not JSON: " + err.Error()
	}
	return jcSorted(out)
}

// jcSorted checks member order with a token walk
func jcSorted(out []byte) string {
	dec := json.NewDecoder(bytes.NewReader(out))
	type frame struct {
		obj  bool
		key  bool
		last *string
	}
	var st []*frame
	for {
		tok, err := dec.Token()
		if err != nil {
			break
		}
		switch t := tok.(type) {
		case json.Delim:
			switch t {
			case '{':
				if len(st) > 0 && st[len(st)-1].obj {
					st[len(st)-1].key = true
				}
				st = append(st, &frame{obj: true, key: true})
			case '[':
				if len(st) > 0 && st[len(st)-1].obj {
					st[len(st)-1].key = true
				}
				st = append(st, &frame{})
			default:
				st = st[:len(st)-1]
			}
		case string:
			if len(st) > 0 && st[len(st)-1].obj && st[len(st)-1].key {
				f := st[len(st)-1]
				if f.last != nil && !jcUTF16Less(*f.last, t) {
					return fmt.Sprintf("member %q follows %q: not in UTF-16 code unit order (or duplicate)", t, *f.last)
				}
				s := t
				f.last = &s
				f.key = false
			} else if len(st) > 0 && st[len(st)-1].obj {
				st[len(st)-1].key = true
			}
		default:
			if len(st) > 0 && st[len(st)-1].obj {
				st[len(st)-1].key = true
			}
		}
	}
	return ""
}

func jcSameValue(a, b interface{}) bool {
	switch x := a.(type) {
	case float64:
		y, ok := b.(float64)
		return ok && (x == y)
	case []interface{}:
		y, ok := b.([]interface{})
		if !ok || len(x) != len(y) {
			return false
		}
		for i := range x {
			if !jcSameValue(x[i], y[i]) {
				return false
			}
		}
		return true
	case map[string]interface{}:
		y, ok := b.(map[string]interface{})
		if !ok || len(x) != len(y) {
			return false
		}
		for k, v := range x {
			w, ok := y[k]
			if !ok || !jcSameValue(v, w) {
				return false
			}
		}
		return true
	}
	return reflect.DeepEqual(a, b)
}

// strings that are not valid UTF-16 when decoded (lone surrogates) do not survive encoding/json: the
// generator only produces scalar values, so the reference decoder is faithful
func TestVerifBoundedJCS(t *testing.T) {
	seed, _ := strconv.ParseInt(os.Getenv("VERIF_SEED"), 10, 64)
	nNum, nVal := 20000, 2000
	if os.Getenv("VERIF_TIER") == "thorough" {
		nNum, nVal = 200000, 6000
	}
	r := rand.New(rand.NewSource(seed))
	cases := 0
	// ---- numbers
	for _, v := range jcVectors {
		bits, _ := strconv.ParseUint(v.bits, 16, 64)
		got, err := NumberToJSON(math.Float64frombits(bits))
		cases++
		if err != nil || got != v.want {
			jcFail("number.vector", "RFC 8785 vector %s: got %q (err %v), want %q", v.bits, got, err, v.want)
			return
		}
	}
	for _, bad := range []uint64{0x7ff0000000000000, 0xfff0000000000000, 0x7fffffffffffffff, 0x7ff8000000000001} {
		cases++
		if _, err := NumberToJSON(math.Float64frombits(bad)); err == nil {
			jcFail("number.invalid", "%x (NaN / Infinity) accepted", bad)
			return
		}
	}
	for i := 0; i < nNum; i++ {
		var x float64
		switch i % 5 {
		case 0:
			x = math.Float64frombits(r.Uint64())
		case 1:
			x = math.Float64frombits(r.Uint64() & 0x800fffffffffffff) // subnormals
		case 2:
			x = float64(int64(1)<<uint(40+r.Intn(24)) + int64(r.Intn(2000)-1000))
		case 3:
			x = math.Pow(10, float64(r.Intn(60)-30)) * float64(1+r.Intn(9))
		default:
			x = 1e21 * (0.5 + r.Float64())
		}
		if math.IsNaN(x) || math.IsInf(x, 0) {
			continue
		}
		cases++
		if msg := jcCheckNumber(x); msg != "" {
			jcFail("number.random", "%s", msg)
			return
		}
	}
	// ---- the RFC 8785 sorting example and order-sensitive names
	in := "{\"\\u20ac\":\"Euro Sign\",\"\\r\":\"Carriage Return\",\"\\ufb33\":\"Hebrew Letter Dalet With Dagesh\",\"1\":\"One\",\"\\ud83d\\ude00\":\"Emoji: Grinning Face\",\"\\u0080\":\"Control\",\"\\u00f6\":\"Latin Small Letter O With Diaeresis\"}"
	want := "{\"\\r\":\"Carriage Return\",\"1\":\"One\",\"\u0080\":\"Control\",\"\u00f6\":\"Latin Small Letter O With Diaeresis\",\"\u20ac\":\"Euro Sign\",\"\U0001f600\":\"Emoji: Grinning Face\",\"\ufb33\":\"Hebrew Letter Dalet With Dagesh\"}"
	got, err := Transform([]byte(in))
	cases++
	if err != nil || string(got) != want {
		jcFail("sort.rfc-example", "RFC 8785 sorting example: got %q (err %v)", got, err)
		return
	}
	for _, c := range []struct{ in, want string }{
		{`{"a":1e0,"b":[1.0,  10E-1,100e-2],"c":-0, "d":-0.0}`, `{"a":1,"b":[1,1,1],"c":0,"d":0}`},
		{"[\"\\u000F\",\"\\u000a\",\"\\/\",\"\\u0041\",\"\\u007f\",\"\\uD83D\\uDE00\"]", "[\"\\u000f\",\"\\n\",\"/\",\"A\",\"\u007f\",\"\U0001f600\"]"},
		{" [ ] ", "[]"}, {"\n{ }\t", "{}"}, {`{"":{"":[]}}`, `{"":{"":[]}}`},
	} {
		got, err := Transform([]byte(c.in))
		cases++
		if err != nil || string(got) != c.want {
			jcFail("fixed-cases", "%q canonicalizes to %q (err %v), want %q", c.in, got, err, c.want)
			return
		}
	}
	// ---- number tokens as they are written: whatever the spelling (long integers beyond 2^53 or 2^63,
	// signed zero, fractions, exponents), the output is the ES6 text of the double the token denotes
	tokens := []string{"0", "-0", "0.0", "-0.0", "-0e0", "1", "-1", "10", "1.0", "1.50", "100e-2", "1E3", "1e+3", "1e-3",
		"9007199254740991", "9007199254740992", "9007199254740993", "-9007199254740993", "9007199254740995", "18014398509481985",
		"1700000000123456789", "9223372036854775807", "-9223372036854775808", "9223372036854775808", "18446744073709551615",
		"18446744073709551616", "123456789012345678901234567890", "100000000000000000000", "1000000000000000000000", "999999999999999999999",
		"0.000001", "0.0000001", "1e-7", "123456789012345.6789", "4.9e-324", "1.7976931348623157e308", "2.5e-9", "1e21", "1e20"}
	for i := 0; i < nNum/20; i++ {
		n := 1 + r.Intn(24)
		var sb strings.Builder
		if r.Intn(3) == 0 {
			sb.WriteByte('-')
		}
		sb.WriteByte(byte('1' + r.Intn(9)))
		for k := 1; k < n; k++ {
			sb.WriteByte(byte('0' + r.Intn(10)))
		}
		tokens = append(tokens, sb.String())
	}
	for _, tok := range tokens {
		x, perr := strconv.ParseFloat(tok, 64)
		if perr != nil {
			continue
		}
		want, werr := NumberToJSON(x)
		got, err := Transform([]byte("[" + tok + "]"))
		cases++
		if werr != nil || err != nil || string(got) != "["+want+"]" {
			jcFail("number.token", "number token %s canonicalizes to %q (err %v), want [%s]", tok, got, err, want)
			return
		}
	}
	// ---- random values in several spellings
	for i := 0; i < nVal; i++ {
		var v interface{}
		if i%2 == 0 {
			m := map[string]interface{}{}
			for k := r.Intn(5); k > 0; k-- {
				m[jcString(r)] = jcValue(r, 1)
			}
			v = m
		} else {
			v = []interface{}{jcValue(r, 1), jcValue(r, 1)}
		}
		var first []byte
		for style := 0; style < 4; style++ {
			src := jcEncode(v, style, r)
			out, err := Transform([]byte(src))
			cases++
			if err != nil {
				jcFail("value.refused", "valid JSON %q refused: %v", src, err)
				return
			}
			if style == 0 {
				first = out
				if msg := jcStructure(out); msg != "" {
					jcFail("value.form", "%s; input %q output %q", msg, src, out)
					return
				}
				var back interface{}
				if err := json.Unmarshal(out, &back); err != nil || !jcSameValue(back, v) {
					jcFail("value.meaning", "output %q does not denote the value of input %q (err %v)", out, src, err)
					return
				}
				again, err := Transform(out)
				if err != nil || !bytes.Equal(again, out) {
					jcFail("value.fixpoint", "canonical form %q is not a fixed point: %q (err %v)", out, again, err)
					return
				}
			} else if !bytes.Equal(out, first) {
				jcFail("value.unique", "two spellings of the same value give different bytes: %q -> %q, other spelling %q -> %q", jcEncode(v, 0, r), first, src, out)
				return
			}
		}
	}
	fmt.Printf("BOUNDED-CASES %d\n", cases)
}
