package sidetree

// Bounded stand-in (NOT a proof) for the whole-pipeline part of C08: requests built by the Sidetree
// client (and, through it, by the request builders) are accepted by a parser configured with the
// matching protocol, and applying them in order yields the document, commitments and flags asked for;
// the anchored form of an accepted request is the canonical encoding of the same request and applies
// to the same state; the builders refuse reused keys, equal commitments and an unsupported hash code.
// Bound: lifecycles create -> update -> update -> recover -> update -> deactivate for every assignment
// of {Ed25519, P-256, secp256k1} (the allowed signature algorithms) to the update / recovery key chains drawn from a seeded
// sample (quick: 30 lifecycles, thorough: 300), documents of 1..2 keys, 0..2 services, 0..1 URIs,
// with and without anchor origin.

import (
	"crypto"
	"crypto/ecdsa"
	"crypto/ed25519"
	"crypto/elliptic"
	"encoding/json"
	"fmt"
	"math/rand"
	"os"
	"reflect"
	"sort"
	"strconv"
	"strings"
	"testing"

	"github.com/btcsuite/btcd/btcec/v2"
	docdid "github.com/trustbloc/did-go/doc/did"
	model "github.com/trustbloc/did-go/doc/did/endpoint"
	"github.com/trustbloc/kms-go/doc/jose/jwk"
	"github.com/trustbloc/kms-go/doc/jose/jwk/jwksupport"

	"github.com/trustbloc/sidetree-go/pkg/api/operation"
	"github.com/trustbloc/sidetree-go/pkg/api/protocol"
	"github.com/trustbloc/sidetree-go/pkg/canonicalizer"
	"github.com/trustbloc/sidetree-go/pkg/commitment"
	"github.com/trustbloc/sidetree-go/pkg/jws"
	"github.com/trustbloc/sidetree-go/pkg/util/ecsigner"
	"github.com/trustbloc/sidetree-go/pkg/util/edsigner"
	"github.com/trustbloc/sidetree-go/pkg/util/pubkey"
	"github.com/trustbloc/sidetree-go/pkg/vdr/sidetreelongform/dochandler"
	"github.com/trustbloc/sidetree-go/pkg/vdr/sidetreelongform/dochandler/protocolversion/clientregistry"
	protocolcfg "github.com/trustbloc/sidetree-go/pkg/vdr/sidetreelongform/dochandler/protocolversion/versions/v1_0/config"
	"github.com/trustbloc/sidetree-go/pkg/versions/1_0/doccomposer"
	"github.com/trustbloc/sidetree-go/pkg/versions/1_0/operationapplier"
	vcommon "github.com/trustbloc/sidetree-go/pkg/vdr/sidetreelongform/dochandler/protocolversion/versions/common"
	"github.com/trustbloc/sidetree-go/pkg/vdr/sidetreelongform/sidetree/doc"
	"github.com/trustbloc/sidetree-go/pkg/vdr/sidetreelongform/sidetree/option/create"
	"github.com/trustbloc/sidetree-go/pkg/vdr/sidetreelongform/sidetree/option/deactivate"
	"github.com/trustbloc/sidetree-go/pkg/vdr/sidetreelongform/sidetree/option/recovery"
	"github.com/trustbloc/sidetree-go/pkg/vdr/sidetreelongform/sidetree/option/update"
	"github.com/trustbloc/sidetree-go/pkg/patch"
	"github.com/trustbloc/sidetree-go/pkg/versions/1_0/client"
	opmodel "github.com/trustbloc/sidetree-go/pkg/versions/1_0/model"
	"github.com/trustbloc/sidetree-go/pkg/versions/1_0/operationparser"
)

const lcNS = "did:ion"

type lcReader struct{ r *rand.Rand }

func (c lcReader) Read(p []byte) (int, error) { return c.r.Read(p) }

func lcFail(id, format string, args ...interface{}) {
	fmt.Printf("BOUNDED-FAIL %s %s\n", id, strings.ReplaceAll(fmt.Sprintf(format, args...), "\n", " "))
}

type lcSigner struct {
	s   interface {
		Sign([]byte) ([]byte, error)
		Headers() jws.Headers
	}
	pub *jws.JWK
	key crypto.PublicKey
}

func (s *lcSigner) Sign(d []byte) ([]byte, error) { return s.s.Sign(d) }
func (s *lcSigner) Headers() jws.Headers          { return s.s.Headers() }
func (s *lcSigner) PublicKeyJWK() *jws.JWK        { return s.pub }

var lcKinds = []string{"Ed25519", "P-256", "secp256k1"} // the signature algorithms the protocol allows: EdDSA, ES256, ES256K

func lcNewKey(r *rand.Rand, kind string) *lcSigner {
	switch kind {
	case "Ed25519":
		pub, priv, _ := ed25519.GenerateKey(lcReader{r})
		j, _ := pubkey.GetPublicKeyJWK(pub)
		return &lcSigner{s: edsigner.New(priv, "EdDSA", ""), pub: j, key: pub}
	case "P-256":
		priv, _ := ecdsa.GenerateKey(elliptic.P256(), lcReader{r})
		j, _ := pubkey.GetPublicKeyJWK(&priv.PublicKey)
		return &lcSigner{s: ecsigner.New(priv, "ES256", ""), pub: j, key: &priv.PublicKey}
	case "P-384":
		priv, _ := ecdsa.GenerateKey(elliptic.P384(), lcReader{r})
		j, _ := pubkey.GetPublicKeyJWK(&priv.PublicKey)
		return &lcSigner{s: ecsigner.New(priv, "ES384", ""), pub: j, key: &priv.PublicKey}
	default:
		priv, _ := ecdsa.GenerateKey(btcec.S256(), lcReader{r})
		j, _ := pubkey.GetPublicKeyJWK(&priv.PublicKey)
		return &lcSigner{s: ecsigner.New(priv, "ES256K", ""), pub: j, key: &priv.PublicKey}
	}
}

func lcCommit(s *lcSigner) string { return lcCommitWith(s, 18) }

func lcReveal(s *lcSigner) string {
	rv, err := commitment.GetRevealValue(s.pub, 18)
	if err != nil {
		panic(err)
	}
	return rv
}

func lcCommitWith(s *lcSigner, code uint) string {
	c, err := commitment.GetCommitment(s.pub, code)
	if err != nil {
		panic(err)
	}
	return c
}

func lcDocKey(r *rand.Rand, id string) *doc.PublicKey {
	priv, _ := ecdsa.GenerateKey(elliptic.P256(), lcReader{r})
	j, err := jwksupport.JWKFromKey(&priv.PublicKey)
	if err != nil {
		panic(err)
	}
	return &doc.PublicKey{ID: id, Type: doc.JWK2020Type, Purposes: []string{doc.KeyPurposeAuthentication}, JWK: jwk.JWK(*j)}
}

func lcSvc(id string) *docdid.Service {
	return &docdid.Service{ID: id, Type: "type-" + id, ServiceEndpoint: model.NewDIDCommV1Endpoint("https://" + id + ".example.com")}
}

// the node: parses and applies what the client sends
type lcNode struct {
	pv      protocol.Version
	opp     protocol.OperationParser
	applier protocol.OperationApplier
	parser  *operationparser.Parser
	dh     *dochandler.DocumentHandler
	state  map[string]*protocol.ResolutionModel
	time   uint64
	sent   int
	fail   string
}

func (n *lcNode) send(req []byte, _ GetEndpointsFunc) ([]byte, error) {
	n.sent++
	op, err := n.opp.Parse(lcNS, req)
	if err != nil {
		n.fail = fmt.Sprintf("request refused by the parser: %v", err)
		return nil, fmt.Errorf("parser: %w", err)
	}
	n.time++
	apply := func(reqBytes []byte, rm *protocol.ResolutionModel) (*protocol.ResolutionModel, error) {
		if rm == nil {
			rm = &protocol.ResolutionModel{}
		}
		return n.applier.Apply(&operation.AnchoredOperation{Type: op.Type, UniqueSuffix: op.UniqueSuffix, OperationRequest: reqBytes,
			TransactionTime: n.time, TransactionNumber: n.time, ProtocolVersion: n.pv.Protocol().GenesisTime, AnchorOrigin: op.AnchorOrigin}, rm)
	}
	before := n.state[op.UniqueSuffix]
	if op.Type != operation.TypeCreate {
		// commit-reveal: the request must reveal the key committed to by the previous operation
		if before == nil {
			n.fail = fmt.Sprintf("%s request for an unknown suffix", op.Type)
			return nil, fmt.Errorf("unknown suffix")
		}
		rv, err := n.opp.GetRevealValue(req)
		if err != nil {
			n.fail = fmt.Sprintf("reveal value of the %s request: %v", op.Type, err)
			return nil, err
		}
		c, err := commitment.GetCommitmentFromRevealValue(rv)
		want := before.RecoveryCommitment
		if op.Type == operation.TypeUpdate {
			want = before.UpdateCommitment
		}
		if err != nil || c != want {
			n.fail = fmt.Sprintf("%s request does not reveal the committed key: commitment of its reveal value differs from the commitment on record (err %v)", op.Type, err)
			return nil, fmt.Errorf("commit-reveal")
		}
	}
	rm, err := apply(req, before)
	if err != nil {
		n.fail = fmt.Sprintf("%s request refused by the applier: %v", op.Type, err)
		return nil, err
	}
	// anchored form: canonical encoding of the same request, same suffix / type / origin, same effect
	mop, err := n.parser.ParseOperation(lcNS, req, false)
	if err != nil {
		n.fail = fmt.Sprintf("ParseOperation: %v", err)
		return nil, err
	}
	anchored, err := opmodel.GetAnchoredOperation(mop)
	if err != nil {
		n.fail = fmt.Sprintf("anchored form: %v", err)
		return nil, err
	}
	canon, _ := canonicalizer.MarshalCanonical(json.RawMessage(req))
	if string(anchored.OperationRequest) != string(canon) || anchored.UniqueSuffix != op.UniqueSuffix || anchored.Type != op.Type || !reflect.DeepEqual(anchored.AnchorOrigin, op.AnchorOrigin) {
		n.fail = fmt.Sprintf("anchored form of the %s request differs from the canonical request (suffix %q/%q)", op.Type, anchored.UniqueSuffix, op.UniqueSuffix)
		return nil, fmt.Errorf("anchored")
	}
	rm2, err := apply(anchored.OperationRequest, before)
	if err != nil || !reflect.DeepEqual(lcView(rm2), lcView(rm)) {
		n.fail = fmt.Sprintf("anchored form of the %s request applies differently (err %v)", op.Type, err)
		return nil, fmt.Errorf("anchored")
	}
	n.state[op.UniqueSuffix] = rm
	if op.Type == operation.TypeCreate {
		res, err := n.dh.ProcessOperation(req)
		if err != nil {
			n.fail = fmt.Sprintf("create request refused by the handler: %v", err)
			return nil, err
		}
		return json.Marshal(res)
	}
	return []byte("{}"), nil
}

func lcView(rm *protocol.ResolutionModel) interface{} {
	b, _ := json.Marshal(map[string]interface{}{"doc": rm.Doc, "uc": rm.UpdateCommitment, "rc": rm.RecoveryCommitment, "deact": rm.Deactivated, "ao": rm.AnchorOrigin})
	var v interface{}
	_ = json.Unmarshal(b, &v)
	return v
}

func lcIDs(rm *protocol.ResolutionModel, member string) []string {
	l, _ := rm.Doc[member].([]interface{})
	var out []string
	for _, e := range l {
		switch x := e.(type) {
		case map[string]interface{}:
			id, _ := x["id"].(string)
			out = append(out, id)
		case string:
			out = append(out, x)
		}
	}
	sort.Strings(out)
	return out
}

func lcCheck(step string, n *lcNode, suffix string, keys, svcs, aka []string, uc, rc string, deactivated bool) bool {
	if n.fail != "" {
		lcFail("accept", "%s: %s", step, n.fail)
		return false
	}
	rm := n.state[suffix]
	if rm == nil {
		lcFail("state", "%s: no state for suffix %s", step, suffix)
		return false
	}
	if rm.Deactivated != deactivated {
		lcFail("deactivated", "%s: deactivated flag is %v", step, rm.Deactivated)
		return false
	}
	if deactivated {
		return true
	}
	sort.Strings(keys)
	sort.Strings(svcs)
	sort.Strings(aka)
	norm := func(l []string) []string {
		if len(l) == 0 {
			return nil
		}
		return l
	}
	if !reflect.DeepEqual(norm(lcIDs(rm, "publicKey")), norm(keys)) || !reflect.DeepEqual(norm(lcIDs(rm, "service")), norm(svcs)) || !reflect.DeepEqual(norm(lcIDs(rm, "alsoKnownAs")), norm(aka)) {
		lcFail("document", "%s: document has keys %v services %v alsoKnownAs %v, asked for %v %v %v", step, lcIDs(rm, "publicKey"), lcIDs(rm, "service"), lcIDs(rm, "alsoKnownAs"), keys, svcs, aka)
		return false
	}
	if rm.UpdateCommitment != uc || rm.RecoveryCommitment != rc {
		lcFail("commitments", "%s: commitments differ from the ones of the next keys handed to the client", step)
		return false
	}
	return true
}

func TestVerifBoundedLifecycle(t *testing.T) {
	seed, _ := strconv.ParseInt(os.Getenv("VERIF_SEED"), 10, 64)
	runs := 30
	if os.Getenv("VERIF_TIER") == "thorough" {
		runs = 300
	}
	r := rand.New(rand.NewSource(seed))
	pv, err := clientregistry.New().CreateClientVersion("1.0", &vcommon.ProtocolConfig{EnableBase: true})
	if err != nil {
		t.Fatal(err)
	}
	dh, err := dochandler.New(lcNS)
	if err != nil {
		t.Fatal(err)
	}
	cases := 0
	for run := 0; run < runs; run++ {
		// the node accepts sha2-256 and sha2-512 (the matching protocol for requests that move to sha2-512)
		np := protocolcfg.GetProtocolConfig()
		np.MultihashAlgorithms = []uint{18, 19}
		nparser := operationparser.New(np)
		node := &lcNode{pv: pv, opp: nparser, applier: operationapplier.New(np, nparser, doccomposer.New()), parser: nparser, dh: dh, state: map[string]*protocol.ResolutionModel{}}
		c := New(WithSidetreeOperationRequestFnc(node.send))
		kind := func() string { return lcKinds[r.Intn(len(lcKinds))] }
		if run < len(lcKinds) {
			// every key type at least once in every role
			k := lcKinds[run]
			kind = func() string { return k }
		}
		u0, u1, u2, u3, u4 := lcNewKey(r, kind()), lcNewKey(r, kind()), lcNewKey(r, kind()), lcNewKey(r, kind()), lcNewKey(r, kind())
		r0, r1 := lcNewKey(r, kind()), lcNewKey(r, kind())
		origin := ""
		if run%2 == 1 {
			origin = "origin.example"
		}
		// ---- create
		copts := []create.Option{create.WithRecoveryPublicKey(r0.key), create.WithUpdatePublicKey(u0.key), create.WithPublicKey(lcDocKey(r, "k1")), create.WithService(lcSvc("s1"))}
		keys, svcs, aka := []string{"k1"}, []string{"s1"}, []string{}
		if run%3 == 0 {
			copts = append(copts, create.WithPublicKey(lcDocKey(r, "k2")), create.WithService(lcSvc("s2")), create.WithAlsoKnownAs("https://first.example/"))
			keys, svcs, aka = append(keys, "k2"), append(svcs, "s2"), append(aka, "https://first.example/")
		}
		if origin != "" {
			copts = append(copts, create.WithAnchorOrigin(origin))
		}
		res, err := c.CreateDID(copts...)
		cases++
		if err != nil {
			lcFail("create", "run %d: %v (%s)", run, err, node.fail)
			return
		}
		parts := strings.Split(res.DIDDocument.ID, ":")
		if len(parts) != 4 {
			lcFail("create.id", "unexpected DID %q", res.DIDDocument.ID)
			return
		}
		suffix := parts[2]
		did := lcNS + ":" + suffix
		if run%4 == 1 {
			// a DID with a further namespace segment: the client still has to address the same suffix
			did = lcNS + ":testnet:" + suffix
		}
		if !lcCheck("create", node, suffix, keys, svcs, aka, lcCommit(u0), lcCommit(r0), false) {
			return
		}
		// ---- update 1: add a key, remove a service, add a URI
		err = c.UpdateDID(did, update.WithSigner(u0), update.WithNextUpdatePublicKey(u1.key), update.WithOperationCommitment(lcCommit(u0)),
			update.WithAddPublicKey(lcDocKey(r, "k3")), update.WithRemoveService("s1"), update.WithAddAlsoKnownAs("https://second.example/"))
		cases++
		if err != nil {
			lcFail("update1", "run %d: %v (%s)", run, err, node.fail)
			return
		}
		keys = append(keys, "k3")
		svcs = lcWithout(svcs, "s1")
		aka = append(aka, "https://second.example/")
		if !lcCheck("update1", node, suffix, keys, svcs, aka, lcCommit(u1), lcCommit(r0), false) {
			return
		}
		// ---- update 2: rotate k3 (removed and added again in one request: removals come first, so it
		// stays), remove k1, add a service, remove a URI, unknown ids ignored
		err = c.UpdateDID(did, update.WithSigner(u1), update.WithNextUpdatePublicKey(u2.key), update.WithOperationCommitment(lcCommit(u1)),
			update.WithAddPublicKey(lcDocKey(r, "k3")), update.WithRemovePublicKey("k3"), update.WithRemovePublicKey("k1"), update.WithRemovePublicKey("nosuch"), update.WithAddService(lcSvc("s3")),
			update.WithRemoveAlsoKnownAs("https://second.example/"))
		cases++
		if err != nil {
			lcFail("update2", "run %d: %v (%s)", run, err, node.fail)
			return
		}
		keys = lcWithout(keys, "k1")
		svcs = append(svcs, "s3")
		aka = lcWithout(aka, "https://second.example/")
		if !lcCheck("update2", node, suffix, keys, svcs, aka, lcCommit(u2), lcCommit(r0), false) {
			return
		}
		// ---- builder refusals (nothing may reach the node)
		sentBefore := node.sent
		if err := c.UpdateDID(did, update.WithSigner(u2), update.WithNextUpdatePublicKey(u2.key), update.WithOperationCommitment(lcCommit(u2)), update.WithAddPublicKey(lcDocKey(r, "k5"))); err == nil {
			lcFail("refuse.reuse", "update that re-uses the signing key as next update key was built")
			return
		}
		if _, err := c.CreateDID(create.WithRecoveryPublicKey(r0.key), create.WithUpdatePublicKey(r0.key), create.WithPublicKey(lcDocKey(r, "k1"))); err == nil {
			lcFail("refuse.equal", "create with equal update and recovery keys was built")
			return
		}
		if _, err := c.CreateDID(create.WithRecoveryPublicKey(r0.key), create.WithUpdatePublicKey(u0.key), create.WithPublicKey(lcDocKey(r, "k1")), create.WithMultiHashAlgorithm(9999)); err == nil {
			lcFail("refuse.hash", "create with an unsupported hash code was built")
			return
		}
		cases += 3
		if node.sent != sentBefore || node.fail != "" {
			lcFail("refuse.sent", "a refused request reached the node (%s)", node.fail)
			return
		}
		// ---- optional members of the suffix data (entity type, anchor origin) survive the anchored form:
		// its bytes are the canonical request, and re-parsing them gives the same suffix
		for _, tc := range []struct {
			typ string
			ao  interface{}
		}{{"", nil}, {"did-entity-type", nil}, {"", "https://anchor.example/orb"}, {"did-entity-type", "https://anchor.example/orb"}, {"t", []interface{}{"a", "b"}}} {
			pt, _ := patch.NewAddServiceEndpointsPatch(`[{"id":"sv","type":"t","serviceEndpoint":"https://e.example"}]`)
			creq, err := client.NewCreateRequest(&client.CreateRequestInfo{Patches: []patch.Patch{pt}, RecoveryCommitment: lcCommit(r0), UpdateCommitment: lcCommit(u0),
				AnchorOrigin: tc.ao, Type: tc.typ, MultihashCode: 18})
			cases++
			if err != nil {
				lcFail("builder.create", "entity type %q, anchor origin %v: %v", tc.typ, tc.ao, err)
				return
			}
			mop, err := node.parser.ParseOperation(lcNS, creq, false)
			if err != nil {
				lcFail("builder.accepted", "create request with entity type %q, anchor origin %v refused: %v", tc.typ, tc.ao, err)
				return
			}
			anchored, err := opmodel.GetAnchoredOperation(mop)
			if err != nil {
				lcFail("anchored.create", "anchored form (entity type %q): %v", tc.typ, err)
				return
			}
			canon, _ := canonicalizer.MarshalCanonical(json.RawMessage(creq))
			again, err2 := node.parser.ParseOperation(lcNS, anchored.OperationRequest, true)
			if string(anchored.OperationRequest) != string(canon) || err2 != nil || again.UniqueSuffix != mop.UniqueSuffix || anchored.UniqueSuffix != mop.UniqueSuffix {
				lcFail("anchored.create", "anchored form of a create request with entity type %q / anchor origin %v is not the canonical request (%s vs %s, err %v)", tc.typ, tc.ao, anchored.OperationRequest, canon, err2)
				return
			}
		}
		// ---- anchor origins that are not strings reach the parsed operation unchanged (builders directly)
		for _, ao := range []interface{}{[]interface{}{"origin.one", "origin.two"}, map[string]interface{}{"o": "x"}, "plain"} {
			pt, _ := patch.NewAddServiceEndpointsPatch(`[{"id":"sv","type":"t","serviceEndpoint":"https://e.example"}]`)
			creq, err := client.NewCreateRequest(&client.CreateRequestInfo{Patches: []patch.Patch{pt}, RecoveryCommitment: lcCommit(r0), UpdateCommitment: lcCommit(u0), AnchorOrigin: ao, MultihashCode: 18})
			cases++
			if err != nil {
				lcFail("builder.create", "anchor origin %v: %v", ao, err)
				return
			}
			cop, err := node.opp.Parse(lcNS, creq)
			if err != nil || !reflect.DeepEqual(cop.AnchorOrigin, ao) {
				lcFail("builder.anchor-origin", "create request built with anchor origin %v is parsed with anchor origin %v (err %v)", ao, cop, err)
				return
			}
			rreq, err := client.NewRecoverRequest(&client.RecoverRequestInfo{DidSuffix: suffix, RecoveryKey: r0.pub, Patches: []patch.Patch{pt}, RecoveryCommitment: lcCommit(r1),
				UpdateCommitment: lcCommit(u3), AnchorOrigin: ao, MultihashCode: 18, Signer: r0, RevealValue: lcReveal(r0)})
			cases++
			if err != nil {
				lcFail("builder.recover", "anchor origin %v: %v", ao, err)
				return
			}
			rop, err := node.opp.Parse(lcNS, rreq)
			if err != nil || !reflect.DeepEqual(rop.AnchorOrigin, ao) {
				lcFail("builder.anchor-origin", "recover request built with anchor origin %v is parsed with another one (err %v)", ao, err)
				return
			}
		}
		// ---- recover: whole new document
		ropts := []recovery.Option{recovery.WithSigner(r0), recovery.WithNextRecoveryPublicKey(r1.key), recovery.WithNextUpdatePublicKey(u3.key), recovery.WithOperationCommitment(lcCommit(r0)),
			recovery.WithPublicKey(lcDocKey(r, "k9")), recovery.WithService(lcSvc("s9"))}
		if origin != "" {
			ropts = append(ropts, recovery.WithAnchorOrigin(origin))
		}
		err = c.RecoverDID(did, ropts...)
		cases++
		if err != nil {
			lcFail("recover", "run %d: %v (%s)", run, err, node.fail)
			return
		}
		keys, svcs, aka = []string{"k9"}, []string{"s9"}, []string{}
		if !lcCheck("recover", node, suffix, keys, svcs, aka, lcCommit(u3), lcCommit(r1), false) {
			return
		}
		// ---- the re-used key is refused also when the request asks for another hash algorithm than the
		// commitment it reveals was made with (algorithm migration)
		if err := c.UpdateDID(did, update.WithSigner(u3), update.WithNextUpdatePublicKey(u3.key), update.WithOperationCommitment(lcCommit(u3)),
			update.WithAddService(lcSvc("s11")), update.WithMultiHashAlgorithm(19)); err == nil {
			lcFail("refuse.reuse-migration", "update that re-uses the signing key as next update key (sha2-512 requested, sha2-256 revealed) was built")
			return
		}
		cases++
		// ---- update after recovery
		u4code := uint(18)
		if run%2 == 0 {
			u4code = 19 // next commitment with sha2-512; the reveal value still uses the code of the commitment revealed
		}
		err = c.UpdateDID(did, update.WithSigner(u3), update.WithNextUpdatePublicKey(u4.key), update.WithOperationCommitment(lcCommit(u3)), update.WithAddService(lcSvc("s10")),
			update.WithMultiHashAlgorithm(u4code))
		cases++
		if err != nil {
			lcFail("update3", "run %d: %v (%s)", run, err, node.fail)
			return
		}
		svcs = append(svcs, "s10")
		if !lcCheck("update3", node, suffix, keys, svcs, aka, lcCommitWith(u4, u4code), lcCommit(r1), false) {
			return
		}
		// ---- deactivate
		err = c.DeactivateDID(did, deactivate.WithSigner(r1), deactivate.WithOperationCommitment(lcCommit(r1)))
		cases++
		if err != nil {
			lcFail("deactivate", "run %d: %v (%s)", run, err, node.fail)
			return
		}
		if !lcCheck("deactivate", node, suffix, nil, nil, nil, "", "", true) {
			return
		}
	}
	fmt.Printf("BOUNDED-CASES %d\n", cases)
}

func lcWithout(l []string, x string) []string {
	var out []string
	for _, e := range l {
		if e != x {
			out = append(out, e)
		}
	}
	return out
}
