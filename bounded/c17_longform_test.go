package sidetreelongform

// Bounded stand-in (NOT a proof) for the parts of C17 that run through third-party code (did-go
// documents, JSON-LD parsing) and through whole-pipeline behaviour:
//   - VDR.Create followed by VDR.Read gives back a document with the requested long-form id, names
//     the short form as equivalent id, and reports the commitments of the keys handed in;
//   - creation is deterministic (same document, same update and recovery keys => same DID);
//   - every single-character change of a created DID, every re-spelling of its initial state
//     (whitespace, member order, padding) and every namespace related by prefix is refused.
// Bound: documents over {Ed25519 2018, Ed25519 2020, P-256, P-384} keys with 1..3 keys, purpose
// sets from a fixed list, 0..1 services; quick tier: 24 documents and every 7th character position,
// thorough tier: 96 documents and every position.

import (
	"crypto/ecdsa"
	"crypto/ed25519"
	"crypto/elliptic"
	"encoding/base64"
	"encoding/json"
	"fmt"
	"math/rand"
	"os"
	"strings"
	"testing"

	ariesdid "github.com/trustbloc/did-go/doc/did"
	model "github.com/trustbloc/did-go/doc/did/endpoint"
	vdrapi "github.com/trustbloc/did-go/vdr/api"

	"github.com/trustbloc/sidetree-go/pkg/commitment"
	"github.com/trustbloc/sidetree-go/pkg/util/pubkey"
)

type c17Reader struct{ r *rand.Rand }

func (c c17Reader) Read(p []byte) (int, error) { return c.r.Read(p) }

func c17Fail(id, format string, args ...interface{}) {
	fmt.Printf("BOUNDED-FAIL %s %s\n", id, strings.ReplaceAll(fmt.Sprintf(format, args...), "\n", " "))
}

var c17Rels = []ariesdid.VerificationRelationship{ariesdid.Authentication, ariesdid.AssertionMethod,
	ariesdid.CapabilityDelegation, ariesdid.CapabilityInvocation, ariesdid.KeyAgreement}

func c17AddKey(doc *ariesdid.Doc, vm *ariesdid.VerificationMethod, mask int) {
	for i, rel := range c17Rels {
		if mask&(1<<i) == 0 {
			continue
		}
		v := *ariesdid.NewReferencedVerification(vm, rel)
		switch rel {
		case ariesdid.Authentication:
			doc.Authentication = append(doc.Authentication, v)
		case ariesdid.AssertionMethod:
			doc.AssertionMethod = append(doc.AssertionMethod, v)
		case ariesdid.CapabilityDelegation:
			doc.CapabilityDelegation = append(doc.CapabilityDelegation, v)
		case ariesdid.CapabilityInvocation:
			doc.CapabilityInvocation = append(doc.CapabilityInvocation, v)
		case ariesdid.KeyAgreement:
			doc.KeyAgreement = append(doc.KeyAgreement, v)
		}
	}
}

func c17Doc(r *rand.Rand, nkeys int, withSvc bool) (*ariesdid.Doc, error) {
	doc := &ariesdid.Doc{}
	masks := []int{1, 2, 3, 7, 31, 16, 5}
	for k := 0; k < nkeys; k++ {
		id := fmt.Sprintf("key%d", k)
		var vm *ariesdid.VerificationMethod
		var err error
		switch r.Intn(4) {
		case 0:
			pub, _, e := ed25519.GenerateKey(c17Reader{r})
			if e != nil {
				return nil, e
			}
			vm, err = createVerificationMethod(ed25519KeyType, pub, id, "Ed25519VerificationKey2020")
		case 1:
			pub, _, e := ed25519.GenerateKey(c17Reader{r})
			if e != nil {
				return nil, e
			}
			vm, err = createVerificationMethod(ed25519KeyType, pub, id, "Ed25519VerificationKey2018")
		case 2:
			priv, e := ecdsa.GenerateKey(elliptic.P256(), c17Reader{r})
			if e != nil {
				return nil, e
			}
			vm, err = createVerificationMethod(p256KeyType, elliptic.Marshal(elliptic.P256(), priv.X, priv.Y), id, "JsonWebKey2020") //nolint:staticcheck
		default:
			priv, e := ecdsa.GenerateKey(elliptic.P384(), c17Reader{r})
			if e != nil {
				return nil, e
			}
			vm, err = createVerificationMethod(p384KeyType, elliptic.Marshal(elliptic.P384(), priv.X, priv.Y), id, "JsonWebKey2020") //nolint:staticcheck
		}
		if err != nil {
			return nil, err
		}
		m := masks[r.Intn(len(masks))]
		if strings.HasPrefix(vm.Type, "Ed25519") {
			// signature keys are not accepted for key agreement
			m &^= 16
			if m == 0 {
				m = 1
			}
		}
		c17AddKey(doc, vm, m)
	}
	if withSvc {
		doc.Service = append(doc.Service, ariesdid.Service{ID: "svc", Type: "type", ServiceEndpoint: model.NewDIDCommV1Endpoint("https://example.com/" + fmt.Sprint(r.Intn(1000)))})
	}
	return doc, nil
}

func TestVerifBoundedLongForm(t *testing.T) {
	tier := os.Getenv("VERIF_TIER")
	ndocs, stride := 24, 7
	if tier == "thorough" {
		ndocs, stride = 96, 1
	}
	seed := int64(1)
	fmt.Sscan(os.Getenv("VERIF_SEED"), &seed)
	r := rand.New(rand.NewSource(seed))
	cases := 0
	v, err := New()
	if err != nil {
		t.Fatal(err)
	}
	for d := 0; d < ndocs; d++ {
		nkeys := 1 + d%3
		doc, err := c17Doc(r, nkeys, d%2 == 0)
		if err != nil {
			t.Fatal(err)
		}
		upd, _, _ := ed25519.GenerateKey(c17Reader{r})
		rec, _, _ := ed25519.GenerateKey(c17Reader{r})
		opts := []vdrapi.DIDMethodOption{vdrapi.WithOption(UpdatePublicKeyOpt, upd), vdrapi.WithOption(RecoveryPublicKeyOpt, rec)}
		res, err := v.Create(doc, opts...)
		if err != nil {
			c17Fail("create", "document %d (%d keys) refused: %v", d, nkeys, err)
			return
		}
		did := res.DIDDocument.ID
		cases++
		// deterministic: the same document and keys give the same DID, on this and on a second VDR
		v2, _ := New()
		for rep := 0; rep < 8; rep++ {
			vv := v
			if rep%2 == 1 {
				vv = v2
			}
			res2, err := vv.Create(doc, opts...)
			cases++
			if err != nil || res2.DIDDocument.ID != did {
				c17Fail("deterministic", "document %d with %d keys: creating it again gave a different DID (attempt %d, err %v): ...%s vs ...%s", d, nkeys, rep, err,
					tail(did), tail(func() string {
						if res2 != nil {
							return res2.DIDDocument.ID
						}
						return ""
					}()))
				return
			}
		}
		parts := strings.Split(did, ":")
		if len(parts) != 4 || parts[0] != "did" || parts[1] != defaultDIDMethod {
			c17Fail("shape", "created DID %q is not did:%s:<suffix>:<initial state>", did, defaultDIDMethod)
			return
		}
		short := strings.Join(parts[:3], ":")
		// resolves offline to the requested id, short form equivalent, commitments of the keys
		rr, err := v.Read(did)
		cases++
		if err != nil {
			c17Fail("resolve", "created DID does not resolve: %v", err)
			return
		}
		if rr.DIDDocument.ID != did {
			c17Fail("resolve.id", "resolved id %q is not the requested DID", rr.DIDDocument.ID)
			return
		}
		if rr.DocumentMetadata == nil || len(rr.DocumentMetadata.EquivalentID) == 0 || rr.DocumentMetadata.EquivalentID[0] != short {
			c17Fail("resolve.equivalent", "metadata does not name the short form %q as equivalent: %+v", short, rr.DocumentMetadata)
			return
		}
		updJWK, _ := pubkey.GetPublicKeyJWK(upd)
		recJWK, _ := pubkey.GetPublicKeyJWK(rec)
		uc, _ := commitment.GetCommitment(updJWK, sha2_256)
		rc, _ := commitment.GetCommitment(recJWK, sha2_256)
		if rr.DocumentMetadata.Method == nil || rr.DocumentMetadata.Method.UpdateCommitment != uc || rr.DocumentMetadata.Method.RecoveryCommitment != rc {
			c17Fail("resolve.commitments", "metadata commitments differ from the commitments of the keys handed to Create")
			return
		}
		if len(rr.DIDDocument.VerificationMethod) != nkeys || len(rr.DIDDocument.Service) != len(doc.Service) {
			c17Fail("resolve.content", "resolved document has %d keys / %d services, created with %d / %d", len(rr.DIDDocument.VerificationMethod), len(rr.DIDDocument.Service), nkeys, len(doc.Service))
			return
		}
		// every single-character change is refused
		for pos := d % stride; pos < len(did); pos += stride {
			for _, repl := range []byte{'A', 'b', ':'} {
				if did[pos] == repl {
					continue
				}
				m := did[:pos] + string(repl) + did[pos+1:]
				cases++
				if out, err := v.Read(m); err == nil {
					c17Fail("mutation", "DID with character %d changed from %q to %q still resolves (to id ...%s)", pos, did[pos], repl, tail(out.DIDDocument.ID))
					return
				}
			}
		}
		// re-spellings of the initial state
		raw, err := base64.RawURLEncoding.DecodeString(parts[3])
		if err != nil {
			c17Fail("shape", "initial state is not unpadded base64url: %v", err)
			return
		}
		var obj map[string]json.RawMessage
		if err := json.Unmarshal(raw, &obj); err != nil {
			c17Fail("shape", "initial state is not a JSON object: %v", err)
			return
		}
		reordered := `{"type":"create","suffixData":` + string(obj["suffixData"]) + `,"delta":` + string(obj["delta"]) + `}`
		for name, alt := range map[string]string{
			"whitespace":   base64.RawURLEncoding.EncodeToString(append([]byte(" "), raw...)),
			"trailing-nl":  base64.RawURLEncoding.EncodeToString(append(append([]byte{}, raw...), '\n')),
			"member-order": base64.RawURLEncoding.EncodeToString([]byte(reordered)),
			"padding":      base64.URLEncoding.EncodeToString(raw),
			"std-alphabet": base64.RawStdEncoding.EncodeToString(raw),
		} {
			if alt == parts[3] {
				continue
			}
			cases++
			if _, err := v.Read(short + ":" + alt); err == nil {
				c17Fail("respelling", "initial state re-encoded (%s) still resolves", name)
				return
			}
		}
		// a create request handed in with another spelling is answered with the same (canonical) DID
		for name, alt := range map[string][]byte{
			"canonical":    raw,
			"whitespace":   []byte(strings.Replace(string(raw), ":", " : ", 3)),
			"member-order": []byte(reordered),
			"indent":       append([]byte("\n  "), append(append([]byte{}, raw...), '\n')...),
		} {
			cases++
			pr, err := v.sidetreeDocHandler.ProcessOperation(alt)
			if err != nil {
				c17Fail("process", "create request (%s spelling) refused: %v", name, err)
				return
			}
			if id, _ := pr.Document["id"].(string); id != did {
				c17Fail("process.id", "create request (%s spelling) answered with a DID that is not the canonical long form: ...%s", name, tail(id))
				return
			}
		}
		// other namespaces / shapes
		for name, alt := range map[string]string{
			"prefix-sharing method": "did:" + defaultDIDMethod + "x:" + parts[2] + ":" + parts[3],
			"prefix-sharing dash":   "did:" + defaultDIDMethod + "-test:" + parts[2] + ":" + parts[3],
			"shorter method":        "did:" + defaultDIDMethod[:len(defaultDIDMethod)-1] + ":" + parts[2] + ":" + parts[3],
			"short form":            short,
			"no did scheme":         defaultDIDMethod + ":" + parts[2] + ":" + parts[3],
			"empty suffix":          "did:" + defaultDIDMethod + "::" + parts[3],
		} {
			cases++
			if _, err := v.Read(alt); err == nil {
				c17Fail("namespace", "%s resolves: %s...", name, alt[:min(len(alt), 40)])
				return
			}
		}
	}
	fmt.Printf("BOUNDED-CASES %d\n", cases)
}

func tail(s string) string {
	if len(s) > 24 {
		return s[len(s)-24:]
	}
	return s
}
