package doccomposer

// Bounded stand-in (NOT a proof) for the parts of C14 that run through JSON encoding and the
// third-party patch library:
//   - a document converted to patches and applied to an empty document gives the document back;
//   - every patch built by the eight constructors from valid input passes validation;
//   - patch -> bytes -> patch is the identity, and the accessors of the re-read patch agree with it;
//   - a document with an id is refused; bytes without a supported action / without the action's value
//     member are not a patch.
// Bound: documents over 0..2 keys, 0..2 services, 0..2 also-known-as URIs (absent or non-empty
// lists), 0..3 further members drawn from 6 names x 13 JSON values (nested objects, arrays, the empty array / object / string, numbers,
// strings with escapes, HTML-sensitive characters and literal backslash-u text, booleans, null); quick tier: every list combination x a seeded sample of 40 extra
// member sets, thorough tier: x 400.

import (
	"encoding/json"
	"fmt"
	"math/rand"
	"os"
	"reflect"
	"strconv"
	"strings"
	"testing"

	"github.com/trustbloc/sidetree-go/pkg/document"
	"github.com/trustbloc/sidetree-go/pkg/patch"
	"github.com/trustbloc/sidetree-go/pkg/versions/1_0/operationparser/patchvalidator"
)

func rtFail(id, format string, args ...interface{}) {
	fmt.Printf("BOUNDED-FAIL %s %s\n", id, strings.ReplaceAll(fmt.Sprintf(format, args...), "\n", " "))
}

func rtKey(id string) map[string]interface{} {
	return map[string]interface{}{
		"id": id, "type": "JsonWebKey2020", "purposes": []interface{}{"authentication", "keyAgreement"},
		"publicKeyJwk": map[string]interface{}{"kty": "EC", "crv": "P-256K", "x": "PUymIqdtF_qxaAqPABSw-C-owT1KYYQbsMKFM-L9fJA", "y": "nM84jDHCMOTGTh_ZdHq4dBBdo4Z5PkEOW9jA8z8IsGc"},
	}
}

func rtSvc(id string) map[string]interface{} {
	return map[string]interface{}{"id": id, "type": "LinkedDomains", "serviceEndpoint": map[string]interface{}{"origins": []interface{}{"https://a.example/"}}}
}

func rtJSON(v interface{}) string {
	b, err := json.Marshal(v)
	if err != nil {
		panic(err)
	}
	return string(b)
}

func rtNorm(v interface{}) interface{} {
	var out interface{}
	if err := json.Unmarshal([]byte(rtJSON(v)), &out); err != nil {
		panic(err)
	}
	return out
}

func TestVerifBoundedRoundTrip(t *testing.T) {
	seed, _ := strconv.ParseInt(os.Getenv("VERIF_SEED"), 10, 64)
	samples := 40
	if os.Getenv("VERIF_TIER") == "thorough" {
		samples = 400
	}
	r := rand.New(rand.NewSource(seed))
	names := []string{"note", "x", "created", "a b", "Meta", "z9"}
	values := []interface{}{
		map[string]interface{}{"k": []interface{}{1.5, "two", nil, true}, "o": map[string]interface{}{"deep": map[string]interface{}{"er": "v"}}},
		[]interface{}{map[string]interface{}{"id": "inner"}, []interface{}{}},
		"text with \"quotes\" and \\ and é \n newline",
		float64(1e21), false, nil,
		"a<b>&c", "back\\u0026slash \\u003c text", []interface{}{nil, "x & y"},
		[]interface{}{}, map[string]interface{}{}, "", float64(0),
	}
	cases := 0
	composer := New()
	var allPatches []patch.Patch
	for nk := 0; nk <= 2; nk++ {
		for ns := 0; ns <= 2; ns++ {
			for na := 0; na <= 2; na++ {
				for s := 0; s < samples; s++ {
					doc := map[string]interface{}{}
					if nk > 0 {
						var l []interface{}
						for i := 0; i < nk; i++ {
							l = append(l, rtKey("key"+strconv.Itoa(i)))
						}
						doc["publicKey"] = l
					}
					if ns > 0 {
						var l []interface{}
						for i := 0; i < ns; i++ {
							l = append(l, rtSvc("svc"+strconv.Itoa(i)))
						}
						doc["service"] = l
					}
					if na > 0 {
						var l []interface{}
						for i := 0; i < na; i++ {
							l = append(l, "https://aka"+strconv.Itoa(i)+".example/")
						}
						doc["alsoKnownAs"] = l
					}
					for e := r.Intn(4); e > 0; e-- {
						doc[names[r.Intn(len(names))]] = values[r.Intn(len(values))]
					}
					src := rtJSON(doc)
					patches, err := patch.PatchesFromDocument(src)
					cases++
					if err != nil {
						rtFail("to-patches", "document %s refused: %v", src, err)
						return
					}
					for _, p := range patches {
						if err := patchvalidator.Validate(p); err != nil {
							act, _ := p.GetAction()
							rtFail("validate", "patch (%s) made from document %s does not validate: %v", act, src, err)
							return
						}
					}
					if s < 3 {
						allPatches = append(allPatches, patches...)
					}
					res, err := composer.ApplyPatches(make(document.Document), patches)
					if err != nil {
						rtFail("apply", "patches of document %s do not apply to the empty document: %v", src, err)
						return
					}
					if !reflect.DeepEqual(rtNorm(res), rtNorm(doc)) {
						rtFail("roundtrip", "document %s comes back as %s", src, rtJSON(res))
						return
					}
					// the same document with an id is refused
					doc["id"] = "did:example:123"
					if _, err := patch.PatchesFromDocument(rtJSON(doc)); err == nil {
						rtFail("id", "document with an id accepted: %s", rtJSON(doc))
						return
					}
				}
			}
		}
	}
	// constructors -> validation, bytes round trip, accessors
	mk := func(p patch.Patch, err error) patch.Patch {
		if err != nil {
			rtFail("constructor", "%v", err)
			return nil
		}
		return p
	}
	ctor := []patch.Patch{
		mk(patch.NewReplacePatch(rtJSON(map[string]interface{}{"publicKeys": []interface{}{rtKey("k")}, "services": []interface{}{rtSvc("s")}}))),
		mk(patch.NewReplacePatch(rtJSON(map[string]interface{}{"publicKeys": []interface{}{rtKey("k")}}))),
		mk(patch.NewJSONPatch(`[{"op":"add","path":"/note","value":{"a":1}},{"op":"remove","path":"/note"}]`)),
		mk(patch.NewAddPublicKeysPatch(rtJSON([]interface{}{rtKey("k1"), rtKey("k2")}))),
		mk(patch.NewRemovePublicKeysPatch(`["k1","k2"]`)),
		mk(patch.NewAddServiceEndpointsPatch(rtJSON([]interface{}{rtSvc("s1")}))),
		mk(patch.NewRemoveServiceEndpointsPatch(`["s1"]`)),
		mk(patch.NewAddAlsoKnownAs(`["https://a.example/","https://b.example/"]`)),
		mk(patch.NewRemoveAlsoKnownAs(`["https://a.example/"]`)),
	}
	for _, p := range append(ctor, allPatches...) {
		if p == nil {
			return
		}
		cases++
		act, err := p.GetAction()
		if err != nil {
			rtFail("accessor", "constructed patch has no action: %v", err)
			return
		}
		if err := patchvalidator.Validate(p); err != nil {
			rtFail("validate", "patch built by the %s constructor does not validate: %v", act, err)
			return
		}
		b, err := p.Bytes()
		if err != nil {
			rtFail("bytes", "%s: %v", act, err)
			return
		}
		q, err := patch.FromBytes(b)
		if err != nil {
			rtFail("frombytes", "%s: own bytes %s not accepted: %v", act, b, err)
			return
		}
		act2, err2 := q.GetAction()
		v1, _ := p.GetValue()
		v2, err3 := q.GetValue()
		if err2 != nil || err3 != nil || act2 != act || !reflect.DeepEqual(rtNorm(v1), rtNorm(v2)) || !reflect.DeepEqual(rtNorm(map[string]interface{}(nil)), rtNorm(nil)) {
			rtFail("accessors", "%s: re-read patch disagrees (action %q, errors %v %v)", act, act2, err2, err3)
			return
		}
		b2, _ := q.Bytes()
		if string(b2) != string(b) {
			rtFail("stable", "%s: bytes of the re-read patch differ: %s vs %s", act, b2, b)
			return
		}
		// dropping the action or the value member makes the bytes unacceptable
		var m map[string]json.RawMessage
		_ = json.Unmarshal(b, &m)
		for k := range m {
			m2 := map[string]json.RawMessage{}
			for k2, v := range m {
				if k2 != k {
					m2[k2] = v
				}
			}
			cases++
			if _, err := patch.FromBytes([]byte(rtJSON(m2))); err == nil {
				rtFail("missing-member", "%s: bytes without member %q accepted", act, k)
				return
			}
		}
		m["action"] = json.RawMessage(`"` + string(act) + `x"`)
		if _, err := patch.FromBytes([]byte(rtJSON(m))); err == nil {
			rtFail("unknown-action", "action %sx accepted", act)
			return
		}
	}
	fmt.Printf("BOUNDED-CASES %d\n", cases)
}
