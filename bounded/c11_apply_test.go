package doccomposer

// Bounded stand-in (NOT a proof) for the part of C11 that lives in the third-party patch library:
// an ietf-json-patch that passes validation leaves the publicKey and service members unchanged when
// it is applied. (The validator's own rule is proved; the pointer-token lemma is discharged in the
// solver's string theory; what is checked here is the library's resolution of pointers.)
// Bound: all pointers of 1..3 tokens over {publicKey, service, publicKeyX, x, ~0, ~1, 0, -, ""},
// with and without leading slash, as `path` and as `from`, for the six operation kinds
// (quick tier: 1..2 tokens everywhere + seeded sample of 3-token pointers; thorough: all).

import (
	"encoding/json"
	"fmt"
	"math/rand"
	"os"
	"strconv"
	"strings"
	"testing"

	"github.com/trustbloc/sidetree-go/pkg/document"
	"github.com/trustbloc/sidetree-go/pkg/patch"
	"github.com/trustbloc/sidetree-go/pkg/versions/1_0/operationparser/patchvalidator"
)

const vbDoc = `{"publicKey":[{"id":"k1","type":"JsonWebKey2020","x":{"y":1}}],"service":[{"id":"s1","serviceEndpoint":"https://a.example"}],"publicKeyX":[1],"x":{"publicKey":1,"service":[2],"0":3},"~":4,"/":5,"0":6,"":{"publicKey":7}}`

func vbSnapshot(d document.Document) string {
	b, _ := json.Marshal(map[string]interface{}{"k": d["publicKey"], "s": d["service"]})
	return string(b)
}

func vbTry(ops string) (accepted bool, changed bool, panicked bool, detail string) {
	defer func() {
		if r := recover(); r != nil {
			panicked = true
		}
	}()
	doc, _ := document.FromBytes([]byte(vbDoc))
	before := vbSnapshot(doc)
	p, err := patch.NewJSONPatch(ops)
	if err != nil {
		return false, false, false, ""
	}
	if err := patchvalidator.Validate(p); err != nil {
		return false, false, false, ""
	}
	res, err := New().ApplyPatches(doc, []patch.Patch{p})
	if err != nil {
		return true, false, false, ""
	}
	after := vbSnapshot(res)
	return true, after != before, false, before + " -> " + after
}

func TestVerifBoundedJSONPatchApply(t *testing.T) {
	seed, _ := strconv.ParseInt(os.Getenv("VERIF_SEED"), 10, 64)
	thorough := os.Getenv("VERIF_TIER") == "thorough"
	toks := []string{"publicKey", "service", "publicKeyX", "x", "~0", "~1", "0", "-", ""}
	var ptrs []string
	var gen func(prefix []string, depth int)
	gen = func(prefix []string, depth int) {
		if len(prefix) > 0 {
			ptrs = append(ptrs, "/"+strings.Join(prefix, "/"), strings.Join(prefix, "/"))
		}
		if depth == 3 {
			return
		}
		for _, tk := range toks {
			gen(append(append([]string{}, prefix...), tk), depth+1)
		}
	}
	gen(nil, 0)
	ptrs = append(ptrs, "")
	r := rand.New(rand.NewSource(seed))
	cases, accepted, panics := 0, 0, 0
	q := func(s string) string { b, _ := json.Marshal(s); return string(b) }
	for _, ptr := range ptrs {
		if !thorough && strings.Count(ptr, "/") >= 3 && r.Intn(8) != 0 {
			continue
		}
		var opsList []string
		for _, kind := range []string{"add", "replace", "test"} {
			opsList = append(opsList, fmt.Sprintf(`[{"op":%q,"path":%s,"value":{"id":"evil"}}]`, kind, q(ptr)))
		}
		opsList = append(opsList, fmt.Sprintf(`[{"op":"remove","path":%s}]`, q(ptr)))
		for _, kind := range []string{"move", "copy"} {
			opsList = append(opsList, fmt.Sprintf(`[{"op":%q,"from":%s,"path":"/target"}]`, kind, q(ptr)))
			opsList = append(opsList, fmt.Sprintf(`[{"op":%q,"from":"/x","path":%s}]`, kind, q(ptr)))
		}
		// a superfluous 'from' on an operation that does not use it
		opsList = append(opsList, fmt.Sprintf(`[{"op":"remove","from":"/x","path":%s}]`, q(ptr)))
		for _, ops := range opsList {
			cases++
			acc, changed, pan, detail := vbTry(ops)
			if pan {
				panics++
				continue
			}
			if acc {
				accepted++
			}
			if acc && changed {
				id := strings.NewReplacer(" ", "", "\"", "", "{", "", "}", "", "[", "", "]", "", ":", "=", ",", ";").Replace(ops)
				fmt.Printf("BOUNDED-FAIL patch-%s validated json patch changed keys/services: %s\n", id, detail)
				t.Fail()
				return
			}
		}
	}
	// copies and moves between locations one of which lies inside the other, in every spelling the patch
	// library treats as the same location, alone and through an alias made by an earlier copy. A patch
	// that passes validation must apply or fail with an error: a cyclic document kills the process
	// (stack overflow when it is marshalled), which this harness reports as a panic of the run.
	spell := map[string][]string{"a": {"a"}, "0": {"0", "+0", "00", "-0"}, "~": {"~0", "~"}, "s/l": {"s~1l"}}
	var locs [][]string
	for _, l := range [][]string{{"a"}, {"a", "0"}, {"~"}, {"s/l"}, {"a", "0", "~"}} {
		locs = append(locs, l)
	}
	spellings := func(loc []string) []string {
		out := []string{""}
		for _, tok := range loc {
			var next []string
			for _, pre := range out {
				for _, sp := range spell[tok] {
					next = append(next, pre+"/"+sp)
				}
			}
			out = next
		}
		return out
	}
	setup := `{"op":"add","path":"/a","value":[{"~":{}}]},{"op":"add","path":"/~0","value":{}},{"op":"add","path":"/s~1l","value":{}}`
	for _, from := range locs {
		for _, fs := range spellings(from) {
			for _, child := range []string{"x", "0", "~0"} {
				for _, ps := range spellings(from) {
					for _, kind := range []string{"copy", "move"} {
						direct := fmt.Sprintf(`[%s,{"op":%q,"from":%s,"path":%s}]`, setup, kind, q(fs), q(ps+"/"+child))
						alias := fmt.Sprintf(`[%s,{"op":"copy","from":%s,"path":"/alias"},{"op":%q,"from":"/alias","path":%s}]`, setup, q(fs), kind, q(ps+"/"+child))
						for _, ops := range []string{direct, alias} {
							cases++
							if _, _, pan, _ := vbTry(ops); pan {
								panics++
							}
						}
					}
				}
			}
		}
	}
	fmt.Printf("BOUNDED-INFO accepted=%d panics=%d\n", accepted, panics)
	fmt.Printf("BOUNDED-CASES %d\n", cases)
}
