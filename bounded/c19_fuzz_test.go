package dochandler

// Bounded stand-in (NOT a proof) for the parts of C19 that contracts cannot express or that live in
// third-party code: every entry point is run on structure-aware corruptions of valid operations,
// patches, JWS strings and DIDs under recover(); a panic is a failure. Deep nesting is probed in a
// child process (stack exhaustion is fatal, not recoverable).
// Bound: quick tier ~6000 inputs (seeded sample of the corruption space), thorough tier all single
// corruptions (every JSON position x 9 replacement values + deletions + truncations).

import (
	"crypto/ecdsa"
	"crypto/elliptic"
	"crypto/rand"
	"encoding/json"
	"fmt"
	mrand "math/rand"
	"os"
	"os/exec"
	"strconv"
	"strings"
	"testing"

	"github.com/trustbloc/sidetree-go/pkg/api/operation"
	"github.com/trustbloc/sidetree-go/pkg/api/protocol"
	"github.com/trustbloc/sidetree-go/pkg/canonicalizer"
	"github.com/trustbloc/sidetree-go/pkg/commitment"
	"github.com/trustbloc/sidetree-go/pkg/document"
	"github.com/trustbloc/sidetree-go/pkg/encoder"
	"github.com/trustbloc/sidetree-go/pkg/jws"
	"github.com/trustbloc/sidetree-go/pkg/jwsutil"
	"github.com/trustbloc/sidetree-go/pkg/mocks"
	"github.com/trustbloc/sidetree-go/pkg/patch"
	"github.com/trustbloc/sidetree-go/pkg/util/ecsigner"
	"github.com/trustbloc/sidetree-go/pkg/util/pubkey"
	"github.com/trustbloc/sidetree-go/pkg/versions/1_0/client"
	"github.com/trustbloc/sidetree-go/pkg/versions/1_0/doccomposer"
	"github.com/trustbloc/sidetree-go/pkg/versions/1_0/doctransformer/didtransformer"
	"github.com/trustbloc/sidetree-go/pkg/versions/1_0/operationapplier"
	"github.com/trustbloc/sidetree-go/pkg/versions/1_0/operationparser"
	"github.com/trustbloc/sidetree-go/pkg/versions/1_0/operationparser/patchvalidator"
)

const vfDoc = `{"publicKey":[{"id":"key1","type":"JsonWebKey2020","purposes":["authentication"],"publicKeyJwk":{"kty":"EC","crv":"P-256","x":"PUymIqdtF_qxaAqPABSw-C-owT1KYYQbsMKFM-L9fJA","y":"nM84jDHCMOTGTh_ZdHq4dBBdo4Z5PkEOW9jA8z8IsGc"}}],"service":[{"id":"svc1","type":"T","serviceEndpoint":"https://a.example"}],"alsoKnownAs":["https://b.example"],"extra":{"a":[1,2,{"b":null}]}}`

var vfReplacements = []interface{}{nil, float64(0), float64(-1), "", "x", true, []interface{}{}, map[string]interface{}{}, []interface{}{nil, "a", float64(1)}}

// vfMutations returns single-position corruptions of a JSON value.
func vfMutations(v interface{}) []interface{} {
	var out []interface{}
	var walk func(cur interface{}, rebuild func(interface{}) interface{})
	walk = func(cur interface{}, rebuild func(interface{}) interface{}) {
		for _, r := range vfReplacements {
			out = append(out, rebuild(r))
		}
		switch t := cur.(type) {
		case map[string]interface{}:
			for k, child := range t {
				k, child := k, child
				// deletion
				cp := map[string]interface{}{}
				for kk, vv := range t {
					if kk != k {
						cp[kk] = vv
					}
				}
				out = append(out, rebuild(cp))
				walk(child, func(n interface{}) interface{} {
					cp := map[string]interface{}{}
					for kk, vv := range t {
						cp[kk] = vv
					}
					cp[k] = n
					return rebuild(cp)
				})
			}
		case []interface{}:
			for i, child := range t {
				i, child := i, child
				walk(child, func(n interface{}) interface{} {
					cp := append([]interface{}{}, t...)
					cp[i] = n
					return rebuild(cp)
				})
			}
		case string:
			// strings that carry structure: compact JWS, base64 JSON, pointers
			cand := []string{t + ".", "." + t, strings.Replace(t, ".", "", 1), t[:len(t)/2], strings.Repeat(t, 3), "/" + t, t + "/-1", t + "/0"}
			if strings.HasPrefix(t, "/") {
				parent := t[:strings.LastIndex(t, "/")]
				cand = append(cand, "/nokey", parent+"/-1", parent+"/7", parent+"/-", parent+"/01", parent, parent+"/~2", t+"/"+t)
			}
			for _, s := range cand {
				out = append(out, rebuild(s))
			}
		}
	}
	walk(v, func(n interface{}) interface{} { return n })
	return out
}

func vfGuard(t *testing.T, what string, input interface{}, f func()) (ok bool) {
	defer func() {
		if r := recover(); r != nil {
			b, _ := json.Marshal(input)
			id := strings.NewReplacer(" ", "", "\"", "", "{", "", "}", "", "[", "", "]", "", ":", "=", ",", ";").Replace(string(b))
			if len(id) > 120 {
				id = id[:120]
			}
			fmt.Printf("BOUNDED-FAIL %s-%s panic: %v input=%.600s\n", what, id, r, b)
			t.Fail()
			ok = false
		}
	}()
	f()
	return true
}

type vfKeys struct {
	priv *ecdsa.PrivateKey
}

func TestVerifBoundedFuzz(t *testing.T) {
	if os.Getenv("VERIF_DEPTH_CHILD") != "" {
		n, _ := strconv.Atoi(os.Getenv("VERIF_DEPTH_CHILD"))
		in := []byte(strings.Repeat("[", n) + strings.Repeat("]", n))
		_, _ = canonicalizer.MarshalCanonical(in)
		_, _ = patch.FromBytes([]byte(`{"action":"ietf-json-patch","patches":` + string(in) + `}`))
		return
	}
	seed, _ := strconv.ParseInt(os.Getenv("VERIF_SEED"), 10, 64)
	thorough := os.Getenv("VERIF_TIER") == "thorough"
	rnd := mrand.New(mrand.NewSource(seed))
	keep := func() bool { return thorough || rnd.Intn(4) == 0 }
	cases := 0

	p := mocks.NewMockProtocolClient().Protocol
	parser := operationparser.New(p)
	composer := doccomposer.New()
	applier := operationapplier.New(p, parser, composer)
	transformer := didtransformer.New(didtransformer.WithBase(true))

	priv, _ := ecdsa.GenerateKey(elliptic.P256(), rand.Reader)
	jwk, _ := pubkey.GetPublicKeyJWK(&priv.PublicKey)
	signer := ecsigner.New(priv, "ES256", "")
	rv, _ := commitment.GetRevealValue(jwk, 18)
	next, _ := ecdsa.GenerateKey(elliptic.P256(), rand.Reader)
	nextJWK, _ := pubkey.GetPublicKeyJWK(&next.PublicKey)
	nextCommitment, _ := commitment.GetCommitment(nextJWK, 18)
	curCommitment, _ := commitment.GetCommitment(jwk, 18)

	createReq, err := client.NewCreateRequest(&client.CreateRequestInfo{OpaqueDocument: vfDoc, RecoveryCommitment: curCommitment, UpdateCommitment: nextCommitment, MultihashCode: 18, AnchorOrigin: "origin"})
	if err != nil {
		t.Fatal(err)
	}
	jp, _ := patch.NewJSONPatch(`[{"op":"add","path":"/extra/a/0","value":{"x":1}},{"op":"test","path":"/extra/a/1","value":2},{"op":"move","from":"/extra/a/0","path":"/moved"}]`)
	addKeys, _ := patch.NewAddPublicKeysPatch(`[{"id":"key2","type":"JsonWebKey2020","purposes":["authentication"],"publicKeyJwk":{"kty":"EC","crv":"P-256","x":"PUymIqdtF_qxaAqPABSw-C-owT1KYYQbsMKFM-L9fJA","y":"nM84jDHCMOTGTh_ZdHq4dBBdo4Z5PkEOW9jA8z8IsGc"}}]`)
	rmKeys, _ := patch.NewRemovePublicKeysPatch(`["key1"]`)
	addSvc, _ := patch.NewAddServiceEndpointsPatch(`[{"id":"svc2","type":"T","serviceEndpoint":["https://c.example",{"x":1}]}]`)
	rmSvc, _ := patch.NewRemoveServiceEndpointsPatch(`["svc1"]`)
	addAKA, _ := patch.NewAddAlsoKnownAs(`["https://d.example"]`)
	rmAKA, _ := patch.NewRemoveAlsoKnownAs(`["https://b.example"]`)
	repl, _ := patch.NewReplacePatch(`{"publicKeys":[{"id":"key3","type":"JsonWebKey2020","publicKeyJwk":{"kty":"EC","crv":"P-256","x":"x","y":"y"}}],"services":[]}`)
	allPatches := []patch.Patch{jp, addKeys, rmKeys, addSvc, rmSvc, addAKA, rmAKA, repl}
	updateReq, err := client.NewUpdateRequest(&client.UpdateRequestInfo{DidSuffix: "EiDahaOGH-liLLdDtTxEAdc8i-cfCz-WUcQdRJheMVNn3A", Patches: allPatches[:3], UpdateCommitment: nextCommitment,
		UpdateKey: jwk, MultihashCode: 18, Signer: signer, RevealValue: rv})
	if err != nil {
		t.Fatal(err)
	}
	recoverReq, err := client.NewRecoverRequest(&client.RecoverRequestInfo{DidSuffix: "EiDahaOGH-liLLdDtTxEAdc8i-cfCz-WUcQdRJheMVNn3A", OpaqueDocument: vfDoc, RecoveryKey: jwk,
		RecoveryCommitment: nextCommitment, UpdateCommitment: curCommitment, MultihashCode: 18, Signer: signer, RevealValue: rv, AnchorOrigin: "origin"})
	if err != nil {
		t.Fatal(err)
	}
	deactReq, err := client.NewDeactivateRequest(&client.DeactivateRequestInfo{DidSuffix: "EiDahaOGH-liLLdDtTxEAdc8i-cfCz-WUcQdRJheMVNn3A", RecoveryKey: jwk, Signer: signer, RevealValue: rv})
	if err != nil {
		t.Fatal(err)
	}
	baseDoc, _ := document.FromBytes([]byte(vfDoc))

	runOperation := func(raw []byte, what string, in interface{}) bool {
		cases++
		return vfGuard(t, what, in, func() {
			_, _ = parser.Parse("did:sidetree", raw)
			_, _ = parser.GetRevealValue(raw)
			_, _ = parser.GetCommitment(raw)
			for _, typ := range []operation.Type{operation.TypeCreate, operation.TypeUpdate, operation.TypeRecover, operation.TypeDeactivate, "other"} {
				rm := &protocol.ResolutionModel{}
				if typ != operation.TypeCreate {
					rm.Doc = baseDoc
				}
				res, err := applier.Apply(&operation.AnchoredOperation{Type: typ, OperationRequest: raw, UniqueSuffix: "abc", TransactionTime: 1}, rm)
				if err == nil && res != nil && res.Doc != nil {
					_, _ = transformer.TransformDocument(res, protocol.TransformationInfo{document.IDProperty: "did:sidetree:abc", document.PublishedProperty: true})
				}
			}
			dh, _ := New("did:sidetree")
			_, _ = dh.ProcessOperation(raw)
		})
	}
	for _, req := range [][]byte{createReq, updateReq, recoverReq, deactReq} {
		var tree interface{}
		if err := json.Unmarshal(req, &tree); err != nil {
			t.Fatal(err)
		}
		if !runOperation(req, "operation", tree) {
			return
		}
		for _, m := range vfMutations(tree) {
			if !keep() {
				continue
			}
			raw, err := json.Marshal(m)
			if err != nil {
				continue
			}
			if !runOperation(raw, "operation", m) {
				return
			}
		}
		for _, cut := range []int{0, 1, len(req) / 2, len(req) - 1} {
			if !runOperation(req[:cut], "operation-truncated", cut) {
				return
			}
		}
	}
	// patches: parse, validate, apply, transform
	for _, pt := range allPatches {
		b, _ := pt.Bytes()
		var tree interface{}
		_ = json.Unmarshal(b, &tree)
		for _, m := range append([]interface{}{tree}, vfMutations(tree)...) {
			if tree.(map[string]interface{})["action"] != "ietf-json-patch" && !keep() {
				continue
			}
			raw, err := json.Marshal(m)
			if err != nil {
				continue
			}
			cases++
			if !vfGuard(t, "patch", m, func() {
				parsed, err := patch.FromBytes(raw)
				if err != nil {
					return
				}
				verr := patchvalidator.Validate(parsed)
				// apply validated patches to an empty and to a populated document
				if verr == nil {
					for _, d := range []document.Document{{}, baseDoc} {
						res, err := composer.ApplyPatches(d, []patch.Patch{parsed})
						if err == nil {
							_, _ = transformer.TransformDocument(&protocol.ResolutionModel{Doc: res}, protocol.TransformationInfo{document.IDProperty: "did:sidetree:abc", document.PublishedProperty: true})
						}
					}
				}
			}) {
				return
			}
		}
	}
	// JWS strings
	var updTree map[string]interface{}
	_ = json.Unmarshal(updateReq, &updTree)
	jwsStr, _ := updTree["signedData"].(string)
	parts := strings.Split(jwsStr, ".")
	var jwsInputs []string
	jwsInputs = append(jwsInputs, jwsStr, "", ".", "..", "...", "a.b.c", parts[0]+".."+parts[2], parts[0]+"."+parts[1]+".", "{"+jwsStr, jwsStr+"."+jwsStr)
	for i := range parts {
		for _, rep := range []string{"", "!", encoder.EncodeToString([]byte("null")), encoder.EncodeToString([]byte(`{"alg":1}`)), encoder.EncodeToString([]byte(`[]`)), encoder.EncodeToString([]byte(`{"alg":"ES256","b64":"x"}`))} {
			cp := append([]string{}, parts...)
			cp[i] = rep
			jwsInputs = append(jwsInputs, strings.Join(cp, "."))
		}
	}
	for _, in := range jwsInputs {
		for _, k := range []*jws.JWK{jwk, nextJWK} {
			k := k
			cases++
			if !vfGuard(t, "jws", in, func() {
				_, _ = jwsutil.ParseJWS(in)
				_, _ = jwsutil.VerifyJWS(in, k)
			}) {
				return
			}
		}
	}
	_ = nextJWK
	// canonicalizer on corrupted JSON and raw bytes
	var docTree interface{}
	_ = json.Unmarshal([]byte(vfDoc), &docTree)
	for _, m := range vfMutations(docTree) {
		if !keep() {
			continue
		}
		cases++
		if !vfGuard(t, "canonical", m, func() { _, _ = canonicalizer.MarshalCanonical(m) }) {
			return
		}
	}
	for i := 0; i < 400; i++ {
		b := []byte(vfDoc)
		for k := 0; k < 1+rnd.Intn(3); k++ {
			b[rnd.Intn(len(b))] = byte(rnd.Intn(256))
		}
		cases++
		if !vfGuard(t, "canonical-bytes", string(b), func() { _, _ = canonicalizer.MarshalCanonical(b) }) {
			return
		}
	}
	// DIDs
	dh, _ := New("did:sidetree")
	initial := encoder.EncodeToString(createReq)
	var cr map[string]interface{}
	_ = json.Unmarshal(createReq, &cr)
	for _, did := range []string{"", "did", "did:sidetree", "did:sidetree:", "did:sidetree::", "did:sidetreeX:abc:" + initial, "did:sidetree:abc:" + initial, "did:sidetree:abc:" + initial + ":", ":" + initial,
		"did:sidetree:abc:" + initial[:len(initial)/2], "did:sidetree:did:sidetree:" + initial, "did:sidetree:abc:e30", "did:sidetree:abc:bnVsbA", "did:sidetree:abc:W10", "did:sidetree:" + strings.Repeat(":", 50)} {
		cases++
		if !vfGuard(t, "did", did, func() {
			_, _ = dh.ResolveDocument(did)
			_, _, _ = parser.ParseDID("did:sidetree", did)
		}) {
			return
		}
	}
	// nesting depth: stack exhaustion kills the process, so probe in a child
	depths := []int{1000, 9999, 10001, 4000000}
	if thorough {
		depths = append(depths, 100000, 1000000, 20000000)
	}
	for _, n := range depths {
		cases++
		cmd := exec.Command(os.Args[0], "-test.run=^TestVerifBoundedFuzz$")
		cmd.Env = append(os.Environ(), "VERIF_DEPTH_CHILD="+strconv.Itoa(n))
		out, err := cmd.CombinedOutput()
		if err != nil {
			first := strings.SplitN(string(out), "\n", 2)[0]
			fmt.Printf("BOUNDED-FAIL depth-%d child process died on %d nested brackets: %v %.200s\n", n, n, err, first)
			t.Fail()
			return
		}
	}
	fmt.Printf("BOUNDED-CASES %d\n", cases)
}
