package metadata

// Bounded stand-in (NOT a proof) for the contract of getPublishedOperations:
// output = operations de-duplicated by canonical reference (first in anchoring order wins),
// in anchoring order (time, then number), fields copied one to one.
// Bound: every list of 0..4 operations with (time, number) in {1,2}x{1,2} and canonical
// reference in {a,b} (exhaustive: 1 + 8 + 64 + 512 + 4096 lists).

import (
	"fmt"
	"testing"

	"github.com/trustbloc/sidetree-go/pkg/api/operation"
)

func TestVerifBoundedPublished(t *testing.T) {
	type cfg struct {
		t, n uint64
		ref  string
	}
	var all []cfg
	for _, tt := range []uint64{1, 2} {
		for _, n := range []uint64{1, 2} {
			for _, r := range []string{"a", "b"} {
				all = append(all, cfg{tt, n, r})
			}
		}
	}
	before := func(a, b *operation.AnchoredOperation) bool {
		return a.TransactionTime < b.TransactionTime || (a.TransactionTime == b.TransactionTime && a.TransactionNumber < b.TransactionNumber)
	}
	cases := 0
	var rec func(prefix []cfg, depth int) bool
	rec = func(prefix []cfg, depth int) bool {
		// check this list
		ops := make([]*operation.AnchoredOperation, len(prefix))
		for i, c := range prefix {
			ops[i] = &operation.AnchoredOperation{Type: operation.TypeUpdate, OperationRequest: []byte{byte(i)}, TransactionTime: c.t, TransactionNumber: c.n,
				ProtocolVersion: uint64(i), CanonicalReference: c.ref, EquivalentReferences: []string{c.ref}, AnchorOrigin: fmt.Sprint(i)}
		}
		res := getPublishedOperations(ops)
		cases++
		fail := func(msg string) bool {
			fmt.Printf("BOUNDED-FAIL list-%v %s\n", prefix, msg)
			t.Fail()
			return false
		}
		seen := map[string]bool{}
		for j, p := range res {
			if p == nil {
				return fail("nil entry")
			}
			if seen[p.CanonicalReference] {
				return fail("duplicate canonical reference in output")
			}
			seen[p.CanonicalReference] = true
			if j > 0 {
				a, b := res[j-1], res[j]
				if b.TransactionTime < a.TransactionTime || (b.TransactionTime == a.TransactionTime && b.TransactionNumber < a.TransactionNumber) {
					return fail("output not in anchoring order")
				}
			}
			// the entry is the first operation (in anchoring order) with that reference, fields one to one
			var first *operation.AnchoredOperation
			for _, op := range ops {
				if op.CanonicalReference == p.CanonicalReference && (first == nil || before(op, first)) {
					first = op
				}
			}
			if first == nil {
				return fail("output entry without source operation")
			}
			if p.TransactionTime != first.TransactionTime || p.TransactionNumber != first.TransactionNumber {
				return fail("entry is not the first occurrence in anchoring order")
			}
			match := false
			for _, op := range ops {
				if op.TransactionTime == p.TransactionTime && op.TransactionNumber == p.TransactionNumber && op.CanonicalReference == p.CanonicalReference &&
					string(op.OperationRequest) == string(p.OperationRequest) && op.ProtocolVersion == p.ProtocolVersion && op.Type == p.Type &&
					op.AnchorOrigin == p.AnchorOrigin && len(p.EquivalentReferences) == 1 && p.EquivalentReferences[0] == op.EquivalentReferences[0] {
					match = true
				}
			}
			if !match {
				return fail("fields not copied one to one")
			}
		}
		for _, c := range prefix {
			if !seen[c.ref] {
				return fail("canonical reference missing from output")
			}
		}
		if depth == 4 {
			return true
		}
		for _, c := range all {
			if !rec(append(append([]cfg{}, prefix...), c), depth+1) {
				return false
			}
		}
		return true
	}
	rec(nil, 0)
	fmt.Printf("BOUNDED-CASES %d\n", cases)
}
