package patchvalidator

// Bounded stand-in (NOT a proof) for the contract of validatePublicKeyProperties:
//   err == nil  <=>  type and id present, exactly one of publicKeyJwk / publicKeyBase58,
//                    no member other than those four and purposes.
// Bound: every presence pattern of the five known members and two unknown members
// (2^7 = 128 key objects), each member holding a string value. Exhaustive within the bound.

import (
	"fmt"
	"testing"

	"github.com/trustbloc/sidetree-go/pkg/document"
)

func TestVerifBoundedKeyProps(t *testing.T) {
	members := []string{"type", "id", "purposes", "publicKeyJwk", "publicKeyBase58", "controller", "x"}
	cases := 0
	for mask := 0; mask < 1<<len(members); mask++ {
		pk := document.PublicKey{}
		has := map[string]bool{}
		for i, m := range members {
			if mask&(1<<i) != 0 {
				pk[m] = "v"
				has[m] = true
			}
		}
		want := has["type"] && has["id"] && (has["publicKeyJwk"] != has["publicKeyBase58"]) && !has["controller"] && !has["x"]
		got := validatePublicKeyProperties(pk) == nil
		cases++
		if got != want {
			fmt.Printf("BOUNDED-FAIL mask-%d members=%v accepted=%v expected=%v\n", mask, has, got, want)
			t.Fail()
			return
		}
	}
	fmt.Printf("BOUNDED-CASES %d\n", cases)
}
