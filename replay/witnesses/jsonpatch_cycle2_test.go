package doccomposer

import (
	"os"
	"os/exec"
	"testing"

	"github.com/trustbloc/sidetree-go/pkg/document"
	"github.com/trustbloc/sidetree-go/pkg/patch"
	"github.com/trustbloc/sidetree-go/pkg/versions/1_0/operationparser/patchvalidator"
)

// witness for C19: validated ietf-json-patches that make the patch library build a cyclic document
// (alternative spellings of a pointer into an own child; a copy followed by a copy back into the
// original, which the library aliases) must be refused or fail with an error -- not kill the process
// with a stack overflow. Each case runs in a child process because the overflow is not recoverable.
var cycleCases = []string{
	`[{"op":"add","path":"/a","value":[{}]},{"op":"copy","from":"/a/0","path":"/a/+0/x"}]`,
	`[{"op":"add","path":"/~","value":{}},{"op":"copy","from":"/~","path":"/~0/x"}]`,
	`[{"op":"add","path":"/a","value":{}},{"op":"copy","from":"/a","path":"/b"},{"op":"copy","from":"/b","path":"/a/x"}]`,
	`[{"op":"add","path":"/a","value":{"c":{}}},{"op":"copy","from":"/a","path":"/b"},{"op":"move","from":"/b","path":"/a/c/x"}]`,
}

func TestVerifWitnessJSONPatchCycle2(t *testing.T) {
	if i := os.Getenv("VERIF_CYCLE_CASE"); i != "" {
		ops := cycleCases[int(i[0]-'0')]
		p, err := patch.NewJSONPatch(ops)
		if err != nil {
			return
		}
		if err := patchvalidator.Validate(p); err != nil {
			return // refused by validation: fine
		}
		doc, _ := document.FromBytes([]byte(`{"k":1}`))
		_, _ = New().ApplyPatches(doc, []patch.Patch{p}) // an error is fine; a crash is not
		return
	}
	for i, ops := range cycleCases {
		cmd := exec.Command(os.Args[0], "-test.run", "^TestVerifWitnessJSONPatchCycle2$")
		cmd.Env = append(os.Environ(), "VERIF_CYCLE_CASE="+string(rune('0'+i)))
		out, err := cmd.CombinedOutput()
		if err != nil {
			msg := string(out)
			if len(msg) > 300 {
				msg = msg[:300]
			}
			t.Fatalf("VERIF-REPLAY-FAIL validated patch %s kills the process: %v: %s", ops, err, msg)
		}
	}
}
