package dochandler

import (
	"encoding/base64"
	"fmt"
	"strings"
	"testing"
)

// witness for C17: an initial state whose request says "type":"update" (one character of the DID
// changed so that the text stays canonical) must not resolve as a create request
func TestVerifWitnessInitialStateType(t *testing.T) {
	const suffix = `EiD9H4OHw5X4ctS1Q1G9LxmyEed9WDBW_QZ4VMpuOtRciw`
	const jcs = `eyJkZWx0YSI6eyJwYXRjaGVzIjpbeyJhY3Rpb24iOiJyZXBsYWNlIiwiZG9jdW1lbnQiOnsicHVibGljS2V5cyI6W3siaWQiOiJzaWduaW5nS2V5IiwicHVibGljS2V5SndrIjp7ImNydiI6InNlY3AyNTZrMSIsImt0eSI6IkVDIiwieCI6IndkRGZEakwxRlFET3NwcC1xdmRLUUtyNzllbTdOczJFNVNBVWE5aElRaTQiLCJ5IjoiUGZmc0hEYXA1X0t3UlZwNzgtaUJaQm5XQTZMS3p6bGIxSXJ3VWhFakpuOCJ9LCJwdXJwb3NlcyI6WyJhdXRoZW50aWNhdGlvbiIsImFzc2VydGlvbk1ldGhvZCIsImNhcGFiaWxpdHlJbnZvY2F0aW9uIiwiY2FwYWJpbGl0eURlbGVnYXRpb24iLCJrZXlBZ3JlZW1lbnQiXSwidHlwZSI6IkVjZHNhU2VjcDI1NmsxVmVyaWZpY2F0aW9uS2V5MjAxOSJ9XSwic2VydmljZXMiOltdfX1dLCJ1cGRhdGVDb21taXRtZW50IjoiRWlBazRmbkFKSTJuZ1Z5ZjhrZ05fbUI5emhmX2FKcmdwa2tlalVIbTR1X3gzQSJ9LCJzdWZmaXhEYXRhIjp7ImRlbHRhSGFzaCI6IkVpQVRaWi1jclh5OXFYeGhGdkFFZElhU0pLY0tTWTVubkZ5bkJCSWtsODF5N1EiLCJyZWNvdmVyeUNvbW1pdG1lbnQiOiJFaUFOOHQ3UHlZYmtONFc3ZEVZX1JZX25YWUNlc1JPQl9mUWxzdWx3eVNyYVF3In0sInR5cGUiOiJjcmVhdGUifQ`
	raw, err := base64.RawURLEncoding.DecodeString(jcs)
	if err != nil {
		t.Fatal(err)
	}
	dh, err := New("did:ion")
	if err != nil {
		t.Fatal(err)
	}
	for _, typ := range []string{"update", "oreate", "deactivate"} {
		alt := strings.Replace(string(raw), `"type":"create"`, `"type":"`+typ+`"`, 1)
		did := fmt.Sprintf("did:ion:%s:%s", suffix, base64.RawURLEncoding.EncodeToString([]byte(alt)))
		if _, err := dh.ResolveDocument(did); err == nil {
			t.Fatalf("VERIF-REPLAY-FAIL long-form DID whose initial state has \"type\":%q resolved as a create request", typ)
		}
	}
}
