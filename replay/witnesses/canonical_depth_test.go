package canonicalizer

import (
	"os"
	"os/exec"
	"strings"
	"testing"
	"time"
)

// witness for C19: deeply nested input must be answered with an error, not exhaust the stack
func TestVerifWitnessDepth(t *testing.T) {
	if os.Getenv("VERIF_CHILD") == "1" {
		n := 4000000
		t0 := time.Now()
		_, err := MarshalCanonical([]byte(strings.Repeat("[", n) + strings.Repeat("]", n)))
		println("done", err != nil, time.Since(t0).String())
		return
	}
	cmd := exec.Command(os.Args[0], "-test.run=^TestVerifWitnessDepth$")
	cmd.Env = append(os.Environ(), "VERIF_CHILD=1")
	out, err := cmd.CombinedOutput()
	if err != nil {
		first := strings.SplitN(string(out), "\n", 2)[0]
		t.Fatalf("VERIF-REPLAY-FAIL child died on 4,000,000 nested brackets: %v %.120s", err, first)
	}
	t.Log(strings.SplitN(string(out), "\n", 2)[0])
}
