package operationparser

import (
	"crypto/ecdsa"
	"crypto/elliptic"
	"crypto/rand"
	"encoding/json"
	"testing"

	"github.com/trustbloc/sidetree-go/pkg/commitment"
	"github.com/trustbloc/sidetree-go/pkg/mocks"
	"github.com/trustbloc/sidetree-go/pkg/patch"
	"github.com/trustbloc/sidetree-go/pkg/util/ecsigner"
	"github.com/trustbloc/sidetree-go/pkg/util/pubkey"
	"github.com/trustbloc/sidetree-go/pkg/versions/1_0/client"
)

// witness for C19: an anchored update request whose delta member is missing must make GetCommitment
// return an error, not panic (batch-mode parsing does not look at the delta)
func TestVerifWitnessGetCommitmentNoDelta(t *testing.T) {
	priv, _ := ecdsa.GenerateKey(elliptic.P256(), rand.Reader)
	jwk, err := pubkey.GetPublicKeyJWK(&priv.PublicKey)
	if err != nil {
		t.Fatal(err)
	}
	rv, _ := commitment.GetRevealValue(jwk, 18)
	next, _ := ecdsa.GenerateKey(elliptic.P256(), rand.Reader)
	nextJWK, _ := pubkey.GetPublicKeyJWK(&next.PublicKey)
	nextCommitment, _ := commitment.GetCommitment(nextJWK, 18)
	p, _ := patch.NewJSONPatch(`[{"op":"add","path":"/x","value":1}]`)
	req, err := client.NewUpdateRequest(&client.UpdateRequestInfo{DidSuffix: "EiDahaOGH-liLLdDtTxEAdc8i-cfCz-WUcQdRJheMVNn3A", Patches: []patch.Patch{p},
		UpdateCommitment: nextCommitment, UpdateKey: jwk, MultihashCode: 18, Signer: ecsigner.New(priv, "ES256", ""), RevealValue: rv})
	if err != nil {
		t.Fatal(err)
	}
	var m map[string]interface{}
	if err := json.Unmarshal(req, &m); err != nil {
		t.Fatal(err)
	}
	delete(m, "delta")
	noDelta, _ := json.Marshal(m)
	parser := New(mocks.NewMockProtocolClient().Protocol)
	defer func() {
		if r := recover(); r != nil {
			t.Fatalf("VERIF-REPLAY-FAIL GetCommitment panicked on an update request without delta: %v", r)
		}
	}()
	if _, err := parser.GetCommitment(noDelta); err == nil {
		t.Fatalf("VERIF-REPLAY-FAIL GetCommitment accepted an update request without delta")
	}
}
