package doccomposer

import (
	"encoding/json"
	"testing"

	"github.com/trustbloc/sidetree-go/pkg/document"
	"github.com/trustbloc/sidetree-go/pkg/patch"
	"github.com/trustbloc/sidetree-go/pkg/versions/1_0/operationparser/patchvalidator"
)

func vwApply(t *testing.T, ops string) (accepted bool, before, after string) {
	doc, _ := document.FromBytes([]byte(`{"publicKey":[{"id":"k1","type":"JsonWebKey2020"}],"service":[{"id":"s1"}],"note":"n"}`))
	p, err := patch.NewJSONPatch(ops)
	if err != nil {
		t.Fatal(err)
	}
	if err := patchvalidator.Validate(p); err != nil {
		return false, "", ""
	}
	res, err := New().ApplyPatches(doc, []patch.Patch{p})
	if err != nil {
		return true, "", ""
	}
	b, _ := json.Marshal(map[string]interface{}{"k": doc["publicKey"], "s": doc["service"]})
	a, _ := json.Marshal(map[string]interface{}{"k": res["publicKey"], "s": res["service"]})
	return true, string(b), string(a)
}

// witnesses for C11: a validated ietf-json-patch must not alter publicKey / service
func TestVerifWitnessJSONPatchFrom(t *testing.T) {
	for _, ops := range []string{
		`[{"op":"move","from":"/publicKey","path":"/moved"}]`,
		`[{"op":"remove","path":"x/publicKey"}]`,
		`[{"op":"replace","path":"x/service","value":[]}]`,
	} {
		ok, b, a := vwApply(t, ops)
		if ok && a != b {
			t.Fatalf("VERIF-REPLAY-FAIL validated json patch %s changed keys/services: %s -> %s", ops, b, a)
		}
	}
}
