package operationparser

import (
	"encoding/json"
	"testing"

	"github.com/trustbloc/sidetree-go/pkg/mocks"
)

func TestVerifProbeAnchorOrigin(t *testing.T) {
	p := mocks.NewMockProtocolClient().Protocol
	parser := New(p)
	cr, err := getCreateRequest()
	if err != nil {
		t.Fatal(err)
	}
	cr.SuffixData.AnchorOrigin = "origin.example"
	req, _ := json.Marshal(cr)
	internal, err := parser.ParseOperation("did:sidetree", req, false)
	if err != nil {
		t.Fatal(err)
	}
	op, err := parser.Parse("did:sidetree", req)
	if err != nil {
		t.Fatal(err)
	}
	if internal.AnchorOrigin != nil && op.AnchorOrigin != internal.AnchorOrigin {
		t.Fatalf("VERIF-REPLAY-FAIL Parse drops the anchor origin: internal=%v api=%v", internal.AnchorOrigin, op.AnchorOrigin)
	}
}
