package dochandler

import (
	"crypto/ecdsa"
	"crypto/elliptic"
	"crypto/rand"
	"testing"

	"github.com/trustbloc/sidetree-go/pkg/commitment"
	"github.com/trustbloc/sidetree-go/pkg/util/ecsigner"
	"github.com/trustbloc/sidetree-go/pkg/util/pubkey"
	"github.com/trustbloc/sidetree-go/pkg/versions/1_0/client"
)

// witness for C19: a valid non-create request handed to ProcessOperation must be answered with an
// error value, not a panic (the handler dereferenced a nil error)
func TestVerifWitnessProcessNonCreate(t *testing.T) {
	priv, err := ecdsa.GenerateKey(elliptic.P256(), rand.Reader)
	if err != nil {
		t.Fatal(err)
	}
	jwk, err := pubkey.GetPublicKeyJWK(&priv.PublicKey)
	if err != nil {
		t.Fatal(err)
	}
	rv, err := commitment.GetRevealValue(jwk, 18)
	if err != nil {
		t.Fatal(err)
	}
	req, err := client.NewDeactivateRequest(&client.DeactivateRequestInfo{DidSuffix: "EiDahaOGH-liLLdDtTxEAdc8i-cfCz-WUcQdRJheMVNn3A", RecoveryKey: jwk,
		Signer: ecsigner.New(priv, "ES256", ""), RevealValue: rv})
	if err != nil {
		t.Fatal(err)
	}
	dh, err := New("did:sidetree")
	if err != nil {
		t.Fatal(err)
	}
	defer func() {
		if r := recover(); r != nil {
			t.Fatalf("VERIF-REPLAY-FAIL ProcessOperation panicked on a valid deactivate request: %v", r)
		}
	}()
	_, perr := dh.ProcessOperation(req)
	if perr == nil {
		t.Fatalf("VERIF-REPLAY-FAIL deactivate request processed without error")
	}
}
