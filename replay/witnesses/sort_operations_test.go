package metadata

import (
	"testing"

	"github.com/trustbloc/sidetree-go/pkg/api/operation"
)

// witness for sortOperations$1#ensures[order]: anchoring order is by transaction time, then by number
func TestVerifWitnessSortOperations(t *testing.T) {
	a := &operation.AnchoredOperation{TransactionTime: 1, TransactionNumber: 2, CanonicalReference: "a"}
	b := &operation.AnchoredOperation{TransactionTime: 2, TransactionNumber: 1, CanonicalReference: "b"}
	ops := []*operation.AnchoredOperation{a, b}
	sortOperations(ops)
	if ops[0].TransactionTime != 1 {
		t.Fatalf("VERIF-REPLAY-FAIL operations (time=1,number=2),(time=2,number=1) sorted as time=%d first", ops[0].TransactionTime)
	}
}
