package doccomposer

import (
	"os"
	"os/exec"
	"testing"

	"github.com/trustbloc/sidetree-go/pkg/document"
	"github.com/trustbloc/sidetree-go/pkg/patch"
	"github.com/trustbloc/sidetree-go/pkg/versions/1_0/operationparser/patchvalidator"
)

// witness for C19: a validated json patch that copies a location into its own child must not kill the process
func TestVerifWitnessJSONPatchCycle(t *testing.T) {
	if os.Getenv("VERIF_CHILD") == "1" {
		doc, _ := document.FromBytes([]byte(`{"x":{"a":1}}`))
		p, _ := patch.NewJSONPatch(`[{"op":"copy","from":"/x","path":"/x/b"}]`)
		if patchvalidator.Validate(p) == nil {
			_, _ = New().ApplyPatches(doc, []patch.Patch{p})
		}
		return
	}
	cmd := exec.Command(os.Args[0], "-test.run=^TestVerifWitnessJSONPatchCycle$")
	cmd.Env = append(os.Environ(), "VERIF_CHILD=1")
	if out, err := cmd.CombinedOutput(); err != nil {
		t.Fatalf("VERIF-REPLAY-FAIL child process died: %v %.200s", err, out)
	}
}
