package jwsutil

import (
	"encoding/base64"
	"testing"

	"github.com/trustbloc/sidetree-go/pkg/jws"
)

// witness for C16: an Ed25519 JWK whose x does not have exactly 32 bytes must be refused, not padded
// or truncated into a different key
func TestVerifWitnessEd25519Width(t *testing.T) {
	for _, n := range []int{3, 31, 33, 64} {
		x := make([]byte, n)
		for i := range x {
			x[i] = byte(i + 1)
		}
		key, err := GetED25519PublicKey(&jws.JWK{Kty: "OKP", Crv: "Ed25519", X: base64.RawURLEncoding.EncodeToString(x)})
		if err == nil {
			t.Fatalf("VERIF-REPLAY-FAIL Ed25519 JWK with a %d-byte x accepted; key read: %x", n, []byte(key))
		}
	}
}
