package dochandler

import (
	"fmt"
	"testing"
)

// witness for C17: a handler for "did:ion" must refuse a DID of the method "ionx" -- a different
// method whose name merely starts with the handler's -- even when suffix and initial state are valid
func TestVerifWitnessNamespacePrefix(t *testing.T) {
	const suffix = `EiD9H4OHw5X4ctS1Q1G9LxmyEed9WDBW_QZ4VMpuOtRciw`
	const jcs = `eyJkZWx0YSI6eyJwYXRjaGVzIjpbeyJhY3Rpb24iOiJyZXBsYWNlIiwiZG9jdW1lbnQiOnsicHVibGljS2V5cyI6W3siaWQiOiJzaWduaW5nS2V5IiwicHVibGljS2V5SndrIjp7ImNydiI6InNlY3AyNTZrMSIsImt0eSI6IkVDIiwieCI6IndkRGZEakwxRlFET3NwcC1xdmRLUUtyNzllbTdOczJFNVNBVWE5aElRaTQiLCJ5IjoiUGZmc0hEYXA1X0t3UlZwNzgtaUJaQm5XQTZMS3p6bGIxSXJ3VWhFakpuOCJ9LCJwdXJwb3NlcyI6WyJhdXRoZW50aWNhdGlvbiIsImFzc2VydGlvbk1ldGhvZCIsImNhcGFiaWxpdHlJbnZvY2F0aW9uIiwiY2FwYWJpbGl0eURlbGVnYXRpb24iLCJrZXlBZ3JlZW1lbnQiXSwidHlwZSI6IkVjZHNhU2VjcDI1NmsxVmVyaWZpY2F0aW9uS2V5MjAxOSJ9XSwic2VydmljZXMiOltdfX1dLCJ1cGRhdGVDb21taXRtZW50IjoiRWlBazRmbkFKSTJuZ1Z5ZjhrZ05fbUI5emhmX2FKcmdwa2tlalVIbTR1X3gzQSJ9LCJzdWZmaXhEYXRhIjp7ImRlbHRhSGFzaCI6IkVpQVRaWi1jclh5OXFYeGhGdkFFZElhU0pLY0tTWTVubkZ5bkJCSWtsODF5N1EiLCJyZWNvdmVyeUNvbW1pdG1lbnQiOiJFaUFOOHQ3UHlZYmtONFc3ZEVZX1JZX25YWUNlc1JPQl9mUWxzdWx3eVNyYVF3In0sInR5cGUiOiJjcmVhdGUifQ`
	dh, err := New("did:ion")
	if err != nil {
		t.Fatal(err)
	}
	// sanity: the DID of the handler's own method resolves
	if _, err := dh.ResolveDocument(fmt.Sprintf("did:ion:%s:%s", suffix, jcs)); err != nil {
		t.Fatalf("own-namespace DID does not resolve: %v", err)
	}
	for _, did := range []string{
		fmt.Sprintf("did:ionx:%s:%s", suffix, jcs),
		fmt.Sprintf("did:ion-test:%s:%s", suffix, jcs),
	} {
		res, err := dh.ResolveDocument(did)
		if err == nil {
			t.Fatalf("VERIF-REPLAY-FAIL handler for did:ion resolved %q (another method) to id %v", did[:40]+"...", res.Document["id"])
		}
	}
}
