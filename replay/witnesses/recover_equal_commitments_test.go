package client

import (
	"crypto/ecdsa"
	"crypto/elliptic"
	"crypto/rand"
	"testing"

	"github.com/trustbloc/sidetree-go/pkg/api/protocol"
	"github.com/trustbloc/sidetree-go/pkg/commitment"
	"github.com/trustbloc/sidetree-go/pkg/patch"
	"github.com/trustbloc/sidetree-go/pkg/util/ecsigner"
	"github.com/trustbloc/sidetree-go/pkg/util/pubkey"
	"github.com/trustbloc/sidetree-go/pkg/versions/1_0/operationparser"
)

// witness for C08: the builders must refuse what a parser with the matching protocol refuses --
// equal next commitments in a recover request, and next commitments computed with another hash code
func TestVerifWitnessBuilderRefusals(t *testing.T) {
	p := protocol.Protocol{MultihashAlgorithms: []uint{18, 19}, MaxOperationSize: 4000, MaxOperationHashLength: 100, MaxDeltaSize: 2000,
		SignatureAlgorithms: []string{"EdDSA", "ES256", "ES256K"}, KeyAlgorithms: []string{"Ed25519", "P-256", "secp256k1"},
		Patches: []string{"add-public-keys", "remove-public-keys", "add-services", "remove-services", "ietf-json-patch"}, MaxOperationTimeDelta: 2 * 60 * 60,
		NonceSize: 16}
	parser := operationparser.New(p)
	newKey := func() (*ecdsa.PrivateKey, string) {
		k, _ := ecdsa.GenerateKey(elliptic.P256(), rand.Reader)
		j, _ := pubkey.GetPublicKeyJWK(&k.PublicKey)
		c, _ := commitment.GetCommitment(j, 18)
		return k, c
	}
	signKey, _ := newKey()
	signJWK, _ := pubkey.GetPublicKeyJWK(&signKey.PublicKey)
	rv, _ := commitment.GetRevealValue(signJWK, 18)
	_, next := newKey()
	pt, _ := patch.NewJSONPatch(`[{"op":"add","path":"/note","value":1}]`)
	// (1) recover with equal next update and next recovery commitments
	req, err := NewRecoverRequest(&RecoverRequestInfo{DidSuffix: "EiDahaOGH-liLLdDtTxEAdc8i-cfCz-WUcQdRJheMVNn3A", RecoveryKey: signJWK, Patches: []patch.Patch{pt},
		RecoveryCommitment: next, UpdateCommitment: next, MultihashCode: 18, Signer: ecsigner.New(signKey, "ES256", ""), RevealValue: rv})
	if err == nil {
		if _, perr := parser.Parse("did:sidetree", req); perr != nil {
			t.Fatalf("VERIF-REPLAY-FAIL NewRecoverRequest built a request with equal update and recovery commitments; the parser refuses it: %v", perr)
		}
	}
	// (2) update whose next commitment is computed with another hash code (sha2-512) than the request's
	k2, _ := newKey()
	j2, _ := pubkey.GetPublicKeyJWK(&k2.PublicKey)
	c512, _ := commitment.GetCommitment(j2, 19)
	req, err = NewUpdateRequest(&UpdateRequestInfo{DidSuffix: "EiDahaOGH-liLLdDtTxEAdc8i-cfCz-WUcQdRJheMVNn3A", UpdateKey: signJWK, Patches: []patch.Patch{pt},
		UpdateCommitment: c512, MultihashCode: 18, Signer: ecsigner.New(signKey, "ES256", ""), RevealValue: rv})
	if err == nil {
		if _, perr := parser.Parse("did:sidetree", req); perr != nil {
			t.Fatalf("VERIF-REPLAY-FAIL NewUpdateRequest built a request whose next commitment uses another hash code; the parser refuses it: %v", perr)
		}
	}
}
