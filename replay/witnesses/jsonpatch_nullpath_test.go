package patchvalidator

import (
	"testing"

	"github.com/trustbloc/sidetree-go/pkg/patch"
)

// witness for C19: an ietf-json-patch operation whose path is JSON null must be refused, not panic
func TestVerifWitnessJSONPatchNullPath(t *testing.T) {
	p, err := patch.NewJSONPatch(`[{"op":"add","path":null,"value":1}]`)
	if err != nil {
		t.Fatal(err)
	}
	defer func() {
		if r := recover(); r != nil {
			t.Fatalf("VERIF-REPLAY-FAIL patch validation panicked on a null path: %v", r)
		}
	}()
	if err := Validate(p); err == nil {
		t.Fatalf("VERIF-REPLAY-FAIL null path accepted")
	}
}
