package doccomposer

import (
	"testing"

	"github.com/trustbloc/sidetree-go/pkg/document"
	"github.com/trustbloc/sidetree-go/pkg/patch"
	"github.com/trustbloc/sidetree-go/pkg/versions/1_0/operationparser/patchvalidator"
)

// witness for C19: validated json patches that make the patch library panic must yield an error
func TestVerifWitnessJSONPatchNegativeIndex(t *testing.T) {
	for _, ops := range []string{`[{"op":"test","path":"/a/-1","value":2}]`, `[{"op":"replace","path":"/a/-1","value":2}]`, `[{"op":"test","path":"/nokey"}]`} {
		func() {
			defer func() {
				if r := recover(); r != nil {
					t.Fatalf("VERIF-REPLAY-FAIL ApplyPatches panicked on %s: %v", ops, r)
				}
			}()
			doc, _ := document.FromBytes([]byte(`{"a":[1,2]}`))
			p, err := patch.NewJSONPatch(ops)
			if err != nil {
				return
			}
			if patchvalidator.Validate(p) == nil {
				_, _ = New().ApplyPatches(doc, []patch.Patch{p})
			}
		}()
	}
}
