package patchvalidator

import "testing"

// witness for validateServiceEndpointObjects#ensures[all]: every string entry of an endpoint list must be a valid URI
func TestVerifWitnessEndpointObjects(t *testing.T) {
	if err := validateServiceEndpointObjects([]interface{}{"http://ok.example", ""}); err == nil {
		t.Fatalf("VERIF-REPLAY-FAIL endpoint list with an empty second string entry accepted")
	}
}
