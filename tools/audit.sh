#!/bin/bash
# Vacuity audit (not a registered check): runs every property with GOVC_AUDIT=1, which adds soft covers
#  - after every contracted call: a non-nil result / a slice result with two or more elements is possible,
#  - for every basic block: the block is reachable under the assumptions in force there,
# and lists the ones that are NOT satisfiable. A forced-nil result is how the `pure` + `fresh` hole
# (DESIGN.md 0.3) showed; unreachable blocks should all be defensive branches the contracts rule out.
cd /verif
out=$(mktemp -d /tmp/govc-audit-XXXXXX)
mkdir -p $out/verif
for d in contracts props known_findings.txt bounded; do ln -s /verif/$d $out/verif/$d; done
for p in ${@:-C01 C02 C03 C04 C06 C07 C08 C09 C10 C11 C12 C13 C14 C15 C16 C17 C18 C20}; do
  GOVC_AUDIT=1 bin/govc check $p --tier quick --verif $out/verif > $out/$p.log 2>&1
  python3 - $out/verif/evidence/$p.json <<'PY'
import json,sys
d=json.load(open(sys.argv[1]))
for x in d['coverage'].get('returns_unreachable_under_contracts') or []:
    if 'non-nil' in x or 'non-empty' in x or 'block' in x: print(x)
PY
done | sort -u
rm -rf $out
