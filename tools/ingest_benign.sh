#!/bin/bash
# usage: ingest_benign.sh <property id>   -- confirms the behaviour-preserving patches a sub-agent left in /tmp/wt/<id>/benign/<k>
# (apply to a scratch copy, build, full suite green) and stores them as selftest/benign/<id>-<k>/
export GOFLAGS=-mod=mod GOPROXY=off GOSUMDB=off GOTOOLCHAIN=local
id=$1
for src in /tmp/wt/$id/benign/*/; do
  k=$(basename $src)
  [ -f $src/patch.diff ] || continue
  tmp=$(mktemp -d /tmp/govc-benign-XXXXXX)
  rsync -a --exclude .git --exclude benign --exclude seeded /repo/ $tmp/repo/
  (cd $tmp/repo && git init -q 2>/dev/null; patch -p1 -s < $src/patch.diff) || { echo "$id-$k: patch does not apply"; rm -rf $tmp; continue; }
  (cd $tmp/repo && go build ./... 2>&1 | tail -3)
  suite=$(cd $tmp/repo && go test -vet=off -count=1 ./pkg/... 2>&1 | grep -v 'pkg/util/json' | grep -c '^FAIL[[:space:]]\+[a-z]\|^--- FAIL')
  rm -rf $tmp
  echo "$id-$k: suite failures with the change=$suite"
  if [ "$suite" = 0 ]; then
    mkdir -p /verif/selftest/benign/$id-$k
    cp $src/patch.diff $src/meta.json /verif/selftest/benign/$id-$k/ 2>/dev/null
  fi
done
