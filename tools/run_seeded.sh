#!/bin/bash
# usage: run_seeded.sh [glob]  -- runs every stored seeded change against its property's check (scratch copy)
cd /verif
one() {
  d=$1; name=$(basename $d); prop=${name%%-*}
  if [ ! -f props/$prop.json ]; then echo "NOCHECK $name"; return; fi
  out=$(tools/runmutant.sh /verif/$d/patch.diff $prop 2>&1); code=$?
  if [ $code -eq 1 ]; then echo "CAUGHT $name: $(echo "$out" | grep 'failed obligation' | head -2 | sed 's/.*failed obligation: //' | cut -c1-150 | tr '\n' ';')";
  else echo "MISSED $name (exit $code): $(echo "$out" | tail -1 | cut -c1-150)"; fi
}
export -f one
ls -d seeded/${1:-*} | xargs -P 6 -I{} bash -c 'one {}' | sort
