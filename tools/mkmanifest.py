#!/usr/bin/env python3
"""Regenerates /verif/MANIFEST.json from /verif/props/*.json and tools/manifest_meta.json."""
import json, os, glob, subprocess
V = os.path.dirname(os.path.dirname(os.path.abspath(__file__)))
meta = json.load(open(os.path.join(V, "tools", "manifest_meta.json")))
props = [json.loads(l) for l in open(os.path.join(V, "properties.jsonl"))]
checks, na = [], []
for p in props:
    pid = p["id"]
    cfgp = os.path.join(V, "props", pid + ".json")
    m = meta["checks"].get(pid)
    if not os.path.exists(cfgp) or m is None or m.get("claimed") is False:
        na.append({"property_id": pid, "reason": (m or {}).get("reason", "check not built yet in this round; see DESIGN.md section 5 for the plan")})
        continue
    cfg = json.load(open(cfgp))
    checks.append({
        "property_id": pid,
        "quick_cmd": "bin/check %s --tier quick" % pid,
        "thorough_cmd": "bin/check %s --tier thorough" % pid,
        "evidence_file": "evidence/%s.json" % pid,
        "replay_cmd_template": "bin/check --replay {path}",
        "engine": "govc",
        "level_claimed": {"category": cfg["level"], "text": m["text"], "design_ref": m.get("design_ref", "DESIGN.md section 5, " + pid)},
        "level_note": m["note"],
        "technique": m["technique"],
    })
try:
    hooks = subprocess.check_output(["git", "-C", "/repo", "log", "--format=%H %s"], text=True).splitlines()
except Exception:
    hooks = []
hook_commits = [l.split()[0] for l in hooks if " hook:" in l or l.split(" ", 1)[1].startswith("verif hook")]
man = {
    "version": 1,
    "setup_cmd": "cd /verif/govc && GOFLAGS=-mod=mod GOPROXY=off GOSUMDB=off GOTOOLCHAIN=local go build -o /verif/bin/govc .",
    "hooks": {
        "guard": "verif",
        "enable": "go build -tags verif (contracts_verif.go files are comment-only and are read as text by /verif/govc; no executable hook exists)",
        "baseline_off_cmd": "cd /repo && GOFLAGS=-mod=mod GOPROXY=off GOSUMDB=off go test -vet=off -count=1 ./...",
        "source_commits": hook_commits,
        "add_only": True,
    },
    "engines": [{"name": "govc", "path": "govc", "serves_properties": [c["property_id"] for c in checks],
                 "kind_free_text": "self-written verification-condition generator over go/ssa (x/tools v0.29.0): contracts in comment-only files, weakest-precondition style encoding of the real functions, obligations discharged by z3 5.1.0 / cvc5 1.0.3 / z3 4.8.12"}],
    "checks": checks,
    "not_applicable": na,
    "notes": meta.get("notes", ""),
}
json.dump(man, open(os.path.join(V, "MANIFEST.json"), "w"), indent=1)
print("checks:", [c["property_id"] for c in checks], "not_applicable:", [n["property_id"] for n in na])
