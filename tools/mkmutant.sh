#!/bin/bash
# usage: mkmutant.sh <name> <property> <expected obligation substring> <file relative to repo> <perl -0pe expression>
# Creates selftest/mutants/<name>.patch (+ .json) from a perl substitution on a scratch copy of the file.
set -e
name=$1; prop=$2; expect=$3; file=$4; expr=$5
V=/verif
tmp=$(mktemp -d)
mkdir -p $tmp/a/$(dirname $file) $tmp/b/$(dirname $file)
cp /repo/$file $tmp/a/$file; cp /repo/$file $tmp/b/$file
perl -0pi -e "$expr" $tmp/b/$file
if cmp -s $tmp/a/$file $tmp/b/$file; then echo "mutant $name: substitution did not change the file" >&2; rm -rf $tmp; exit 1; fi
(cd $tmp && diff -u a/$file b/$file > $V/selftest/mutants/$name.patch || true)
python3 - "$name" "$prop" "$expect" "$file" <<PY
import json,sys
n,p,e,f=sys.argv[1:5]
json.dump({"name":n,"property":p,"expect":e,"file":f,"kind":"must-fail"},open("/verif/selftest/mutants/%s.json"%n,"w"),indent=1)
PY
rm -rf $tmp
echo "created $name"
