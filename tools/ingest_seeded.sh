#!/bin/bash
# usage: ingest_seeded.sh <property id> [k ...]
# Confirms each seeded change produced by a sub-agent in /tmp/wt/<id>/seeded/<k> on a scratch copy of /repo
# (builds, full suite passes, demo fails with the change and passes without) and stores it as /verif/seeded/<id>-<k>/.
export GOFLAGS=-mod=mod GOPROXY=off GOSUMDB=off GOTOOLCHAIN=local
id=$1; shift
ks=${@:-$(ls /tmp/wt/$id/seeded 2>/dev/null)}
for k in $ks; do
  src=/tmp/wt/$id/seeded/$k
  [ -f $src/patch.diff ] || { echo "$id-$k: no patch.diff"; continue; }
  tmp=$(mktemp -d /tmp/govc-seed-XXXXXX)
  rsync -a --exclude .git --exclude seeded /repo/ $tmp/repo/
  dest=$(head -1 $src/demo_test.go | sed -n 's/.*copy to: *\([^ ]*\).*/\1/p')
  [ -n "$dest" ] || { echo "$id-$k: demo has no 'copy to:' line"; rm -rf $tmp; continue; }
  pkgdir=$(dirname $dest)
  tname=$(grep -o 'func Test[A-Za-z0-9_]*' $src/demo_test.go | head -1 | sed 's/func //')
  cp $src/demo_test.go $tmp/repo/$dest
  base=$(cd $tmp/repo && go test -vet=off -count=1 -run "^$tname\$" ./$pkgdir 2>&1 | tail -3)
  echo "$base" | grep -q '^ok' && okbase=yes || okbase=no
  (cd $tmp/repo && patch -p1 -s < $src/patch.diff) || { echo "$id-$k: patch does not apply"; rm -rf $tmp; continue; }
  (cd $tmp/repo && go build ./... 2>&1 | tail -3)
  mut=$(cd $tmp/repo && go test -vet=off -count=1 -run "^$tname\$" ./$pkgdir 2>&1 | tail -5)
  echo "$mut" | grep -q 'FAIL' && failmut=yes || failmut=no
  rm $tmp/repo/$dest
  suite=$(cd $tmp/repo && go test -vet=off -count=1 ./... 2>&1 | grep -v 'pkg/util/json' | grep -c '^FAIL[[:space:]]\+[a-z]\|^--- FAIL')
  rm -rf $tmp
  echo "$id-$k: demo passes on base=$okbase, fails with change=$failmut, suite failures with change=$suite (test $tname in $pkgdir)"
  if [ $okbase = yes ] && [ $failmut = yes ] && [ "$suite" = 0 ]; then
    mkdir -p /verif/seeded/$id-$k
    cp $src/patch.diff $src/demo_test.go /verif/seeded/$id-$k/
    python3 - $src/meta.json /verif/seeded/$id-$k/meta.json "$tname" "$pkgdir" "$dest" <<'PY'
import json,sys
try: m=json.load(open(sys.argv[1]))
except Exception as e: m={"summary":"(meta.json of the sub-agent was not valid JSON)"}
m["confirmed"]={"demo_test":sys.argv[3],"package":sys.argv[4],"demo_copied_to":sys.argv[5],
 "ran":["go build ./... with the change: ok","go test -vet=off -count=1 ./... with the change: no failures","demo test on unchanged tree: pass","demo test with the change: FAIL"]}
json.dump(m,open(sys.argv[2],"w"),indent=1)
PY
    echo "   stored /verif/seeded/$id-$k"
  fi
done
