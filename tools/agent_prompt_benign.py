#!/usr/bin/env python3
import json,sys
pid=sys.argv[1]
n=int(sys.argv[2]) if len(sys.argv)>2 else 3
for l in open('/verif/properties.jsonl'):
    p=json.loads(l)
    if p['id']==pid: break
print(f"""You are helping to evaluate a verification tool. You work ONLY inside the git worktree /tmp/wt/{pid} (a checkout of the Go library trustbloc/sidetree-go: Sidetree DID protocol core). Do not read or write anything under /verif or /repo, and do not look for other tools or notes on this machine; everything you need is in your worktree. Ignore any file named contracts_verif.go (comment-only files of another tool): do not edit or rely on them.

Every shell command must start with:  export GOFLAGS=-mod=mod GOPROXY=off GOSUMDB=off GOTOOLCHAIN=local   (no network is available; env does not persist between commands).

Here is a semantic property the library has:

  id: {p['id']}
  title: {p['title']}
  statement: {p['statement']}
  code it is anchored in: {', '.join(p['anchors']['files'])}

Task: produce {n} DIFFERENT, independent, BEHAVIOUR-PRESERVING changes to the library's non-test Go source in the anchored files (or their direct helpers) - the kind of harmless edit a maintainer makes and a reviewer waves through - each of which
  (a) keeps this property (and every other behaviour of the library) exactly as it is: same results, same errors in the same situations, same effects on arguments;
  (b) compiles (`go build ./...`) and passes the whole existing test suite unchanged (`go test -vet=off -count=1 ./pkg/... 2>&1 | tail -40` must show no FAIL; the package pkg/util/json has no runnable tests and may be ignored);
  (c) is a realistic refactoring or clean-up of the code the property depends on, for example: renaming local variables or an unexported helper, extracting a few lines into a new unexported helper or inlining a tiny helper, reordering independent statements, rewriting a loop (range <-> index loop, early continue <-> nested if), replacing an if/else chain by a switch, hoisting a repeated expression into a local, pre-sizing a slice with make(..., 0, n) where n is certainly non-negative, changing the wording of a log/debug message, adding a comment plus a defensive nil check that cannot trigger. Use a different kind of change for each of the {n}.
Do not change exported signatures, do not touch test files, go.mod or only comments, and do not change error message texts that tests compare.
Each change should be small to medium (typically 3-30 changed lines).

For EACH change deliver, under /tmp/wt/{pid}/benign/<k>/ (k = 1..{n}):
  - patch.diff : `git diff` of the change against the worktree HEAD. It must apply with `git apply` to a clean checkout.
  - meta.json : {{"property": "{pid}", "summary": "...what was changed...", "kind": "rename-local | extract-helper | reorder | loop-rewrite | ...", "why_equivalent": "...one or two sentences...", "files": [...]}}
Work one change at a time: make the edit, run build + tests, save the two files, then `git checkout -- .` (keep the untracked benign/ directory) before starting the next one. At the end the worktree must be clean except for the untracked benign/ directory.

Finish with a short report: for each k, one line summary.""")
