#!/bin/bash
# usage: runmutant.sh <patch file> <property> [tier]   -> runs the property check on a scratch copy with the patch applied
# prints the check output; exit code is the check's exit code. The scratch copy is removed afterwards.
export GOFLAGS=-mod=mod GOPROXY=off GOSUMDB=off GOTOOLCHAIN=local
patch=$1; prop=$2; tier=${3:-quick}
tmp=$(mktemp -d /tmp/govc-mut-XXXXXX)
rsync -a --exclude .git /repo/ $tmp/repo/
(cd $tmp/repo && patch -p1 -s < $patch) || { echo "patch does not apply"; rm -rf $tmp; exit 3; }
(cd $tmp/repo && go build ./... ) || { echo "mutant does not compile"; rm -rf $tmp; exit 3; }
mkdir -p $tmp/verif
# a private verif dir so that evidence/replay of the real tree are not overwritten
for d in contracts props known_findings.txt bounded; do [ -e /verif/$d ] && ln -s /verif/$d $tmp/verif/$d; done
/verif/bin/govc check $prop --tier $tier --repo $tmp/repo --verif $tmp/verif
code=$?
if [ $code -ne 0 ] && [ -n "$KEEP_FAIL" ]; then rm -rf /verif/work/lastfail; mkdir -p /verif/work/lastfail; cp -r $tmp/verif/replay /verif/work/lastfail/ 2>/dev/null; cp -r $tmp/verif/work /verif/work/lastfail/ 2>/dev/null; fi
rm -rf $tmp
exit $code
