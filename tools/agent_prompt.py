#!/usr/bin/env python3
import json,sys
pid=sys.argv[1]
n=int(sys.argv[2]) if len(sys.argv)>2 else 2
start=int(sys.argv[3]) if len(sys.argv)>3 else 1
for l in open('/verif/properties.jsonl'):
    p=json.loads(l)
    if p['id']==pid: break
print(f"""You are helping to evaluate a verification tool. You work ONLY inside the git worktree /tmp/wt/{pid} (a checkout of the Go library trustbloc/sidetree-go: Sidetree DID protocol core). Do not read or write anything under /verif or /repo, and do not look for other tools or notes on this machine; everything you need is in your worktree.

Every shell command must start with:  export GOFLAGS=-mod=mod GOPROXY=off GOSUMDB=off GOTOOLCHAIN=local   (no network is available; env does not persist between commands).

Here is a semantic property the library is supposed to have:

  id: {p['id']}
  title: {p['title']}
  statement: {p['statement']}
  quantified over: {p['quantifier']['text']}
  why the existing tests cannot settle it: {p['why_tests_cant']}
  code it is anchored in: {', '.join(p['anchors']['files'])}

Task: produce {n} DIFFERENT, independent changes ("seeded defects") to the library's non-test Go source, each of which
  (a) BREAKS this property,
  (b) still compiles (`go build ./...`) and still passes the whole existing test suite unchanged (`go test -vet=off -count=1 ./... 2>&1 | tail -40` from the worktree root must show no FAIL; the package pkg/util/json has no runnable tests and may be ignored),
  (c) is realistic - something a maintainer could plausibly write in a refactoring or a "small improvement" - and is SUBTLE: it needs something specific to manifest (an unusual input, a particular combination of configuration values, a multi-step sequence of operations, a boundary value, or two cooperating sites that each look fine alone). Do not write changes that ordinary use would expose at once, and do not touch test files, go.mod, or comments only.
Each change should be small (typically 1-10 changed lines) and confined to the anchored files or their direct helpers.

For EACH change deliver, under /tmp/wt/{pid}/seeded/<k>/ (k = {start}..{start+n-1}):
  - patch.diff : `git diff` of the change against the worktree HEAD (only the library change, not the demo). It must apply with `git apply` to a clean checkout.
  - demo_test.go : a Go test file (state in a first-line comment which package directory it must be copied into, e.g. `// copy to: pkg/versions/1_0/operationapplier/zz_demo_test.go`) containing one test function that FAILS with the change applied and PASSES on the unchanged code. It should demonstrate the property violation through the library's public or package-level API (in-package tests may use unexported functions).
  - meta.json : {{"property": "{pid}", "summary": "...what was changed...", "needs_to_manifest": "...what specific input/sequence/config is needed...", "files": [...], "demo_cmd": "go test ... -run ..."}}
Work one change at a time: make the edit, run build + full tests, write and run the demo (must fail), `git stash`/revert the library change and re-run the demo (must pass), save the three files, then `git checkout -- .` (keep the seeded/ directory, which is untracked) before starting the next one. At the end the worktree must be clean except for the untracked seeded/ directory.

Finish with a short report: for each k, one line summary and the exact demo command. If you cannot find a change satisfying (a)-(c), say so rather than lowering the bar.""")
