#!/bin/bash
# usage: quickmut.sh <file rel to repo> <perl -0pe expr> <unit key>...   (debug aid: mutate on a scratch copy and run govc unit)
export GOFLAGS=-mod=mod GOPROXY=off GOSUMDB=off GOTOOLCHAIN=local
f=$1; expr=$2; shift 2
tmp=$(mktemp -d /tmp/govc-qm-XXXXXX)
rsync -a --exclude .git /repo/ $tmp/repo/
perl -0pi -e "$expr" $tmp/repo/$f
if cmp -s /repo/$f $tmp/repo/$f; then echo "no change"; rm -rf $tmp; exit 2; fi
(cd $tmp/repo && go build ./... ) || { echo "does not compile"; rm -rf $tmp; exit 3; }
mkdir -p $tmp/verif; for d in contracts props known_findings.txt bounded replay; do ln -s /verif/$d $tmp/verif/$d; done
/verif/bin/govc unit "$@" --repo $tmp/repo --verif $tmp/verif 2>&1 | grep -v "  ok " | tail -12
rm -rf $tmp
