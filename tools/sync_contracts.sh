#!/bin/bash
# Copies the authoritative contract files (mirror) into /repo and commits them as a hook commit.
set -e
cd /verif/contracts/mirror
find . -name contracts_verif.go | while read f; do mkdir -p /repo/$(dirname $f); cp $f /repo/$f; done
cd /repo
export GOFLAGS=-mod=mod GOPROXY=off GOSUMDB=off GOTOOLCHAIN=local
go build -tags verif ./... && go build ./...
git add -A $(cd /verif/contracts/mirror && find . -name contracts_verif.go | sed 's|^\./||')
if git diff --cached --quiet; then echo "no contract changes"; else git commit -qm "verif hook: contract files (comment-only, //go:build verif) for /verif/govc" && git log --oneline | head -1; fi
