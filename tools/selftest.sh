#!/bin/bash
# Runs the must-fail / must-pass corpus: every selftest/mutants/*.json on a scratch copy of /repo.
# usage: selftest.sh [name-glob]   exit 0 iff every must-fail mutant is flagged with the expected
# obligation and every must-pass (benign) patch leaves the check at exit 0.
cd /verif
pat=${1:-*}
one() {
  j=$1
  name=$(basename $j .json)
  prop=$(python3 -c "import json;print(json.load(open('$j'))['property'])")
  expect=$(python3 -c "import json;print(json.load(open('$j'))['expect'])")
  kind=$(python3 -c "import json;print(json.load(open('$j')).get('kind','must-fail'))")
  out=$(tools/runmutant.sh /verif/selftest/mutants/$name.patch $prop 2>&1); code=$?
  if [ "$kind" = "must-pass" ]; then
    if [ $code -eq 0 ]; then echo "PASS  $name ($prop) benign change accepted"; else echo "FALSE-ALARM $name ($prop): $(echo "$out" | grep 'failed obligation' | head -3)"; fi
  else
    if [ $code -eq 1 ] && echo "$out" | grep -F -q -- "$expect"; then echo "CAUGHT $name ($prop) by $(echo "$out" | grep -F -- "$expect" | head -1 | sed 's/.*failed obligation: //' | cut -c1-110)";
    elif [ $code -eq 1 ]; then echo "CAUGHT-OTHER $name ($prop): expected $expect, got: $(echo "$out" | grep 'failed obligation' | head -2 | cut -c1-200)";
    else echo "MISSED $name ($prop) exit=$code: $(echo "$out" | tail -2 | cut -c1-200)"; fi
  fi
}
export -f one
ls selftest/mutants/$pat.json | xargs -P 6 -I{} bash -c 'one {}' | sort
