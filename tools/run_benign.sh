#!/bin/bash
# usage: run_benign.sh [glob] [extra property ids...]  -- every behaviour-preserving patch must leave the checks at exit 0.
# Runs the check of the patch's own property, of every property whose anchored files the patch touches, and
# the broad ones (C12 C19 C20).
cd /verif
pat=${1:-*}; shift
extra="$@"
one() {
  d=$1; name=$(basename $d); own=${name%%-*}
  files=$(grep '^+++ b/' $d/patch.diff | sed 's|^+++ b/||')
  props="$own C12 C19 C20 $EXTRA"
  for p in $(python3 - "$files" <<'PY'
import json,sys
files=sys.argv[1].split()
for l in open('/verif/properties.jsonl'):
    p=json.loads(l)
    if any(f in p['anchors']['files'] for f in files): print(p['id'])
PY
); do props="$props $p"; done
  props=$(echo $props | tr ' ' '\n' | sort -u | tr '\n' ' ')
  bad=""
  for p in $props; do
    [ -f props/$p.json ] || continue
    out=$(tools/runmutant.sh /verif/$d/patch.diff $p 2>&1); code=$?
    if [ $code -ne 0 ]; then bad="$bad $p:[$(echo "$out" | grep 'failed obligation' | head -2 | sed 's/.*failed obligation: //' | cut -c1-140 | tr '\n' ';')]"; fi
  done
  if [ -z "$bad" ]; then echo "PASS $name (checked: $props)"; else echo "FALSE-ALARM $name:$bad"; fi
}
export -f one
export EXTRA="$extra"
ls -d selftest/benign/$pat | xargs -P 3 -I{} bash -c 'one {}' | sort
